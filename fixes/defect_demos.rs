// Demonstrations of the genuine defects found on the pinned tree (DESIGN.md §5).
// NOT part of any check: copied once into /repo/scnr/tests/ to tell a genuine defect from a
// false alarm, as the interface requires, and run before/after each `fix:` commit.
use scnr::{Lookahead, MatchExtIterator, Pattern, PeekResult, PositionProvider, ScannerBuilder, ScannerMode};

fn toks(modes: Vec<ScannerMode>, input: &str) -> Vec<(usize, usize, usize)> {
    let s = ScannerBuilder::new().add_scanner_modes(&modes).build_uncached().unwrap();
    s.find_iter(input).map(|m| (m.token_type(), m.start(), m.end())).collect()
}
fn mode(p: Vec<Pattern>) -> Vec<ScannerMode> {
    vec![ScannerMode::new("INITIAL", p, vec![])]
}
fn la(pos: bool, p: &str) -> Lookahead {
    Lookahead::new(pos, p.to_string())
}

#[test]
fn f1_leading_empty_alternative() {
    assert_eq!(toks(mode(vec![Pattern::new("(|a)b".into(), 0)]), "b"), vec![(0, 0, 1)]);
    assert_eq!(toks(mode(vec![Pattern::new("(|a)b".into(), 0)]), "ab"), vec![(0, 0, 2)]);
}

#[test]
fn f2_type_and_span_of_same_candidate() {
    let m = mode(vec![
        Pattern::new("ab".into(), 0).with_lookahead(la(true, "c")),
        Pattern::new("a".into(), 1),
    ]);
    assert_eq!(toks(m, "abc")[0], (0, 0, 2));
}

#[test]
fn f2_no_panic_on_failed_then_satisfied_lookahead() {
    let m = mode(vec![
        Pattern::new("a".into(), 0).with_lookahead(la(true, "x")),
        Pattern::new("ab".into(), 1).with_lookahead(la(true, "c")),
    ]);
    assert_eq!(toks(m, "abc")[0], (1, 0, 2));
}

#[test]
fn f3_lookahead_after_with_offset() {
    let m = mode(vec![Pattern::new("a".into(), 0).with_lookahead(la(true, "b"))]);
    let s = ScannerBuilder::new().add_scanner_modes(&m).build_uncached().unwrap();
    let v: Vec<_> = s.find_iter("xxab").with_offset(2).map(|m| (m.token_type(), m.start(), m.end())).collect();
    assert_eq!(v, vec![(0, 2, 3)]);
}

#[test]
fn f4_reset_after_newline_records_no_bogus_line() {
    let m = mode(vec![Pattern::new("[a-z]+".into(), 0), Pattern::new("\\n".into(), 1)]);
    let s = ScannerBuilder::new().add_scanner_modes(&m).build_uncached().unwrap();
    let mut it = s.find_iter("ab\ncd ef");
    assert_eq!(it.next().unwrap().end(), 2);
    assert_eq!(it.next().unwrap().end(), 3); // the newline was the last consumed char
    it.set_offset(1);
    let all: Vec<_> = it.by_ref().collect();
    assert!(!all.is_empty());
    // offset 1 ('b') is on line 1; a bogus line start at 1 would make it line 2 column 1
    assert_eq!((it.position(1).line, it.position(1).column), (1, 2));
}

#[test]
fn f5_trailing_newline_line_start_at_end_of_input() {
    let m = mode(vec![Pattern::new("a".into(), 0), Pattern::new("\\n".into(), 1)]);
    let s = ScannerBuilder::new().add_scanner_modes(&m).build_uncached().unwrap();
    let mut it = s.find_iter("a\n");
    while it.next().is_some() {}
    assert_eq!((it.position(2).line, it.position(2).column), (2, 1));
    assert_eq!((it.position(1).line, it.position(1).column), (1, 2));
}

#[test]
fn f6_peek_then_advance_after_reset() {
    let m = mode(vec![Pattern::new("[a-z]".into(), 0)]);
    let s = ScannerBuilder::new().add_scanner_modes(&m).build_uncached().unwrap();
    let mut it = s.find_iter("abcdefgh").with_offset(3);
    let end = match it.peek_n(1) {
        PeekResult::Matches(v) => v[0].end(),
        other => panic!("{:?}", other),
    };
    assert_eq!(end, 4);
    it.advance_to(end);
    let n = it.next().unwrap();
    assert_eq!((n.start(), n.end()), (4, 5));
}

#[test]
fn f7_peek_skips_unmatched_characters_like_next() {
    let m = mode(vec![Pattern::new("a".into(), 0)]);
    let s = ScannerBuilder::new().add_scanner_modes(&m).build_uncached().unwrap();
    let mut it = s.find_iter("a-a");
    match it.peek_n(3) {
        PeekResult::MatchesReachedEnd(v) => assert_eq!(v.len(), 2),
        other => panic!("{:?}", other),
    }
    match it.peek_n(2) {
        PeekResult::Matches(v) => assert_eq!((v[1].start(), v[1].end()), (2, 3)),
        other => panic!("{:?}", other),
    }
}

#[test]
fn f9_token_type_not_truncated() {
    let big = (1usize << 32) + 7;
    assert_eq!(toks(mode(vec![Pattern::new("a".into(), big)]), "a"), vec![(big, 0, 1)]);
}

#[test]
fn f10_offset_is_clamped() {
    let m = mode(vec![Pattern::new("a".into(), 0)]);
    let s = ScannerBuilder::new().add_scanner_modes(&m).build_uncached().unwrap();
    let mut it = s.find_iter("aaa").with_offset(10);
    assert!(it.next().is_none());
    assert_eq!(it.offset(), 3);
    let _ = it.with_positions();
}
