use scnr::{Pattern, ScannerBuilder, ScannerMode};
#[test]
fn mode_name_with_quote() {
    let modes = vec![ScannerMode::new("A\"B", vec![Pattern::new("a".to_string(), 0)], vec![])];
    let scanner = ScannerBuilder::new().add_scanner_modes(&modes).build().unwrap();
    let dir = std::env::temp_dir().join("f13_dot");
    let _ = std::fs::remove_dir_all(&dir);
    std::fs::create_dir_all(&dir).unwrap();
    scanner.generate_compiled_automata_as_dot("pre", &dir).unwrap();
    for e in std::fs::read_dir(&dir).unwrap() {
        let p = e.unwrap().path();
        println!("FILE {:?}", p);
        println!("{}", std::fs::read_to_string(&p).unwrap());
    }
}
