//! Demonstration of the known findings F11 / F12 (not fixed: the repair is a redesign — accepting states, priorities and the
//! lookahead table would have to be keyed by pattern instead of by token type — not a small patch).
//! Copy to scnr/tests/ of a scratch copy of /repo and run `cargo test --offline -p scnr --test F11_duplicate_token_types`:
//! both tests FAIL on the pinned tree (left = what scnr reports, right = what C01 / C04 require).
use scnr::{Lookahead, Pattern, ScannerBuilder, ScannerMode};

#[test]
fn duplicate_token_types_priority() {
    // "a" is matched by the 2nd and the 3rd pattern with the same length: the 2nd is listed first -> type 3
    let mode = ScannerMode::new(
        "INITIAL",
        vec![Pattern::new("x".to_string(), 7), Pattern::new("[a-z]".to_string(), 3), Pattern::new("a".to_string(), 7)],
        vec![],
    );
    let scanner = ScannerBuilder::new().add_scanner_mode(mode).build_uncached().unwrap();
    let toks: Vec<_> = scanner.find_iter("a").map(|m| (m.token_type(), m.start(), m.end())).collect();
    assert_eq!(toks, vec![(3, 0, 1)]);          // pinned tree: [(7, 0, 1)]
}

#[test]
fn duplicate_token_types_lookahead() {
    // the 2nd pattern has no lookahead: "a" must be reported
    let mode = ScannerMode::new(
        "INITIAL",
        vec![
            Pattern::new("b".to_string(), 7).with_lookahead(Lookahead::new(true, "x".to_string())),
            Pattern::new("a".to_string(), 7),
        ],
        vec![],
    );
    let scanner = ScannerBuilder::new().add_scanner_mode(mode).build_uncached().unwrap();
    let toks: Vec<_> = scanner.find_iter("a").map(|m| (m.token_type(), m.start(), m.end())).collect();
    assert_eq!(toks, vec![(7, 0, 1)]);          // pinned tree: []
}
