import re, os, subprocess, shutil, sys, json
SRC="/repo/scnr/src"
fns = """update_transitions try_from_scanner_mode try_from_lookahead trace_transitions_to_groups calculate_initial_partition calculate_new_partition
split_group build_transitions_to_partition_group create_from_partition merge_transitions_of_state add_representative_state renumber_states_in_transitions
merge_line_offsets record_line_offset advance_beyond_match advance_char_indices_beyond_match execute_possible_mode_switch create_match_char_class
add_character_class is_accepting_state get_match_transitions epsilon_closure_set satisfies_lookahead priority_of add_lookahead parse_regex_syntax
render_compiled_dfa compiled_dfa_render shift_ids set_terminal_id highest_state_number new_state add_epsilon_transition""".split()
fields = """current_states next_states end_states terminal_ids line_offsets last_position last_char char_indices scanner_modes character_classes
match_char_class current_mode lookaheads start_transitions epsilon_transitions start_state end_state is_positive""".split()
def files():
    for r,d,fs in os.walk(SRC):
        for f in fs:
            if f.endswith(".rs"): yield os.path.join(r,f)
def count(word):
    n=0
    for f in files():
        n+=len(re.findall(r"\b%s\b"%re.escape(word), open(f).read()))
    return n
out=[]
for kind, words in (("fn",fns),("field",fields)):
    for w in words:
        c=count(w)
        if c==0: continue
        new = {"fn": w+"_impl" if not w.endswith("_impl") else w+"2", "field": w+"_"}[kind]
        if kind=="fn":
            new = "do_"+w
        else:
            new = w+"_v"
        out.append((kind,w,new,c))
json.dump(out, open("/tmp/rn/plan.json","w"))
print(len(out), out[:5])
