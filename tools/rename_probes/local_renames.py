import sys, json, re, os, subprocess, shutil, random
sys.path.insert(0,"/verif")
from rules import framework as fw, mirlib as M
F=M.Facts(fw.extract_facts("default"))
voc=set(l.strip() for l in open("/verif/rules/vocabulary.txt"))
random.seed(7)
cands=[]
for f in F.fns.values():
    if f.kind=="Closure" or f.j.get("exp") or f.name not in voc or not f.file.startswith("scnr/src") : continue
    src=open("/repo/"+f.file).read().split("\n")
    ln,eln=f.j["ln"],f.j["eln"]
    if any("#[cfg(test)]" in l for l in src[:ln]) : continue
    names=set()
    for i in range(ln,eln):
        for m in re.finditer(r"\blet\s+(?:mut\s+)?([a-z_][a-z_0-9]{2,})\b", src[i]):
            names.add(m.group(1))
        for m in re.finditer(r"\bfor\s+\(?([a-z_][a-z_0-9]{2,})\b", src[i]):
            names.add(m.group(1))
    for n in names:
        cands.append((f.name,f.file,ln,eln,n))
random.shuffle(cands)
cands=cands[:60]
ROOT=os.path.expanduser("~/.cache/rnl-work"); shutil.rmtree(ROOT,ignore_errors=True); os.makedirs(ROOT)
from concurrent.futures import ThreadPoolExecutor
def work(a):
    wi,items=a
    for fname,file,ln,eln,old in items:
        d=ROOT+"/w%d"%wi; shutil.rmtree(d,ignore_errors=True)
        subprocess.run(["rsync","-a","--exclude","target","--exclude",".git","/repo/",d+"/"],check=True)
        p=os.path.join(d,file); lines=open(p).read().split("\n"); ch=0
        for i in range(ln,eln):
            n=re.sub(r"(?<![\w.])%s\b(?!\s*:(?!:))(?!\()"%re.escape(old), old+"_x", lines[i])
            if n!=lines[i]: ch+=1; lines[i]=n
        open(p,"w").write("\n".join(lines))
        env=dict(os.environ,CARGO_TARGET_DIR=ROOT+"/target%d"%wi,CARGO_NET_OFFLINE="true")
        pr=subprocess.run("cd %s && cargo test --workspace --offline 2>&1 | grep -E '^test result|^error|FAILED' | head"%d,shell=True,capture_output=True,text=True,env=env,timeout=1800)
        ok=pr.stdout.count("test result: ok")>=5 and "FAILED" not in pr.stdout and "error" not in pr.stdout
        name="rn_local_%s_%s"%(re.sub(r"\W+","_",M.short_name(fname))[-40:],old)
        if ok and ch:
            df=subprocess.run("cd %s && diff -ruN /repo/scnr/src scnr/src | sed 's#^--- /repo/#--- a/#; s#^+++ scnr/#+++ b/scnr/#'"%d,shell=True,capture_output=True,text=True).stdout
            open("/tmp/rn/%s.patch"%name,"w").write(df)
        print(name,ok,ch,flush=True)
with ThreadPoolExecutor(4) as ex:
    list(ex.map(work,[(i,cands[i::4]) for i in range(4)]))
shutil.rmtree(ROOT,ignore_errors=True)
