import os, re, subprocess, shutil, sys
plan=[("StateData","DfaState"),("NfaState","NState"),("CharacterClass","ClassEntry"),("CompiledLookahead","LookaheadAutomaton"),("EpsilonTransition","EpsEdge"),
("MatchFunction","ClassPredicate"),("TransitionsToPartitionGroups","Signature"),("CompiledScannerMode","ModeAutomaton"),("FindMatchesImpl","MatchCursor"),
("ScannerCache","BuildCache"),("Minimizer","DfaMinimizer"),("MultiPatternNfa","CombinedNfa"),("ComparableAst","AstKey"),("CompiledDfa","Automaton"),("CharacterClassRegistry","ClassTable"),("ScannerImpl","ScannerCore")]
ROOT=os.path.expanduser("~/.cache/rnt-work"); shutil.rmtree(ROOT,ignore_errors=True); os.makedirs(ROOT)
for old,new in plan:
    d=ROOT+"/w"; shutil.rmtree(d,ignore_errors=True)
    subprocess.run(["rsync","-a","--exclude","target","--exclude",".git","/repo/",d+"/"],check=True)
    for r,_,fs in os.walk(d+"/scnr/src"):
        for f in fs:
            if f.endswith(".rs"):
                p=os.path.join(r,f); s=open(p).read(); n=re.sub(r"\b%s\b"%old,new,s)
                if n!=s: open(p,"w").write(n)
    env=dict(os.environ,CARGO_TARGET_DIR=ROOT+"/target",CARGO_NET_OFFLINE="true")
    pr=subprocess.run("cd %s && cargo test --workspace --offline 2>&1 | grep -E '^test result|^error|FAILED' | head"%d,shell=True,capture_output=True,text=True,env=env,timeout=1800)
    ok=pr.stdout.count("test result: ok")>=5 and "FAILED" not in pr.stdout and "error" not in pr.stdout
    if ok:
        df=subprocess.run("cd %s && diff -ruN /repo/scnr/src scnr/src | sed 's#^--- /repo/#--- a/#; s#^+++ scnr/#+++ b/scnr/#'"%d,shell=True,capture_output=True,text=True).stdout
        open("/tmp/rn/rn_type_%s.patch"%old,"w").write(df)
    print(old,ok,pr.stdout[-200:] if not ok else "",flush=True)
shutil.rmtree(ROOT,ignore_errors=True)
