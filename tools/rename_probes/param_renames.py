import sys, json, re, os, subprocess, shutil
sys.path.insert(0,"/verif")
from rules import framework as fw, mirlib as M
F=M.Facts(fw.extract_facts("default"))
plan=[("CompiledDfa::find_from$","input","haystack"),("CompiledDfa::find_from$","char_indices","chars"),("CompiledDfa::find_from$","match_char_class","matches_class"),
("FindMatchesImpl::<'h>::advance_to$","position","target"),("FindMatchesImpl::<'h>::peek_n$","n","count"),("CompiledDfa::try_from_patterns$","patterns","pats"),
("internal::nfa::Nfa::try_from_ast$","ast","node"),("Minimizer::split_group$","partition","groups"),("Minimizer::find_group$","state_id","wanted"),
("ScannerCache::get$","modes","key_modes"),("FindMatchesImpl::<'h>::set_offset$","offset","new_offset"),("CompiledLookahead::satisfies_lookahead$","input","rest"),
("CompiledDfa::priority_of$","terminal_id","tid"),("CharacterClassRegistry::add_character_class$","ast","class_ast"),("ScannerMode::new$","mode_transitions","switches"),
("MultiPatternNfa::try_from_patterns$","patterns","pats"),("Minimizer::minimize$","dfa","automaton"),("FindMatchesImpl::<'h>::merge_line_offsets$","line_start_offsets","starts"),
("internal::dot::compiled_dfa_render$","label","title"),("internal::nfa::Nfa::concat$","nfa","other"),("internal::nfa::Nfa::alternation$","nfa","other"),
("ScannerImpl::has_transition$","token_type","tok"),("CompiledScannerMode::has_transition$","token_type","tok")]
ROOT=os.path.expanduser("~/.cache/rnp-work"); shutil.rmtree(ROOT,ignore_errors=True); os.makedirs(ROOT)
res=[]
for rx,old,new in plan:
    try: f=F.fn(rx)
    except Exception as e: print("nofn",rx); continue
    d=ROOT+"/w"; shutil.rmtree(d,ignore_errors=True)
    subprocess.run(["rsync","-a","--exclude","target","--exclude",".git","/repo/",d+"/"],check=True)
    p=os.path.join(d,f.file); lines=open(p).read().split("\n")
    ln,eln=f.j["ln"],f.j["eln"]
    ch=0
    for i in range(ln-1,eln):
        n=re.sub(r"(?<![\w.])%s\b(?!\s*:(?!:))"%re.escape(old), new, lines[i]) if i!=ln-1 and not lines[i].lstrip().startswith(("fn ","pub")) else re.sub(r"\b%s\b"%re.escape(old), new, lines[i])
        # signature lines may span several lines: rename `old:` there too
        if re.search(r"^\s*(mut )?%s\s*:"%re.escape(old), lines[i]): n=re.sub(r"\b%s\b"%re.escape(old), new, lines[i])
        if n!=lines[i]: ch+=1; lines[i]=n
    open(p,"w").write("\n".join(lines))
    env=dict(os.environ,CARGO_TARGET_DIR=ROOT+"/target",CARGO_NET_OFFLINE="true")
    pr=subprocess.run("cd %s && cargo test --workspace --offline 2>&1 | grep -E '^test result|^error|FAILED' | head"%d,shell=True,capture_output=True,text=True,env=env,timeout=1800)
    ok=pr.stdout.count("test result: ok")>=5 and "FAILED" not in pr.stdout and "error" not in pr.stdout
    name="rn_param_%s_%s"%(re.sub(r"\W+","_",rx.split("::")[-1].rstrip("$")),old)
    if ok and ch:
        df=subprocess.run("cd %s && diff -ruN /repo/scnr/src scnr/src | sed 's#^--- /repo/#--- a/#; s#^+++ scnr/#+++ b/scnr/#'"%d,shell=True,capture_output=True,text=True).stdout
        open("/tmp/rn/%s.patch"%name,"w").write(df)
    print(name,ok,ch,flush=True)
shutil.rmtree(ROOT,ignore_errors=True)
