import json, os, re, subprocess, shutil, sys
from concurrent.futures import ThreadPoolExecutor
plan=json.load(open("/tmp/rn/plan.json"))
plan=[p for p in plan if p[1] not in ("is_positive",)]
ROOT=os.path.expanduser("~/.cache/rn-work")
shutil.rmtree(ROOT, ignore_errors=True); os.makedirs(ROOT)
def work(args):
    wi, items = args
    tgt=os.path.join(ROOT,"target%d"%wi)
    res=[]
    for kind,w,new,c in items:
        d=os.path.join(ROOT,"w%d"%wi); shutil.rmtree(d, ignore_errors=True)
        subprocess.run(["rsync","-a","--exclude","target","--exclude",".git","/repo/",d+"/"],check=True)
        for r,_,fs in os.walk(d+"/scnr/src"):
            for f in fs:
                if f.endswith(".rs"):
                    p=os.path.join(r,f); s=open(p).read(); n=re.sub(r"\b%s\b"%re.escape(w), new, s)
                    if n!=s: open(p,"w").write(n)
        env=dict(os.environ, CARGO_TARGET_DIR=tgt, CARGO_NET_OFFLINE="true")
        pr=subprocess.run("cd %s && cargo test --workspace --offline 2>&1 | grep -E '^test result|^error|FAILED' | head -20"%d, shell=True, capture_output=True, text=True, env=env, timeout=1800)
        ok = pr.stdout.count("test result: ok")>=5 and "FAILED" not in pr.stdout and "error" not in pr.stdout
        if ok:
            df=subprocess.run("cd %s && diff -ruN /repo/scnr/src scnr/src | sed 's#^--- /repo/#--- a/#; s#^+++ scnr/#+++ b/scnr/#; s#^diff -ruN /repo/scnr/src#diff -ruN a/scnr/src#'"%d, shell=True, capture_output=True, text=True).stdout
            open("/tmp/rn/rn_%s_%s.patch"%(kind,w),"w").write(df)
        res.append((kind,w,ok,pr.stdout[-300:] if not ok else ""))
        print(kind,w,ok,flush=True)
    return res
chunks=[(i,plan[i::4]) for i in range(4)]
with ThreadPoolExecutor(4) as ex:
    allr=sum(ex.map(work,chunks),[])
json.dump(allr,open("/tmp/rn/results.json","w"),indent=1)
shutil.rmtree(ROOT, ignore_errors=True)
