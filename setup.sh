#!/bin/sh
# Build the fact driver and prime the fact cache (offline; nothing outside /verif is needed).
set -e
cd "$(dirname "$0")"
export CARGO_NET_OFFLINE=true
(cd driver && cargo +nightly build --release --offline)
./vcheck facts default >/dev/null
echo "setup ok"
