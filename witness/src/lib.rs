//! Compile-pass / compile_fail witnesses (external view of the crate, as a user sees it).
//! Run with `cargo +nightly test --doc --offline` (error codes are only checked on nightly).
//! Every compile_fail witness has a compiling twin that differs only in the offending line, so
//! that a witness cannot "pass" because its path is merely wrong.

/// C14.a: `Scanner` and `ScannerBuilder` are `Send + Sync`, the iterator is `Send`.
/// ```no_run
/// fn ok<T: Send + Sync>() {}
/// fn send<T: Send>() {}
/// ok::<scnr::Scanner>();
/// ok::<scnr::ScannerBuilder>();
/// send::<scnr::FindMatches<'static>>();
/// ```
/// Control: the same bound fails for a type that is not thread-safe.
/// ```compile_fail,E0277
/// fn ok<T: Send + Sync>() {}
/// ok::<std::rc::Rc<scnr::Scanner>>();
/// ```
pub struct SendSync;

/// C12.e: two live iterators from one `&Scanner`; `find_iter` takes `&self`.
/// ```no_run
/// use scnr::ScannerBuilder;
/// let scanner = ScannerBuilder::new().add_patterns(["a", "b"]).build().unwrap();
/// let s: &scnr::Scanner = &scanner;
/// let mut i1 = s.find_iter("ab");
/// let mut i2 = s.find_iter("ba");
/// let _ = (i1.next(), i2.next(), i1.next(), i2.next());
/// ```
/// `set_mode` needs `&mut Scanner`: it cannot be reached through a shared reference.
/// ```compile_fail,E0596
/// use scnr::{ScannerBuilder, ScannerModeSwitcher};
/// let scanner = ScannerBuilder::new().add_patterns(["a", "b"]).build().unwrap();
/// let s: &scnr::Scanner = &scanner;
/// s.set_mode(0);
/// ```
/// Twin of the above that compiles (mutable binding):
/// ```no_run
/// use scnr::{ScannerBuilder, ScannerModeSwitcher};
/// let mut scanner = ScannerBuilder::new().add_patterns(["a", "b"]).build().unwrap();
/// let s: &mut scnr::Scanner = &mut scanner;
/// s.set_mode(0);
/// ```
pub struct SharedScanner;

/// C12.c: the compiled scanner is not reachable from outside the crate.
/// ```compile_fail,E0616
/// use scnr::ScannerBuilder;
/// let scanner = ScannerBuilder::new().add_patterns(["a"]).build().unwrap();
/// let _ = &scanner.inner;
/// ```
/// ```compile_fail,E0603
/// use scnr::internal::ScannerImpl;
/// ```
/// Twin: the public items are reachable.
/// ```no_run
/// use scnr::{Scanner, ScannerBuilder};
/// let _: Option<Scanner> = None;
/// let _ = ScannerBuilder::new();
/// ```
pub struct Encapsulation;
