"""Premise of every rule: the facts are extracted from the debug profile (debug assertions on, a superset of the release build's
panic sites).  What the rules establish carries over to a release build only if the code that exists in debug builds alone —
the arms of `debug_assert!*` and of `if cfg!(debug_assertions)` — has no effect the rest of the program can observe.  This
module decides that: in the blocks that are executed only when `cfg!(debug_assertions)` is true there is no assignment to a
user variable or through a field / dereference, no mutable borrow of one, and no call of a function of the crate that
(transitively) writes a field of one of the crate's types.  (`#[cfg(debug_assertions)]` on items or statements cannot be seen in
the MIR of one profile; the source has none, which `floor` records by counting the attribute in the HIR facts when present.)"""
import re

from . import mirlib as M


def debug_only_regions(fn):
    """[(switch bb, set of blocks)] executed only under cfg!(debug_assertions)."""
    out = []
    dom = None
    for bb in fn.reachable():
        t = fn.term(bb)
        if t["k"] != "switch" or not re.search(r"(^|::)cfg!$", str(t.get("exp", ""))):
            continue
        # `if cfg!(debug_assertions)`: switchInt(const bool) -> [0: skip, otherwise: debug arm]
        debug_arm = t.get("otherwise")
        skip = [x[1] for x in t.get("targets", [])]
        if debug_arm is None or not skip:
            continue
        # blocks reachable from the debug arm without passing a block that the skip side reaches as well
        from_skip = fn.reach_from(skip, stop_blocks=frozenset([bb]))   # (inside a loop the arm is reachable from everywhere: do not re-enter the test)
        region, st = set(), [debug_arm]
        while st:
            b = st.pop()
            if b in region or b in from_skip:
                continue
            region.add(b)
            st.extend(fn.succ(b))
        out.append((bb, region))
    return out


def analyze(ctx, rule):
    F = ctx.facts
    n_regions = 0
    for fn in sorted(F.fns.values(), key=lambda f: f.name):
        if fn.j.get("exp"):
            continue
        for sw, region in debug_only_regions(fn):
            n_regions += 1
            names = fn.names()
            effects = []
            for bb in sorted(region):
                for i, s in enumerate(fn.blocks[bb]["stmts"]):
                    if s["k"] == "assign":
                        p = s["p"]
                        if p["pj"] and any(e["k"] in ("deref", "field", "index") for e in p["pj"]) and (p["l"] in names or p["l"] <= fn.argc or any(e["k"] == "deref" for e in p["pj"])):
                            effects.append("write to %s%s (%s)" % (names.get(p["l"], "_%d" % p["l"]), "".join("." + str(e.get("n", e["k"])) for e in p["pj"]), fn.loc(bb, i)))
                        elif not p["pj"] and p["l"] in names and p["l"] > fn.argc and not _declared_in(fn, p["l"], region):
                            effects.append("assignment to the variable %s (%s)" % (names[p["l"]], fn.loc(bb, i)))
                        rv = s["rv"]
                        if rv["k"] in ("ref", "rawptr") and rv.get("mut"):
                            q = rv["p"]
                            if (q["l"] in names and not _declared_in(fn, q["l"], region)) or any(e["k"] == "deref" for e in q["pj"]):
                                effects.append("mutable borrow of %s%s (%s)" % (names.get(q["l"], "_%d" % q["l"]), "".join("." + str(e.get("n", e["k"])) for e in q["pj"]), fn.loc(bb, i)))
                t = fn.term(bb)
                if t["k"] == "call":
                    for k in F.callees(fn, [bb]):
                        g = F.fns.get(k)
                        if g is None or g.j.get("exp"):
                            continue
                        w = [x for x in F.may_write(g) if str(x[0]).startswith(("internal::", "find_matches", "scanner", "pattern", "match_type", "span", "position", "with_positions"))]
                        # a closure of this function evaluated by the assertion (`.all(|w| ..)`) writes only its own locals
                        if w:
                            effects.append("call of %s, which writes %s (%s)" % (M.short_name(g.name), sorted("%s.%s" % (M.short_name(a), b) for a, b in w)[:3], fn.loc(bb)))
            ctx.ob(rule, "debug-only-code-is-effect-free:%s" % M.short_name(fn.name), not effects,
                   ("the code under cfg!(debug_assertions) at %s has effects a release build does not have: %s" % (fn.loc(sw), effects[:4])) if effects else
                   "%d block(s) under cfg!(debug_assertions): no write, mutable borrow or writing call" % len(region), fn.loc(sw))
    ctx.floor(rule, "debug-only regions (debug_assert!, cfg!(debug_assertions))", n_regions, 5)


def _declared_in(fn, l, region):
    """is the user variable introduced inside the region (its first definition is there)?"""
    ds = fn.defs().get(l, [])
    return bool(ds) and all(d.get("bb") in region for d in ds if "bb" in d)
