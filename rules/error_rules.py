"""Error discipline (rule C15.i): no error is discarded.

Every property that speaks about builds quantifies over failing builds too ("unsupported constructs are rejected", "a lookahead
that cannot be compiled fails the build", "an unwritable folder yields an error"): the crate reports all of them through `Result`s
that travel up with `?`.  A `Result` whose error is thrown away on the way — `.ok()`, `.unwrap_or_default()`, `if let Ok(x) = ..`
without an else that fails, `let _ = ..`, `filter_map(Result::ok)` — turns a rejected configuration into an accepted one that
behaves differently.  The reference tree has no such site; this is a closed, type-resolved inventory with an expected count of
zero per function:

  A. calls (or uses by name) of the error-discarding combinators of `Result<T, E>`,
  B. `match` / `if let` on a `Result<T, E>` whose `Err` arm does not end the function with an error (or a panic),
  C. a `Result<T, E>` returned by a call and never looked at,

for every E that is an error type (not the `Result<usize, usize>` of a binary search).  `flat_map` / `flatten` over a Result is
the adaptor inventory's (rules/adaptors.py)."""
import re

from . import mirlib as M

DISCARD = r"(ok|err|unwrap_or|unwrap_or_default|unwrap_or_else|is_ok|is_err|is_ok_and|is_err_and|map_or|map_or_else|iter|iter_mut|or|or_else)"
RX_CALL = r"result::Result::<(.*)>::" + DISCARD + r"(::<.*>)?$"
RX_INTO = r"^<(std|core)::result::Result<(.*)> as (std|core)::iter::IntoIterator>::into_iter$"
MACROS = ("debug_assert!", "trace!", "debug!", "info!", "warn!", "error!", "assert!", "debug_assert_eq!", "assert_eq!")
# a positive example that must match on every run (the rule's expected count is zero): the error type of a scnr Result
POSITIVE = "std::result::Result<internal::nfa::Nfa, errors::ScnrError>"


def _split_top(s):
    depth, parts, cur = 0, [], ""
    for ch in s:
        if ch in "<([":
            depth += 1
        elif ch in ">)]":
            depth -= 1
        if ch == "," and depth == 0:
            parts.append(cur.strip())
            cur = ""
        else:
            cur += ch
    parts.append(cur.strip())
    return parts


def error_type_of(ty):
    """E if ty is `Result<T, E>` with an error type E, else None."""
    m = re.match(r"^&?(?:mut )?(?:std|core)::result::Result<(.*)>$", (ty or "").strip())
    if not m:
        return None
    parts = _split_top(m.group(1))
    if len(parts) != 2:
        return None
    e = parts[1]
    if re.match(r"^(usize|isize|[ui](8|16|32|64|128)|bool|char|\(\)|std::convert::Infallible|!)$", e):
        return None
    return e


def _uses_of_local(fn, l):
    n = 0
    for bb in fn.reachable():
        for st in fn.blocks[bb]["stmts"]:
            if st.get("k") == "assign":
                n += sum(1 for pl in M.rvalue_places(st["rv"]) if pl["l"] == l)
                if st["p"]["l"] == l and st["p"]["pj"]:
                    n += 1
            elif st.get("k") in ("setdiscr",) and st["p"]["l"] == l:
                n += 1
        t = fn.term(bb)
        if t["k"] == "call":
            n += sum(1 for a in t["args"] if (M.operand_place(a) or {}).get("l") == l)
        elif t["k"] == "switch":
            pl = M.operand_place(t.get("discr")) if t.get("discr") else None
            if pl and pl["l"] == l:
                n += 1
        elif t["k"] == "return" and l == 0:
            n += 1
    return n


def _err_arm_fails(fn, b):
    """every way from block b to the function's return writes an error (or there is none: a panic): `_error_exit`, reading
    `Err(e)?` as what it is — the `Continue` arm of a `?` applied to a freshly built `Err` is not a way on"""
    def errs(x):
        t = fn.term(x)
        if t["k"] == "call" and re.search(r"FromResidual\b.*::from_residual$", M.call_name(t)):
            return True
        for st in fn.blocks[x]["stmts"]:
            if st["k"] == "assign" and st["p"]["l"] == 0 and not st["p"]["pj"]:
                rv = st["rv"]
                if rv.get("k") == "aggregate" and rv.get("path") == "std::result::Result" and rv.get("variant") == "Err":
                    return True
        return False
    known_break = set()
    seen, stack = set(), [b]
    while stack:
        x = stack.pop()
        if x in seen:
            continue
        seen.add(x)
        if errs(x):
            continue
        t = fn.term(x)
        if t["k"] == "return":
            return False
        succ = list(fn.succ(x))
        if t["k"] == "call" and re.search(r"ops::Try>::branch$", M.call_name(t)) and t["args"]:
            al = (M.operand_place(t["args"][0]) or {}).get("l")
            built_err = any(st["k"] == "assign" and st["p"]["l"] == al and not st["p"]["pj"] and st["rv"].get("k") == "aggregate"
                            and st["rv"].get("path") == "std::result::Result" and st["rv"].get("variant") == "Err" for st in fn.blocks[x]["stmts"])
            if built_err and not (t.get("dest") or {}).get("pj"):
                known_break.add(t["dest"]["l"])
            succ = [t["target"]] if t.get("target") is not None else []      # (the unwind edge is not a way to the return)
        elif t["k"] == "call":
            succ = [t["target"]] if t.get("target") is not None else []
        elif t["k"] == "switch":
            d = [st for st in fn.blocks[x]["stmts"] if st["k"] == "assign" and st["rv"].get("k") == "discr" and st["rv"]["p"]["l"] in known_break and not st["rv"]["p"]["pj"]]
            if d:
                tg = dict((v, bb_) for v, bb_ in t.get("targets", []))
                succ = [tg[1]] if 1 in tg else ([t["otherwise"]] if t.get("otherwise") is not None else [])
        elif t["k"] in ("drop", "assert"):
            succ = [t["target"]] if t.get("target") is not None else []
        stack.extend(succ)
    return True


def _observed_result_is_consumed(fn, bb, t):
    """`r.is_ok()` only looks: the Result `r` itself must still be moved somewhere (returned, `?`, handed to a call)"""
    a0 = M.operand_place(t["args"][0]) if t.get("args") else None
    if not a0:
        return False
    r = None
    for st in fn.blocks[bb]["stmts"]:
        if st["k"] == "assign" and st["p"]["l"] == a0["l"] and not st["p"]["pj"] and st["rv"].get("k") == "ref" and not st["rv"]["p"]["pj"]:
            r = st["rv"]["p"]["l"]
    if r is None:
        return False

    def moved(o):
        return isinstance(o, dict) and o.get("k") == "move" and (o.get("p") or {}).get("l") == r and not (o.get("p") or {}).get("pj")
    for b2 in fn.reachable():
        for st in fn.blocks[b2]["stmts"]:
            if st["k"] == "assign":
                rv = st["rv"]
                ops = [rv.get("op")] + list(rv.get("ops") or []) + [rv.get("a"), rv.get("b")]
                if any(moved(o) for o in ops if o):
                    return True
        t2 = fn.term(b2)
        if t2["k"] == "call" and any(moved(a) for a in t2["args"]):
            return True
    return r == 0


def sites(F):
    """[(function, kind, loc)] of the discarded errors in user-written code"""
    from .common import is_derived
    from .adaptors import _error_exit, _reaches_return
    out = []
    for fn in F.fns.values():
        if is_derived(fn) or fn.j.get("exp"):
            continue
        # A. discarding combinators, called or handed over by name
        for bb, t in fn.calls(r"result::Result"):
            if t.get("exp_outer") in MACROS:
                continue
            nm = M.call_name(t)
            m = re.search(RX_CALL, nm)
            m2 = re.search(RX_INTO, nm)
            if m and error_type_of("std::result::Result<%s>" % m.group(1)):
                comb = m.group(2)
                if error_type_of((t.get("dest") or {}).get("ty", "")):
                    continue        # the outcome is a Result again (`or_else`, `map_or_else(|e| Err(..), ..)`): the error lives on
                if comb in ("is_ok", "is_err", "is_ok_and", "is_err_and", "iter", "iter_mut") and _observed_result_is_consumed(fn, bb, t):
                    continue        # a look at the Result that is then returned / propagated as a whole
                out.append((fn, "Result::%s" % comb, fn.loc(bb)))
            elif m2 and error_type_of("std::result::Result<%s>" % m2.group(2)):
                out.append((fn, "Result::into_iter", fn.loc(bb)))
        for bb in fn.reachable():
            t = fn.term(bb)
            srcs = [t.get("args", [])] if t.get("k") == "call" else []
            srcs += [st_.get("rv") for st_ in fn.blocks[bb]["stmts"] if st_.get("k") == "assign"]
            stack = list(srcs)
            while stack:
                o = stack.pop()
                if isinstance(o, dict):
                    if o.get("k") == "const" and o.get("fn_path"):
                        m = re.search(RX_CALL, o["fn_path"])
                        if m and error_type_of("std::result::Result<%s>" % m.group(1)) and (t.get("exp_outer") not in MACROS):
                            out.append((fn, "Result::%s (by name)" % m.group(2), fn.loc(bb)))
                    stack.extend(v for v in o.values() if isinstance(v, (dict, list)))
                elif isinstance(o, list):
                    stack.extend(o)
        # B. match / if let on a Result whose Err arm goes on
        # (the user's match is the first look at the discriminant of a place; later switches on the same place, dominated by
        # it, are drop elaboration: "if the value still owns an Ok / Err, drop it")
        reads = [(bb, st["rv"]["p"]["l"]) for bb, i, st in fn.assigns() if st["rv"]["k"] == "discr" and error_type_of(st["rv"]["p"].get("ty", "")) and fn.term(bb)["k"] == "switch"]
        for bb, i, st in fn.assigns():
            rv = st["rv"]
            if rv["k"] != "discr":
                continue
            e = error_type_of(rv["p"].get("ty", ""))
            if not e:
                continue
            t = fn.term(bb)
            if t["k"] != "switch":
                continue
            if any(b2 != bb and l2 == rv["p"]["l"] and fn.dominates(b2, bb) for b2, l2 in reads):
                continue
            tg = dict((v, b) for v, b in t.get("targets", []))
            other = t.get("otherwise")
            succs = list(tg.values()) + ([other] if other is not None else [])
            # drop elaboration (`if the value is still an Err/Ok, drop it`): one arm is nothing but the drop of the same place
            if any(fn.term(b)["k"] == "drop" and not fn.blocks[b]["stmts"] and fn.term(b)["p"]["l"] == rv["p"]["l"] for b in succs):
                continue
            err_b = tg.get(1, other if 0 in tg else None)
            if err_b is None:
                continue
            if fn.term(err_b)["k"] == "unreachable":
                continue
            if _err_arm_fails(fn, err_b):
                continue
            out.append((fn, "match/if-let on Result<_, %s>: the Err arm goes on" % M.short_name(e), fn.loc(bb)))
        # C. a Result nobody looks at
        for bb, t in fn.calls(r"."):
            d = t.get("dest") or {}
            if d.get("pj") or d.get("l") in (None, 0):
                continue
            if not error_type_of(d.get("ty", "")):
                continue
            if t.get("exp_outer") in MACROS:
                continue
            if _uses_of_local(fn, d["l"]) == 0:
                out.append((fn, "unused Result of %s" % M.short_name(M.call_name(t)), fn.loc(bb)))
    return out


def analyze(ctx, rule="C15.i"):
    if getattr(ctx, "_error_rules_done", None) is None:
        ctx._error_rules_done = set()
    if rule in ctx._error_rules_done:
        return
    ctx._error_rules_done.add(rule)
    F = ctx.facts
    from .common import is_derived
    st = sites(F)
    per_fn = {}
    for fn, kind, loc in st:
        per_fn.setdefault((re.sub(r"(::\{closure#\d+\})+$", "", fn.name), kind), []).append(loc)
    n_fn = sum(1 for f in F.fns.values() if not is_derived(f) and not f.j.get("exp"))
    n_res = sum(1 for f in F.fns.values() if not is_derived(f) and not f.j.get("exp") for bb, t in f.calls(r".") if error_type_of((t.get("dest") or {}).get("ty", "")))
    ctx.floor(rule, "user-written functions scanned for discarded errors", n_fn, 200)
    ctx.floor(rule, "calls returning a Result with an error type", n_res, 40)
    ctx.ob(rule, "error-type-recognised", error_type_of(POSITIVE) == "errors::ScnrError" and error_type_of("std::result::Result<usize, usize>") is None,
           "positive example: %s" % POSITIVE, "")
    ctx.ob(rule, "no-error-is-discarded", not per_fn,
           "%d function(s) scanned, %d Result-returning calls; discarded errors: %s" % (n_fn, n_res, sorted((M.short_name(k[0]), k[1]) for k in per_fn)[:6]), "")
    for (name, kind), locs in sorted(per_fn.items()):
        ctx.ob(rule, "discarded-error:%s:%s" % (M.short_name(name), kind), False,
               "%s discards an error (%s at %s): the reference tree propagates every error with `?` or returns it; an error thrown away turns a configuration that must be rejected into one that is accepted and behaves differently" % (M.short_name(name), kind, ", ".join(locs[:3])), locs[0])
