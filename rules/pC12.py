from . import sharing, kernel, cursor
LEVEL = "other"
EXPLANATION = ("Isolation as an ownership fact: a deep type-structure walk from Scanner/ScannerImpl/FindMatches(Impl) (local ADTs field by "
               "field, std containers through their arguments, dyn Fn resolved to the crate's closures and their captured types) reaches "
               "no interior-mutability, single-thread or raw-pointer type and no unknown type; shared handles are Arc/& of Freeze data; "
               "Clone of the compiled scanner is derived; exactly one interior-mutable static, touched only by the two build functions; no "
               "Arc back doors; scratch buffers are cleared and re-seeded before any read; find_iter(&self) clones; the cache hands out "
               "clones. With these facts Rust's type system gives isolation for every interleaving of iterator operations.")
RULES = {"C12.a", "C12.b", "C12.c", "C12.d", "C12.e", "C12.f"}


def check(ctx):
    from .common import compiled_scanner_is_frozen
    compiled_scanner_is_frozen(ctx, "C02.m")   # nothing edits a compiled scanner after the pipeline produced it (closed writer sets)
    if ctx.tier == "thorough":
        from . import witness
        witness.analyze(ctx, "C12.e")
    sharing.analyze(ctx, RULES)
    kernel.analyze(ctx, {"C12.d"})
    # 'unaffected by peeks': purity of the peek path (shared with C11)
    cursor.analyze(ctx, {"C11.a", "C10.a"})   # (C10.a: the public wrappers forward and do nothing else — no state of their own)
    # 'unaffected by set_mode on the Scanner / by earlier iterations': every new iterator works on a clone reset to mode 0
    from . import pC06
    pC06.fresh_iterator_rules(ctx)
    pC06.mode_forward_rules(ctx)    # (C06.g: a set_mode reaches the object it was called on and nothing else — no mailbox another iterator reads)
    from .common import cache_foundation
    cache_foundation(ctx)
