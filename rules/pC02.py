from . import nfa_rules, dispatch, sharing, closure_rules
LEVEL = "other"
EXPLANATION = ("Theorem + checked side conditions: Thompson's construction and the closure construction are correct if the "
               "side conditions hold; the rules discharge them on the current MIR: builder lemmas (each builder's ε-structure, "
               "extracted by abstract interpretation with fresh-state symbols, is language-equivalent to its regex operator "
               "for ALL operand languages — decided by a product construction over the operand symbols), the identity shortcut "
               "is only taken where ε is the operator's identity, fragment invariants, who-may-call/who-may-write of the graph "
               "mutators, completeness of shift_ids. Language equality for concrete pattern sets is not decided (it needs the "
               "compiled automata, i.e. running the compiler).")
RULES = {"C02.h", "C02.a", "C02.b", "C02.c", "C02.d", "C02.e", "C02.f", "C02.g", "C01.g"}


def check(ctx):
    nfa_rules.analyze(ctx, RULES)
    dispatch.analyze(ctx, RULES)
    closure_rules.analyze(ctx, RULES)
    sharing.analyze(ctx, {"C02.f"})
    # a class id on a transition denotes the predicate stored at that index: one predicate per registered class, in id order
    from . import classes
    classes.analyze(ctx, {"C08.a", "C08.b", "C08.c", "C08.d", "C08.e"})   # ... and a class transition is taken exactly by the class's characters
    from . import pC06
    pC06.compiled_mode_rules(ctx, "C02.h")   # every configured pattern reaches the compiler, unmodified
    from . import pC15
    pC15.parse_pipeline(ctx, "C02.k")   # patterns and lookaheads: the text parsed is the configured text, default parser configuration
    # the automaton the property speaks about is the minimized one: the minimizer's own side conditions belong here as well
    from . import minimizer_rules
    minimizer_rules.analyze(ctx, {"C03.a", "C03.b", "C03.c", "C03.d", "C03.e", "C03.f", "C03.g", "C03.h"})
    from .common import compiled_scanner_is_frozen, key_types_compare_structurally
    key_types_compare_structurally(ctx, "C02.n")
    compiled_scanner_is_frozen(ctx, "C02.m")   # nothing edits a compiled automaton after the pipeline produced it
    from . import casts
    casts.analyze(ctx, {"C17.a"})   # ids of states, groups and classes are injective
    # the property is observed on scanners obtained through build(): the cache must hand back the configuration's own compilation
    from . import adaptors
    adaptors.analyze(ctx, ("C02.j", "C03.i", "C08.f"))
    from .common import cache_foundation
    cache_foundation(ctx)
    from . import error_rules
    error_rules.analyze(ctx, "C15.i")     # no error is discarded on the way: a failing build / an unwritable file is reported to the caller
