"""C16 — scanner configurations and matches survive serialization unchanged."""
import glob
import json
import os
import re

from . import mirlib as M

TYPES = ["scanner_mode::ScannerMode", "pattern::Pattern", "pattern::Lookahead", "match_type::Match", "match_type::MatchExt",
         "span::Span", "position::Position", "internal::ids::TerminalID", "internal::ids::ScannerModeID"]

# serde attributes that keep Serialize and Deserialize symmetric
SAFE_ATTRS = {"default", "deny_unknown_fields"}


def strip_comments(src):
    src = re.sub(r"//[^\n]*", "", src)
    src = re.sub(r"/\*.*?\*/", "", src, flags=re.S)
    return src


def non_test_source(path):
    src = open(path).read()
    # cut `#[cfg(test)] mod ... { ... }` at the end of files (the repo keeps test modules last)
    m = re.search(r"#\[cfg\(test\)\]\s*mod\s+\w+\s*\{", src)
    if m:
        src = src[:m.start()]
    return src


def scan_serde_attrs(repo):
    """[(file, item-or-field name, kind 'container'|'field', attr text, field type text)] + token count"""
    out = []
    total_tokens = 0
    attributed = 0
    for path in sorted(glob.glob(os.path.join(repo, "scnr", "src", "**", "*.rs"), recursive=True)):
        src = strip_comments(non_test_source(path))
        # helper attributes: serde( ... ) inside #[...] (possibly through cfg_attr)
        for m in re.finditer(r"#\[([^\[\]]*(?:\([^\[\]]*\))?[^\[\]]*)\]", src):
            attr = m.group(1)
            if "serde" not in attr:
                continue
            helpers = re.findall(r"serde\s*\(((?:[^()]|\([^()]*\))*)\)", attr)
            derives = re.findall(r"derive\s*\(([^)]*)\)", attr)
            n_tok = len(re.findall(r"\bserde\b", attr))
            total_tokens += n_tok
            if not helpers:
                # derive(serde::Serialize ...) or feature = "serde" only
                attributed += n_tok
                continue
            rest = src[m.end():]
            # skip further attributes
            rest2 = re.sub(r"^\s*(#\[[^\]]*\]\s*)*", "", rest)
            fm = re.match(r"(pub(\([^)]*\))?\s+)?(\w+)\s*:\s*([^,\n}]+)", rest2)
            im = re.match(r"(pub(\([^)]*\))?\s+)?(struct|enum)\s+(\w+)", rest2)
            attributed += n_tok
            for h in helpers:
                if im:
                    out.append((os.path.relpath(path, repo), im.group(4), "container", h.strip(), ""))
                elif fm:
                    out.append((os.path.relpath(path, repo), fm.group(3), "field", h.strip(), fm.group(4).strip()))
                else:
                    out.append((os.path.relpath(path, repo), "?", "unknown", h.strip(), ""))
        # serde tokens outside attributes (use statements, paths) are not attributes
    return out, total_tokens, attributed


def analyze(ctx, want):
    F = ctx.facts
    repo = ctx.repo

    def ob(rule, key, ok, detail, loc=""):
        if rule in want:
            ctx.ob(rule, key, ok, detail, loc)

    ctx.trust("serde / serde_json: derive(Serialize, Deserialize) are inverse for the default representation; JSON string escaping and number round-trip")

    # ---- C16.a both directions derived
    for t in TYPES:
        for tr in ("Serialize", "Deserialize"):
            ims = [i for i in F.impls if i["of_trait"] and re.search(r"_serde::%s$|serde::(ser|de)::%s$" % (tr, tr), i["trait"]) and i["self"]["s"] == t]
            ok = len(ims) == 1 and ims[0]["derived"]
            ob("C16.a", "derived:%s:%s" % (tr, t.split("::")[-1]), ok, "%s for %s: %d impl(s), derived=%s" % (tr, t, len(ims), [i["derived"] for i in ims]), ims[0]["file"] if ims else "")
    manual = [i for i in F.impls if i["of_trait"] and re.search(r"serde::(ser::)?Serialize$|serde::(de::)?Deserialize$", i["trait"]) and not i["derived"]]
    ob("C16.a", "no-manual-serde-impl", not manual, "manual serde impls: %s" % [(i["trait"], i["self"]["s"]) for i in manual], "")

    # ---- C16.b symmetric attributes (source-level scan; helper attributes are invisible to the driver)
    attrs, total, attributed = scan_serde_attrs(repo)
    ob("C16.b", "attribute-scan-complete", True, "%d serde helper attribute(s) found; %d serde tokens inside attributes" % (len(attrs), total), "")
    if "C16.b" in want:
        ctx.floor("C16.b", "serde tokens inside attributes", total, 10)
    for f, name, kind, text, fty in attrs:
        for part in [x.strip() for x in re.split(r",(?![^()]*\))", text) if x.strip()]:
            key = "attr:%s:%s:%s" % (name, kind, re.sub(r"\s+", "", part)[:60])
            if kind == "unknown":
                ob("C16.b", key, False, "serde attribute %r could not be attributed to an item or field (fail closed)" % part, f)
                continue
            m = re.match(r"skip_serializing_if\s*=\s*\"Option::is_none\"$", part)
            if m:
                ok = fty.replace(" ", "").startswith("Option<")
                ob("C16.b", key, ok, "skip_serializing_if = Option::is_none on field %s: %s (a missing field deserialises to None only for Option<_>)" % (name, fty), f)
                continue
            m = re.match(r"rename\s*=\s*\"[^\"]*\"$", part)
            if m or part in SAFE_ATTRS:
                ob("C16.b", key, True, "symmetric attribute %s" % part, f)
                continue
            ob("C16.b", key, False, "serde attribute %r on %s %s is not in the symmetric-safe table (one-sided rename, skip*, with, flatten, tag/untagged, from/into break the round trip)" % (part, kind, name), f)
    # cross-check through the compiler: derived Serialize bodies that call Option::is_none are exactly the tagged fields
    tagged = {name for f, name, kind, text, fty in attrs if "skip_serializing_if" in text}
    via_compiler = set()
    for fn in F.fns.values():
        if re.search(r"_serde::Serialize for .*>::serialize$", fn.name):
            pr = M.Prov(fn, max_depth=10)
            for bb, t in fn.calls(r"Option::<.*>::is_none$"):
                for a in t["args"]:
                    e = pr.operand(a)
                    for fld in M.expr_fields(e):
                        via_compiler.add(fld)
    ob("C16.b", "skip-attributes-agree-with-the-derived-code", tagged == via_compiler, "tagged by the source scan: %s; fields tested with Option::is_none in derived Serialize: %s" % (sorted(tagged), sorted(via_compiler)), "")

    # ---- C16.c ids are transparent numbers, transitions are pairs
    for t in ("internal::ids::TerminalID", "internal::ids::ScannerModeID"):
        a = F.adts.get(t)
        ok = a is not None and len(a["variants"]) == 1 and len(a["variants"][0]["fields"]) == 1 and a["variants"][0]["fields"][0]["name"] == "0" and a["variants"][0]["fields"][0]["ty"]["s"] in ("usize", "u32", "u64")
        ob("C16.c", "id-is-a-newtype-over-an-integer:" + t.split("::")[-1], ok, "%s = %s" % (t, [(f["name"], f["ty"]["s"]) for f in a["variants"][0]["fields"]] if a else None), a["file"] if a else "")
    sm = F.adts.get("scanner_mode::ScannerMode")
    model = {}
    if sm is None:
        ctx.missing("C16.c", "ScannerMode")
        return
    fields = {f["name"]: f["ty"]["s"] for f in sm["variants"][0]["fields"]}
    ob("C16.c", "transitions-are-pairs-of-ids", fields.get("transitions") == "std::vec::Vec<(internal::ids::TerminalID, internal::ids::ScannerModeID)>", "transitions: %s" % fields.get("transitions"), sm["file"])
    pt = F.adts.get("pattern::Pattern")
    la = F.adts.get("pattern::Lookahead")
    pf = {f["name"]: f["ty"]["s"] for f in pt["variants"][0]["fields"]}
    lf = {f["name"]: f["ty"]["s"] for f in la["variants"][0]["fields"]}
    ob("C16.c", "data-model", set(fields) == {"name", "patterns", "transitions"} and set(pf) == {"pattern", "token_type", "lookahead"} and set(lf) == {"is_positive", "pattern"},
       "ScannerMode%s Pattern%s Lookahead%s" % (sorted(fields), sorted(pf), sorted(lf)), sm["file"])
    ctx.sample({"rule": "C16.c", "data_model": {"ScannerMode": fields, "Pattern": pf, "Lookahead": lf}})

    # ---- C16.d documented layout = data model (README block and every JSON mode file)
    optional = {"lookahead"}

    def check_mode(m, where):
        errs = []
        if not isinstance(m, dict):
            return ["mode is not an object"]
        extra = set(m) - set(fields)
        miss = set(fields) - set(m)
        if extra:
            errs.append("unknown keys %s" % sorted(extra))
        if miss:
            errs.append("missing keys %s" % sorted(miss))
        if not isinstance(m.get("name"), str):
            errs.append("name is not a string")
        for p in m.get("patterns", []) if isinstance(m.get("patterns"), list) else [None]:
            if not isinstance(p, dict):
                errs.append("pattern is not an object")
                continue
            ex_ = set(p) - set(pf)
            ms_ = set(pf) - set(p) - optional
            if ex_:
                errs.append("unknown pattern keys %s" % sorted(ex_))
            if ms_:
                errs.append("missing pattern keys %s" % sorted(ms_))
            if not isinstance(p.get("pattern"), str) or not isinstance(p.get("token_type"), int) or isinstance(p.get("token_type"), bool):
                errs.append("pattern/token_type kinds")
            if "lookahead" in p and p["lookahead"] is not None:
                l_ = p["lookahead"]
                if not isinstance(l_, dict) or set(l_) != set(lf) or not isinstance(l_.get("is_positive"), bool) or not isinstance(l_.get("pattern"), str):
                    errs.append("lookahead layout %s" % (l_,))
        for tr in m.get("transitions", []) if isinstance(m.get("transitions"), list) else [None]:
            if not (isinstance(tr, list) and len(tr) == 2 and all(isinstance(x, int) and not isinstance(x, bool) for x in tr)):
                errs.append("transition %s is not a pair of numbers" % (tr,))
        return errs

    n_files = 0
    readme = os.path.join(repo, "README.md")
    if os.path.exists(readme):
        blocks = re.findall(r"```json\n(.*?)```", open(readme).read(), flags=re.S)
        for bi, b in enumerate(blocks):
            try:
                d = json.loads(b)
            except Exception as e:
                ob("C16.d", "readme-json-block-%d-parses" % bi, False, "README json block does not parse: %s" % e, "README.md")
                continue
            if isinstance(d, list) and d and isinstance(d[0], dict) and "patterns" in d[0]:
                n_files += 1
                errs = [e for m in d for e in check_mode(m, "README")]
                ob("C16.d", "readme-layout-matches-the-types", not errs, "README mode list vs ScannerMode/Pattern/Lookahead: %s" % (errs or "ok"), "README.md")
    for path in sorted(glob.glob(os.path.join(repo, "scnr", "tests", "data", "*.json")) + glob.glob(os.path.join(repo, "scnr", "benches", "*.json"))):
        try:
            d = json.load(open(path))
        except Exception:
            continue
        if isinstance(d, list) and d and isinstance(d[0], dict) and "patterns" in d[0]:
            n_files += 1
            errs = [e for m in d for e in check_mode(m, path)]
            ob("C16.d", "fixture-layout:" + os.path.basename(path), not errs, "%s" % (errs or "matches the data model"), os.path.relpath(path, repo))
    if "C16.d" in want:
        ctx.floor("C16.d", "JSON mode lists compared with the data model", n_files, 5)

    # ---- C16.f feature gating
    cargo = open(os.path.join(repo, "scnr", "Cargo.toml")).read()
    m = re.search(r"\[features\](.*?)(\n\[|\Z)", cargo, flags=re.S)
    feats = {}
    if m:
        for line in m.group(1).splitlines():
            mm = re.match(r"\s*(\w+)\s*=\s*\[(.*)\]", line)
            if mm:
                feats[mm.group(1)] = re.findall(r"\"([^\"]+)\"", mm.group(2))
    ob("C16.f", "serde-in-default-features", "serde" in feats.get("default", []), "default = %s" % feats.get("default"), "scnr/Cargo.toml")
    ob("C16.f", "regex_automata-implies-serde", "serde" in feats.get("regex_automata", []), "regex_automata = %s" % feats.get("regex_automata"), "scnr/Cargo.toml")
    ob("C16.f", "serde-feature-pulls-serde-and-serde_json", set(feats.get("serde", [])) >= {"dep:serde", "dep:serde_json"}, "serde = %s" % feats.get("serde"), "scnr/Cargo.toml")
    ob("C16.f", "facts-built-with-serde", "serde" in F.j.get("features", []), "features of the analysed build: %s" % F.j.get("features"), "")
