from . import sharing
LEVEL = "other"
EXPLANATION = ("Send/Sync answered by rustc's trait solver for Scanner, ScannerImpl, the builders and the iterator (plus compile-pass / "
               "compile_fail witnesses in the thorough tier); no hand-made unsafe impl; closed, content-checked list of two unsafe blocks with "
               "the side conditions of the unchecked index (ids minted only by the registry, table only grows, predicates created after the "
               "last registration); one lock, acquired exclusively once per build, guard is a temporary, nothing reachable from "
               "ScannerCache::get touches the lock again; no other shared mutable state (type walk); no walk over a randomly seeded hash table (results do not depend on the thread). Lock poisoning: the panic-site inventories of the build path "
               "(C15.h, runs under the write lock) and of the scan path (C07.d) are re-checked here.")
RULES = {"C14.a", "C14.b", "C14.c", "C14.d", "C14.e", "C14.f"}


def check(ctx):
    from .common import compiled_scanner_is_frozen
    compiled_scanner_is_frozen(ctx, "C02.m")   # nothing edits a compiled scanner after the pipeline produced it (closed writer sets)
    if ctx.tier == "thorough":
        from . import witness
        witness.analyze(ctx, "C14.a")
    sharing.analyze(ctx, RULES)
    # 'no call panics': a panic on the build path happens under the cache's write lock and poisons it for every
    # other thread; a panic on the scan path kills the scanning thread.  Both inventories are part of this property.
    from . import panics
    panics.analyze(ctx, {"C15.h", "C07.d"})
    # the property is observed on scanners obtained through build(): the cache must hand back the configuration's own compilation
    from .common import cache_foundation
    cache_foundation(ctx)
    from . import error_rules
    error_rules.analyze(ctx, "C15.i")     # no error is discarded on the way: a failing build / an unwritable file is reported to the caller
