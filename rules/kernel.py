"""Analysis of the candidate-selection kernel CompiledDfa::find_from (compiled_dfa.rs) and of
CompiledLookahead::satisfies_lookahead.

One iteration of the transition loop is interpreted abstractly (rules/symex.py) with symbolic
incumbents.  Every path is classified by the outcomes it assumes for the atoms the code
branches on — lookahead present / haystack split / satisfied / polarity / incumbent present /
order(extent_new, extent_old) / order(priority_new, priority_old) — and its effect (which
incumbent locals are written, with which values) is compared with the specification table of
C01/C04/C05.  Orderings are the only way integers are inspected, so the finite set of order
outcomes is an exhaustive abstraction of all inputs."""
import re

from . import mirlib as M
from . import symex as S
from .common import BaseModel, ret_paths, variant_of, none, some, field_path, init_params

LOG_MACROS = ("trace!", "debug!", "info!", "warn!", "error!")
GETTERS = r"match_type::Match::(span|token_type|start|end|is_empty|len|range|new)$|span::Span::(is_empty|len|new|range)$"


class Model(BaseModel):
    def switch(self, ex, path, bb, d, t):
        if t.get("exp_outer") in LOG_MACROS:
            return False
        return None

    def call(self, ex, path, bb, t, args):
        name = M.call_name(t)
        m = re.search(r"Option::<.*>::map::<", name)
        if m and len(args) == 2 and args[1][0] == "closure" and ex.facts is not None and args[1][1] in ex.facts.fns and re.search(r"CompiledDfa::find_from$", ex.fn.name):
            # (the final `incumbent.map(|..| Match::new(..))` of find_from is kept as a deferred call: the result-role rule
            # evaluates the closure itself; everywhere else Option::map is the branch the engine makes of it)
            opt = args[0]
            v = ex.known_variant(path, opt)
            outs = []
            if v in (None, "None"):
                asm = None if v == "None" else [(("isvar", opt, "None"), True)]
                outs.append((none(), asm))
            if v in (None, "Some"):
                payload = opt[3][0] if opt[0] == "adt" else ("field", ("downcast", opt, "Some"), "0")
                asm = None if v == "Some" else [(("isvar", opt, "Some"), True)]
                outs.append((("mapcall", args[1], payload), asm))
            return outs
        return BaseModel.call(self, ex, path, bb, t, args)


def named_init(fn, fid):
    """All debug-named locals start as opaque symbols named after the source variable."""
    p = S.Path()
    names = fn.names()
    cnt = {}
    for l, n in names.items():
        cnt[n] = cnt.get(n, 0) + 1
    for l, n in names.items():
        p.locals[(fid, l)] = ("sym", n if cnt[n] == 1 else "%s#%d" % (n, l))
    return p


def hoisted_init(fd, F, init, fid, H_from, H_to, back, body_to):
    """Named locals computed once per trip of the outer loop before the inner loop starts (`let end = index + c.len_utf8();`
    hoisted out of the inner loops): a local that is not written inside the inner loop and whose value on entry to it is the same
    pure term over other named locals on every way there starts the inner-loop analysis as that term instead of an opaque
    symbol."""
    ex0 = S.Engine(fd, F, Model(), cut_edges=back, stop_blocks={H_to}, inline=GETTERS, desugar=KDESUGAR, max_paths=4000)
    ps = [p for p in ex0.run(H_from, named_init(fd, ex0.fid)) if p.end and p.end[0] == "stop"]
    if not ps or ex0.truncated:
        return init
    names = fd.names()
    vals = {}
    for l in names:
        vs = {p.locals.get((ex0.fid, l)) for p in ps}
        if len(vs) == 1:
            v = vs.pop()
            if v is not None:
                vals[l] = v
    symof = {l: init.locals[(fid, l)] for l in names if (fid, l) in init.locals}
    # terms standing for other named locals are written as those locals' symbols (largest terms first)
    subst = sorted(((v, symof[l]) for l, v in vals.items() if l in symof and v != symof[l] and (v[0] not in ("int", "bool", "sym") or (v[0] == "sym" and str(v[1]).startswith("item@")))), key=lambda x: -len(str(x[0])))

    def rw(t, skip):
        if not isinstance(t, tuple):
            return t
        for a, b in subst:
            if t == a and b != skip:
                return b
        return tuple(rw(x, skip) for x in t)

    def pure(t):
        if not isinstance(t, tuple) or not t:
            return True
        if t[0] in ("sym", "int", "bool"):
            return True
        if t[0] in ("add", "sub"):
            return pure(t[1]) and pure(t[2])
        if t[0] == "app":
            return bool(re.search(r"(^|::)len_utf8$", str(t[1]))) and all(pure(a) for a in t[2])
        return False
    defs = fd.defs()
    for l, v in vals.items():
        if l not in symof or v == symof[l]:
            continue
        if any(d["bb"] in body_to for d in defs.get(l, [])):
            continue            # written inside the inner loop: an incumbent, not a hoisted constant of the trip
        v2 = rw(v, symof[l])
        if v2 != symof[l] and v2[0] in ("add", "sub") and pure(v2):
            init.locals[(fid, l)] = v2
    return init


def loop_info(fn):
    loops = fn.natural_loops()
    info = {}
    for h, body in loops.items():
        # the `next` call that drives the loop is in the header block
        # (a `for` loop has it in the header block; `while cond { match it.next() { .. } }` somewhere in the loop's own body:
        # any block of the loop that belongs to no inner loop)
        inner_ = [h2 for h2 in loops if h2 != h and h2 in body]
        own = [b for b in body if not any(b in loops[h2] for h2 in inner_)]
        drv, drv_bb = None, None
        for b in sorted(own, key=lambda b_: (b_ != h, b_)):
            t = fn.term(b)
            if t["k"] == "call" and re.search(r"Iterator>::next$", M.call_name(t)):
                drv, drv_bb = t.get("callee_self") or "", b
                break
        info[h] = {"body": body, "driver": drv, "driver_bb": drv_bb, "inner": inner_}
    return info


def order_sets():
    return {"L", "E", "G"}


# Option methods taking a closure are analysed as the branch they abbreviate (symex.Engine.combinator)
KDESUGAR = r"option::Option::<"

OUT2SET = {"Less": {"L"}, "Equal": {"E"}, "Greater": {"G"}}
FLIP = {"L": "G", "G": "L", "E": "E"}


def binop_set(op, outcome):
    """Orderings of (a ? b) consistent with `a op b == outcome`."""
    t = {"Lt": {"L"}, "Le": {"L", "E"}, "Gt": {"G"}, "Ge": {"G", "E"}, "Eq": {"E"}, "Ne": {"L", "G"}}[op]
    return t if outcome else ({"L", "E", "G"} - t)


def analyze(ctx, want):
    F = ctx.facts
    from . import adaptors
    adaptors.analyze(ctx, ("C05.e",))       # the simulation looks at every character, every active state, every transition
    ctx.trust("rustc type checker / MIR construction (nightly), the fact driver")
    ctx.trust("std: Ord::cmp on usize, Option, HashMap::get, str::split_at_checked, char::len_utf8")

    def ob(rule, key, ok, detail, loc=""):
        if rule in want:
            ctx.ob(rule, key, ok, detail, loc)

    def sample(rule, obj):
        if rule in want:
            obj = dict(obj)
            obj["rule"] = rule
            ctx.sample(obj)

    fd = F.fn(r"CompiledDfa::find_from$")
    ctx.analysed_fn(fd)
    li = loop_info(fd)
    char_loops = [h for h, i in li.items() if i["driver"] and "CharIndices" in i["driver"]]
    inner = [h for h, i in li.items() if not i["inner"]]
    if len(char_loops) != 1 or len(inner) != 1:
        ctx.missing("C05.anchor", "char loop / transition loop of CompiledDfa::find_from (%d/%d)" % (len(char_loops), len(inner)))
        return
    H_char, H_tr = char_loops[0], inner[0]
    mids = [h for h in li if h not in (H_char, H_tr)]
    back = set(fd.back_edges())

    # ------------------------------------------------------------------ result roles (from the exit)
    # run from the exit of the char loop to the return
    exits = set()
    for b in li[H_char]["body"]:
        for s in fd.succ(b):
            if s not in li[H_char]["body"]:
                exits.add(s)
    roles = {}
    unwraps_at_exit = []
    ex = S.Engine(fd, F, Model(), cut_edges=back, inline=GETTERS, desugar=KDESUGAR)
    exit_paths = []
    for e in sorted(exits):
        exit_paths += ex.run(e, named_init(fd, ex.fid))
    ret_some = None
    for p in exit_paths:
        if p.end[0] != "return":
            continue
        r = p.end[1]
        if r[0] == "mapcall":
            # evaluate the closure body on the payload
            clo, payload = r[1], r[2]
            cfn = F.fns[clo[1]]
            ctx.analysed_fn(cfn)
            ex2 = S.Engine(cfn, F, Model(), cut_edges=cfn.back_edges(), inline=GETTERS, desugar=KDESUGAR)
            ip = p.fork()
            ip.locals[(ex2.fid, 1)] = ("ref", ("loc", clo, ()), False)
            ip.locals[(ex2.fid, 2)] = payload
            for cp in ex2.run(0, ip):
                if cp.end[0] == "return":
                    ret_some = (cp, cp.end[1], ex2)
        elif r[0] == "adt" and r[2] == "Some":
            ret_some = (p, r[3][0], ex)
    if ret_some is None:
        ctx.missing("C05.anchor", "the Some(Match) return of CompiledDfa::find_from")
        return
    rp, rm, rex = ret_some
    tt = rex.project(rp, rm, ("f", "token_type", 0), None)
    sp = rex.project(rp, rm, ("f", "span", 1), None)
    st = rex.project(rp, sp, ("f", "start", 0), None)
    en = rex.project(rp, sp, ("f", "end", 1), None)

    def payload_local(term):
        # term == (X as Some).0  with X = ("sym", name)
        t = term
        while t[0] in ("cast",):
            t = t[2]
        if t[0] == "field" and t[1][0] == "downcast" and t[1][1][0] == "sym":
            return t[1][1][1]
        if t[0] == "sym":
            return t[1]
        return None

    def payload_path(term):
        # term == ((X as Some).0).k  with X = ("sym", name): component k of a tuple-valued incumbent
        t = term
        while t[0] in ("cast",):
            t = t[2]
        if t[0] == "field" and t[1][0] == "field" and t[1][2] == "0" and t[1][1][0] == "downcast" and t[1][1][2] == "Some" and t[1][1][1][0] == "sym" and str(t[2]).isdigit():
            return t[1][1][1][1], int(t[2])
        return None

    roles["tid"] = payload_local(tt)
    roles["start"] = payload_local(st)
    roles["end"] = payload_local(en)
    # One incumbent that carries (end, extent, token type) as a tuple is the same state as separate locals that are written
    # together: it is analysed as its components ("virtual split").  VT: base name -> {component index: virtual name}
    VT = {}
    pt_, pe_ = payload_path(tt), payload_path(en)
    if roles["tid"] is None and roles["end"] is None and pt_ and pe_ and pt_[0] == pe_[0] and pt_[1] != pe_[1]:
        VT = {"base": pt_[0], "tid": pt_[1], "end": pe_[1]}
        roles["tid"] = "%s.%d" % pt_
        roles["end"] = "%s.%d" % pe_
    ob("C05.a", "result-roles-resolved", all(roles.values()),
       "returned Match{token_type: %s, span: %s..%s}; incumbents %s" % (S.vstr(tt), S.vstr(st), S.vstr(en), roles), fd.loc())
    sample("C05.a", {"returned_match": "Match{token_type: %s, span: %s..%s}" % (S.vstr(tt), S.vstr(st), S.vstr(en)), "roles": roles})
    if not all(roles.values()):
        return
    VLOC = {}          # virtual local number -> (base local number, component index)

    def NAMES():
        d = dict(fd.names())
        for vl, (bl, k) in VLOC.items():
            d[vl] = "%s.%d" % (fd.names()[bl], k)
        return d

    def DEFS():
        d = dict(fd.defs())
        for vl, (bl, k) in VLOC.items():
            d[vl] = fd.defs().get(bl, [])
        return d

    def LOCAL_VAL(p, fid, l):
        if l in VLOC:
            bl, k = VLOC[l]
            v = p.locals.get((fid, bl))
            if v is None or v == none():
                return v
            if v[0] == "adt" and v[2] == "Some" and v[3] and v[3][0][0] == "tuple":
                c_ = v[3][0][1][k]
                return c_ if k not in (VT.get("tid"), VT.get("end")) else some(c_)
            return ("field", ("field", ("downcast", v, "Some"), "0"), str(k))
        return p.locals.get((fid, l))
    name2local = {}
    cnt_ = {}
    for l, n in fd.names().items():
        cnt_[n] = cnt_.get(n, 0) + 1
    for l, n in fd.names().items():
        # same naming as named_init: a source name used by several locals is qualified by the local number
        name2local.setdefault(n if cnt_[n] == 1 else "%s#%d" % (n, l), l)
        name2local.setdefault(n, l)
    # unwraps at the exit are discharged by the invariant "tid Some => end Some and start Some" (C05.d)
    exit_unwraps = [e for e in rp.events if e[0] == "unwrap"]

    # ------------------------------------------------------------------ one transition-loop iteration
    ex = S.Engine(fd, F, Model(), cut_edges=back, inline=GETTERS, max_paths=40000, desugar=KDESUGAR)
    init = hoisted_init(fd, F, named_init(fd, ex.fid), ex.fid, H_char, H_tr, back, li[H_tr]["body"])
    paths = ex.run(H_tr, init)
    if ex.truncated:
        ctx.missing("C05.anchor", "path enumeration of the transition loop truncated")
        return
    fidl = ex.fid
    if VT:
        base_l = name2local.get(VT["base"])
        OPT_ = "std::option::Option"
        arity = None
        for p in paths:
            for e in p.events:
                if e[0] == "write" and e[2] == ("local", fidl, base_l) and not e[3] and e[4][0] == "adt" and e[4][2] == "Some" and e[4][3] and e[4][3][0][0] == "tuple":
                    arity = len(e[4][3][0][1])
        if base_l is None or arity is None:
            ctx.missing("C05.anchor", "tuple-valued incumbent %s: no write of Some((..)) found in the transition loop" % VT["base"])
            return
        for k in range(arity):
            VLOC[100000 + k] = (base_l, k)
            name2local["%s.%d" % (VT["base"], k)] = 100000 + k
        BSYM = ("sym", VT["base"])

        def vsym(k):
            return ("sym", "%s.%d" % (VT["base"], k))

        def rw(t):
            # bottom-up rewriting of a term: components of the tuple become the virtual incumbents
            if not isinstance(t, tuple):
                return t
            t = tuple(rw(x) for x in t)
            if len(t) == 3 and t[0] == "field" and isinstance(t[1], tuple) and t[1][:1] == ("field",) and len(t[1]) == 3 and t[1][2] == "0" and t[1][1] == ("downcast", BSYM, "Some") and str(t[2]).isdigit():
                k = int(t[2])
                return vsym(k) if k not in (VT["tid"], VT["end"]) else ("field", ("downcast", vsym(k), "Some"), "0")
            if len(t) == 3 and t[0] == "isvar" and t[1] == BSYM:
                return ("isvar", vsym(VT["tid"]), t[2])
            if len(t) >= 2 and t[0] == "discr" and t[1] == BSYM:
                return ("discr", vsym(VT["tid"])) + t[2:]
            return t
        for p in paths:
            p.conds = [(rw(c), o) for c, o in p.conds]
            for key, val in list(p.assume.items()):
                if isinstance(key, tuple) and len(key) == 2 and key[0] == "variant" and key[1] == BSYM:
                    p.assume[("variant", vsym(VT["tid"]))] = val
                    p.assume[("variant", vsym(VT["end"]))] = val
            new_events = []
            for e in p.events:
                if e[0] == "write" and e[2] == ("local", fidl, base_l) and not e[3]:
                    v = e[4]
                    for k in range(arity):
                        if v[0] == "adt" and v[2] == "Some" and v[3] and v[3][0][0] == "tuple":
                            c_ = rw(v[3][0][1][k])
                            vv = c_ if k not in (VT["tid"], VT["end"]) else ("adt", OPT_, "Some", (c_,))
                        elif v == none():
                            vv = none() if k in (VT["tid"], VT["end"]) else ("int", 0)
                        else:
                            vv = ("field", ("field", ("downcast", rw(v), "Some"), "0"), str(k))
                        new_events.append(("write", e[1], ("local", fidl, 100000 + k), (), vv) + tuple(e[5:]))
                    continue
                if e[0] == "write":
                    e = e[:4] + (rw(e[4]),) + tuple(e[5:])
                elif e[0] == "unwrap":
                    e = e[:2] + (rw(e[2]),) + tuple(e[3:])
                elif e[0] == "call":
                    e = e[:3] + (tuple(rw(a) for a in e[3]), rw(e[4]) if e[4] is not None else None) + tuple(e[5:])
                new_events.append(e)
            p.events = new_events
    # incumbent-state locals: named locals defined outside the transition loop and written inside it
    body = li[H_tr]["body"]
    written = {}
    for p in paths:
        for e in p.events:
            if e[0] == "write" and e[2][0] == "local" and e[2][1] == fidl and not e[3]:
                l = e[2][2]
                if l in NAMES():
                    written.setdefault(l, 0)
    defs = DEFS()
    incumb = []
    for l in sorted(written):
        outside = [d for d in defs.get(l, []) if d["bb"] not in body and d["bb"] >= 0]
        if outside:
            incumb.append(l)
    inc_names = [NAMES()[l] for l in incumb]
    res_locals = {role: name2local.get(n) for role, n in roles.items()}
    ext_locals = [l for l in incumb if l not in res_locals.values()]
    ob("C05.a", "incumbent-locals", res_locals["tid"] in incumb and res_locals["end"] in incumb,
       "locals carried across iterations and written in the transition loop: %s" % inc_names, fd.loc())
    sample("C05.a", {"incumbent_locals": inc_names, "extent_locals": [NAMES()[l] for l in ext_locals]})

    SYM = lambda n: ("sym", n)
    INDEX, CH = None, None
    # the char-loop item: locals assigned from the CharIndices item in the char loop body
    for bb, i, s in fd.assigns():
        rv = s["rv"]
        if bb in li[H_char]["body"] and rv["k"] == "use" and rv["op"]["k"] in ("copy", "move"):
            pj = rv["op"]["p"]["pj"]
            if len(pj) == 3 and pj[0]["k"] == "downcast" and pj[1]["k"] == "field" and pj[2]["k"] == "field" and not s["p"]["pj"]:
                src = rv["op"]["p"]["l"]
                d = fd.single_def(src)
                if d and d["kind"] == "call" and "CharIndices" in (d["term"].get("callee_self") or ""):
                    if pj[2]["i"] == 0:
                        INDEX = fd.names().get(s["p"]["l"])
                    elif pj[2]["i"] == 1:
                        CH = fd.names().get(s["p"]["l"])
    if not INDEX or not CH:
        # the item reaches its named parts through intermediate bindings (`let (index, c) = match it.next() { Some(x) => x, .. }`):
        # resolved by provenance — a named local of the char loop whose value is component 0 / 1 of the Some payload of the
        # cursor's `next`
        pv_ = M.Prov(fd)

        def item_component(e, depth=0):
            # -> 0 / 1 if e is (<next() on CharIndices> as Some).0.<k>, looking through phi nodes that all agree
            if depth > 6 or not isinstance(e, tuple):
                return None
            if e[0] == "phi":
                ks = {item_component(a, depth + 1) for a in e[1] if not (isinstance(a, tuple) and a[0] in ("mutated",))}
                return ks.pop() if len(ks) == 1 else None
            if e[0] == "field" and e[1][0] == "field" and e[1][1][0] == "downcast" and e[1][1][2] == "Some":
                c_ = e[1][1][1]
                while isinstance(c_, tuple) and c_[0] == "phi" and len(c_[1]) == 1:
                    c_ = c_[1][0]
                if c_[0] == "call" and re.search(r"Iterator>::next$", c_[1]) and "CharIndices" in c_[1]:
                    return e[3] if len(e) > 3 else int(e[2])
            return None
        for l, n_ in sorted(fd.names().items()):
            ds = [d for d in fd.defs().get(l, []) if not d["partial"]]
            if not ds or not all(d["bb"] in li[H_char]["body"] for d in ds):
                continue
            k_ = item_component(pv_.local(l))
            if k_ == 0 and not INDEX:
                INDEX = n_
            elif k_ == 1 and not CH:
                CH = n_
    if not INDEX or not CH:
        ctx.missing("C05.anchor", "cursor item (index, char) of the char loop")
        return
    END = ("add", SYM(INDEX), ("app", "len_utf8", (SYM(CH),)))

    n_sel = 0
    table = {}
    for p in paths:
        # ---------- classify the path
        nxt = p.calls(r"Iterator>::next$")
        if not nxt:
            continue
        item = None
        for e in p.events:
            if e[0] == "call" and re.search(r"Iterator>::next$", e[2]):
                pass
        # matched char?
        mcc = [(c, o) for c, o in p.conds if c[0] == "app" and re.search(r"ops::Fn<.*>>::call$", c[1])]
        if not mcc:
            continue  # iterator exhausted
        if mcc[-1][1] is not True:
            w = [e for e in p.events if e[0] == "write" and e[2][0] == "local" and e[2][2] in incumb and not e[3]]
            ob("C05.a", "no-write-without-matching-transition", not w, "incumbent written although the char class did not match", fd.loc())
            continue
        # the transition item (cc, next)
        call_args = mcc[-1][0][2]
        # accept test
        acc = [(c, o) for c, o in p.conds if c[0] == "field" and c[2] == "0" and "end_states" in S.vstr(c)]
        writes = [e for e in p.events if e[0] == "write" and e[2][0] == "local" and e[2][1] == fidl and e[2][2] in incumb and not e[3]]
        if not acc:
            ob("C05.a", "accept-test-present", False, "matched transition without an accept test", fd.loc())
            continue
        accc, acco = acc[0]
        # NEXT = the index used in the accept test
        nexti = accc[1][2] if accc[1][0] == "index" else None
        # every matched transition target is kept for the next character
        pushed = [e for e in p.events if e[0] == "call" and re.search(r"Vec::<.*StateSetID>::push$", e[2]) and "next_states" in S.vstr(e[3][0])]
        cont = [(c, o) for c, o in p.conds if c[0] == "app" and re.search(r"<impl \[.*\]>::contains$", c[1]) and "next_states" in S.vstr(c)]
        kept = (cont and cont[-1][1] is True) or (len(pushed) == 1 and nexti is not None and ex.deref_val(p, pushed[0][3][1]) == nexti)
        ob("C01.i", "matched-target-kept-for-next-char", bool(kept), "target %s: contains=%s pushes=%s" % (S.vstr(nexti) if nexti else "?", [o for c, o in cont], [S.vstr(x[3][1]) for x in pushed]), fd.loc())
        if acco is not True:
            ob("C05.a", "no-write-for-non-accepting-target", not writes, "incumbent written for a non-accepting target", fd.loc())
            continue
        TID_NEW = ("field", ("index", ("field", SYM("self"), "end_states"), nexti), "1")
        # ---------- lookahead gate atoms
        get = p.calls(r"HashMap::<.*CompiledLookahead.*>::get")
        la_present = None
        la_key_ok = None
        if get:
            g = get[-1]
            la_present = variant_of(ex, p, g[4])
            key = ex.deref_val(p, g[3][1])
            la_key_ok = key == TID_NEW and "self.lookaheads" in S.vstr(g[3][0])
            ob("C04.a", "lookahead-looked-up-by-candidate-terminal", bool(la_key_ok), "lookaheads.get(%s) for candidate terminal %s" % (S.vstr(key), S.vstr(TID_NEW)), fd.loc(g[1]))
        for rule_ in ("C04.e", "C05.b"):
            ob(rule_, "lookahead-looked-up-for-every-accepting-candidate", bool(get),
               "an accepting candidate is decided %s its lookahead was looked up (a candidate may only be dismissed after its lookahead, which contributes to its extent, is known)" % ("after" if get else "BEFORE/without"), fd.loc())
        # the text after the candidate: `input.split_at_checked(n)` (second half) or `input.get(n..)` — both are Some exactly when
        # n is a char boundary within the haystack.  tail = (call event, haystack, index, term of the rest)
        tail = None
        split = p.calls(r"split_at_checked$")
        if split:
            e_ = split[-1]
            tail = (e_, e_[3][0], e_[3][1], ("field", ("field", ("downcast", e_[4], "Some"), "0"), "1"))
        else:
            split = p.calls(r"<impl str>::get::<std::ops::RangeFrom<usize>>$")
            if split:
                e_ = split[-1]
                rng_ = ex.deref_val(p, e_[3][1]) if e_[3][1][0] == "ref" else e_[3][1]
                if rng_[0] == "adt" and rng_[1].endswith("ops::RangeFrom") and len(rng_[3]) == 1:
                    tail = (e_, e_[3][0], rng_[3][0], ("field", ("downcast", e_[4], "Some"), "0"))
                elif rng_[0] == "tuple" and len(rng_[1]) == 1:
                    tail = (e_, e_[3][0], rng_[1][0], ("field", ("downcast", e_[4], "Some"), "0"))
        sat = p.calls(r"CompiledLookahead::satisfies_lookahead$")
        split_v = variant_of(ex, p, tail[0][4]) if tail else None
        satisfied = None
        la_len_term = None
        if sat:
            sres = sat[-1][4]
            for c, o in p.conds:
                if c == ("field", sres, "0"):
                    satisfied = o
            la_len_term = ("field", sres, "1")
        ispos = None
        for c, o in p.conds:
            if c[0] == "field" and c[2] == "is_positive":
                ispos = o
        gate_open = None
        if la_present == "None" or not get:
            gate_open = True
        elif la_present == "Some":
            if split_v == "Some":
                gate_open = (satisfied is True)
                if satisfied is None:
                    gate_open = None
            elif split_v == "None":
                gate_open = (ispos is False) if ispos is not None else None
            else:
                gate_open = None
        if gate_open is None:
            ob("C04.a", "gate-decided-on-every-path", False,
               "a path with a lookahead reaches the selection without deciding it (present=%s split=%s satisfied=%s positive=%s)" % (la_present, split_v, satisfied, ispos), fd.loc())
            continue
        # ---------- C04.c the lookahead reads the text after the candidate
        if sat:
            a_in, a_ci = sat[-1][3][1], sat[-1][3][2]
            ok_split = tail is not None and S.vstr(ex.deref_val(p, tail[1])) in ("input", "*input") and S.linear(tail[2]) == S.linear(END)
            ob("C04.c", "lookahead-haystack-split-at-candidate-end", bool(ok_split),
               "the rest of %s from %s on (must split the cursor's haystack at index + len_utf8(c))" % (S.vstr(tail[1]) if tail else None, S.vstr(tail[2]) if tail else None), fd.loc(sat[-1][1]))
            rest = tail[3] if tail else None
            def is_view_of(v, target):
                # v is `target` behind any number of & / * (no arithmetic, no other projection)
                n = 0
                while n < 8:
                    if v == target:
                        return True
                    if v[0] == "ref":
                        loc = v[1]
                        if loc[2]:
                            return False
                        v = loc[1]
                    elif v[0] == "deref":
                        v = v[1]
                    else:
                        return False
                    n += 1
                return False
            ok_rest = rest is not None and is_view_of(a_in, rest)
            ok_ci = rest is not None and a_ci[0] == "app" and re.search(r"<impl str>::char_indices$", a_ci[1]) is not None and is_view_of(a_ci[2][0], rest)
            ob("C04.c", "lookahead-scans-the-rest-after-the-candidate", bool(ok_rest and ok_ci),
               "satisfies_lookahead(%s, %s)" % (S.vstr(a_in), S.vstr(a_ci)), fd.loc(sat[-1][1]))
            recv = ex.deref_val(p, sat[-1][3][0])
        # ---------- effect of the path
        wmap = {}
        for e in writes:
            wmap[e[2][2]] = e[4]
        if not gate_open:
            ob("C04.a", "gate-dominates-result-writes", not wmap,
               "candidate with unsatisfied lookahead (present=%s split=%s satisfied=%s positive=%s) writes %s" % (
                   la_present, split_v, satisfied, ispos, [NAMES()[l] for l in wmap]), fd.loc())
            continue
        n_sel += 1
        la = ("int", 0)
        if sat and satisfied is True:
            la = la_len_term
        EXT = S.Engine.arith(ex, "add", END, la) if la != ("int", 0) else END
        # T: incumbent present?
        tidsym = SYM(roles["tid"])
        T = p.assume.get(("variant", tidsym))
        for c, o in p.conds:
            if c[0] == "isvar" and c[1][0] == "sym" and c[1][1] in (roles["tid"], roles["end"]) and T is None:
                T = c[2] if o else {"None": "Some", "Some": "None"}[c[2]]
            if c[0] == "discr" and c[1][0] == "sym" and c[1][1] in (roles["end"],) and T is None:
                T = p.assume.get(("variant", c[1]))
        # comparisons
        Eset, Qset = order_sets(), order_sets()
        OLD_TID = ("field", ("downcast", tidsym, "Some"), "0")
        unrelated = []
        for c, o in p.conds:
            a = b = None
            oset = None
            if c[0] == "discr" and c[1][0] == "cmp":
                a, b = c[1][1], c[1][2]
                names = dict((dv, n) for n, dv in c[2])
                if isinstance(o, tuple):
                    continue
                oset = OUT2SET.get(names.get(o))
            elif c[0] == "binop" and c[1] in ("Lt", "Le", "Gt", "Ge", "Eq", "Ne") and isinstance(o, bool):
                a, b = c[2], c[3]
                oset = binop_set(c[1], o)
            if a is None or oset is None:
                continue
            sa, sb = S.vstr(a), S.vstr(b)
            # priority comparison?
            pa = a[0] == "app" and re.search(r"priority_of$", a[1])
            pb = b[0] == "app" and re.search(r"priority_of$", b[1])
            if pa and pb:
                ta, tb = a[2][1], b[2][1]
                if ta == TID_NEW and tb == OLD_TID:
                    Qset &= oset
                elif ta == OLD_TID and tb == TID_NEW:
                    Qset &= {FLIP[x] for x in oset}
                else:
                    unrelated.append("priority_of(%s) vs priority_of(%s)" % (S.vstr(ta), S.vstr(tb)))
                continue
            # extent comparison: one side must be the challenger's extent, the other an incumbent-only term
            ld, cd = S.lin_diff(a, b)
            lext, cext = S.linear(EXT)
            inc_atoms = {at for at in ld if mentions_only_incumbent(at, inc_names)}
            chall = {at: co for at, co in ld.items() if at not in inc_atoms}
            if chall == lext and cd == cext and inc_atoms and all(ld[at] == -1 for at in inc_atoms):
                Eset &= oset
                old_side = [at for at in inc_atoms]
                check_old_extent(ob, fd, old_side, ext_locals, roles, la, name2local)
            elif {k_: -v_ for k_, v_ in chall.items()} == lext and -cd == cext and inc_atoms and all(ld[at] == 1 for at in inc_atoms):
                Eset &= {FLIP[x] for x in oset}
                check_old_extent(ob, fd, [at for at in inc_atoms], ext_locals, roles, la, name2local)
            elif "'" in sa or "'" in sb or not inc_atoms:
                continue  # unrelated to the selection (e.g. char tests)
            else:
                unrelated.append("%s vs %s" % (sa, sb))
        for u in unrelated:
            ob("C05.b", "extent-comparison-operands", False,
               "selection compares %s; it must compare the challenger's extent (%s) with the incumbent's stored extent, and priorities of the two terminals" % (u, S.vstr(EXT)), fd.loc())
        if unrelated:
            continue
        # expected outcome for every ordering consistent with the path
        if T is None:
            # the path never asked whether an incumbent exists: it must behave well for both
            Ts = ["None", "Some"]
        else:
            Ts = [T]
        wrote_all = set(wmap) >= {res_locals["tid"], res_locals["end"]} and set(wmap) >= set(ext_locals)
        wrote_none = not wmap
        ok_pair = wrote_all or wrote_none
        ob("C05.a", "end-type-extent-written-together", ok_pair,
           "a candidate writes %s of the incumbent locals %s (must be all or none: span and token type belong to one candidate)" % ([NAMES()[l] for l in wmap], inc_names), fd.loc())
        if not ok_pair:
            continue
        for Tv in Ts:
            for e_ in sorted(Eset):
                for q_ in sorted(Qset):
                    if Tv == "None":
                        exp = True
                    elif e_ == "G":
                        exp = True
                    elif e_ == "L":
                        exp = False
                    else:
                        exp = (q_ == "L")
                    key = "incumbent=%s,extent=%s,priority=%s" % (Tv, {"L": "smaller", "E": "equal", "G": "greater"}[e_], {"L": "higher", "E": "same", "G": "lower"}[q_])
                    if Tv == "None":
                        key = "incumbent=None"
                    elif e_ != "E":
                        key = "incumbent=Some,extent=%s" % {"L": "smaller", "G": "greater"}[e_]
                    table[key] = "replace" if wrote_all else "keep"
                    rule = "C05.b" if (Tv == "Some") else "C04.e"
                    if Tv == "Some" and e_ == "E":
                        rule = "C05.c"
                    ob(rule, "selection:" + key, exp == wrote_all,
                       "challenger with %s: the code %s the incumbent, the trailing-context rule says %s" % (
                           key, "replaces" if wrote_all else "keeps", "replace" if exp else "keep"), fd.loc())
        # ---------- values written
        if wrote_all:
            ve = wmap[res_locals["end"]]
            vt = wmap[res_locals["tid"]]
            ve_p = ve[3][0] if ve[0] == "adt" and ve[2] == "Some" else ve
            vt_p = vt[3][0] if vt[0] == "adt" and vt[2] == "Some" else vt
            ok_e = S.linear(ve_p) == S.linear(END)
            ob("C07.a", "match-end-is-end-of-current-char", ok_e,
               "match end := %s (must be index + len_utf8(c) of the character just read: non-empty, on a char boundary)" % S.vstr(ve_p), fd.loc())
            ob("C04.d", "lookahead-length-not-in-match-end", not S.mentions(ve_p, lambda x: x[0] == "app" and re.search(r"satisfies_lookahead$", x[1]) is not None),
               "match end %s depends on the lookahead length" % S.vstr(ve_p), fd.loc())
            ob("C05.a", "token-type-of-the-same-candidate", vt_p == TID_NEW, "token type := %s, candidate terminal %s" % (S.vstr(vt_p), S.vstr(TID_NEW)), fd.loc())
            ob("C05.d", "writes-keep-invariant-tid-some-iff-end-some", ve[0] == "adt" and ve[2] == "Some" and vt[0] == "adt" and vt[2] == "Some",
               "end := %s, tid := %s" % (S.vstr(ve), S.vstr(vt)), fd.loc())
            for l in ext_locals:
                vx = wmap[l]
                ok_x = S.linear(vx) == S.linear(EXT)
                ob("C05.b", "stored-extent-is-end-plus-own-lookahead", ok_x,
                   "%s := %s (must be the candidate's end plus the length of ITS lookahead match: %s)" % (NAMES()[l], S.vstr(vx), S.vstr(EXT)), fd.loc())
        # unwraps inside the selection
        for e in p.events:
            if e[0] == "unwrap":
                v = e[2]
                kv = e[3]
                nm = v[1] if v[0] == "sym" else S.vstr(v)
                if nm in inc_names:
                    # discharged if some incumbent was tested Some on this path (invariant I) — T == Some
                    ob("C05.d", "unwrap-of-incumbent-guarded", T == "Some" or kv == "Some",
                       "unwrap of %s on a path where the incumbent is %s" % (nm, T or "not known to be present"), fd.loc(e[1]))
    if "C05.b" in want or "C01.b" in want:
        ctx.floor("C05.b" if "C05.b" in want else "C01.b", "selection paths analysed", n_sel, 4)
    sample("C05.b", {"selection_table": table})
    need = {"incumbent=None", "incumbent=Some,extent=greater", "incumbent=Some,extent=smaller"}
    ob("C05.b", "selection-table-complete", need <= set(table) and any(k.startswith("incumbent=Some,extent=equal") for k in table),
       "rows: %s" % sorted(table), fd.loc())
    # C01 view of the same table (lookahead-free modes: extent == end)
    if "C01.b" in want:
        for k, v in sorted(table.items()):
            exp = "replace" if (k == "incumbent=None" or k.endswith("extent=greater") or k.endswith("priority=higher")) else "keep"
            ctx.ob("C01.b" if "extent=equal" not in k else "C01.c", "longest-match:" + k, v == exp, "challenger %s -> %s (longest match, ties to the earlier pattern: %s)" % (k, v, exp), fd.loc())

    # ------------------------------------------------------------------ exit unwraps (C05.d)
    for e in exit_unwraps:
        v = e[2]
        nm = v[1] if v[0] == "sym" else S.vstr(v)
        # discharged by: taken only under tid Some (the map closure), and writes keep the invariant
        ob("C05.d", "exit-unwrap:" + nm, nm in (roles["start"], roles["end"]),
           "unwrap of %s in the result closure: safe because end/type are only ever written together as Some (C05.a/C05.d) and the start is set before any candidate" % nm, fd.loc())
    # The start may also be taken once, before the loop, as the index of the first element of a *copy* of the cursor
    # (`char_indices.clone().next().map(|(i, _)| i)`): the copy yields what the cursor itself will yield first, so whenever the
    # loop body runs (the cursor yielded an element) the start is Some(index of the first character), and it is never written again.
    start_hoisted = False
    sl_ = name2local.get(roles["start"])
    if sl_ is not None and sl_ not in VLOC:
        full_in_loop = [d for d in fd.defs().get(sl_, []) if not d["partial"] and d["bb"] in li[H_char]["body"]]
        exh = S.Engine(fd, F, Model(), cut_edges=back, stop_blocks={H_char}, inline=GETTERS, desugar=KDESUGAR)
        vals = []
        for p in exh.run(0, init_params(fd, exh.fid)):
            if p.end[0] == "stop":
                vals.append((p, p.locals.get((exh.fid, sl_))))
        if not full_in_loop and vals and any(v is not None and v[0] == "mapcall" for _, v in vals):
            ok_h = True
            pvh = M.Prov(fd)
            for p, v in vals:
                if v == none():
                    continue
                if v is None or v[0] != "mapcall" or not (v[2][0] == "sym" and str(v[2][1]).startswith("item@bb")):
                    ok_h = False
                    continue
                # the element comes from `next` on a clone of the cursor parameter
                bbn = int(str(v[2][1])[len("item@bb"):])
                tn = fd.term(bbn)
                src_ok = False
                if tn["k"] == "call" and re.search(r"Iterator>::next$", M.call_name(tn)) and "CharIndices" in (tn.get("callee_self") or ""):
                    e_ = pvh.operand(tn["args"][0])
                    cl_ = [c for c in M.expr_calls(e_) if re.search(r"clone::Clone>::clone$", c[1])]
                    src_ok = len(cl_) == 1 and "char_indices" in M.expr_leaf_names(e_) and not any(re.search(r"Iterator>::(skip|rev|nth|step_by|filter)", c[1]) for c in M.expr_calls(e_))
                # and the closure projects the index out of the (index, char) pair
                clo = v[1]
                cfn = F.fns.get(clo[1])
                proj_ok = False
                if cfn is not None:
                    exc = S.Engine(cfn, F, Model(), cut_edges=cfn.back_edges(), inline=GETTERS, desugar=KDESUGAR)
                    ip = p.fork()
                    ip.end = None
                    ip.locals[(exc.fid, 1)] = ("ref", ("loc", clo, ()), False)
                    ip.locals[(exc.fid, 2)] = ("sym", "PAIR")
                    rs_ = [q.end[1] for q in exc.run(0, ip) if q.end[0] == "return"]
                    proj_ok = bool(rs_) and all(r_ == ("field", ("sym", "PAIR"), "0") for r_ in rs_)
                ok_h = ok_h and src_ok and proj_ok
            start_hoisted = ok_h
    # match_start: set to Some(index) before the state loop whenever it is None
    ex = S.Engine(fd, F, Model(), cut_edges=back, inline=GETTERS, desugar=KDESUGAR)
    # start at the block that follows the Some edge of the CharIndices::next switch
    init = named_init(fd, ex.fid)
    start_name = roles["start"]
    okstart = False
    det = ""
    # successor of the header's switch on Some
    hb = fd.term(li[H_char]["driver_bb"])
    sw_bb = hb["target"]
    swt = fd.term(sw_bb)
    some_bb = None
    if swt["k"] == "switch":
        for v, tb in swt["targets"]:
            if v == 1:
                some_bb = tb
        if some_bb is None and len(swt["targets"]) == 1:
            some_bb = swt["otherwise"]
    if some_bb is None:
        ctx.missing("C07.a", "Some edge of the char loop")
    else:
        stop = set(mids) | {H_tr}
        ex = S.Engine(fd, F, Model(), cut_edges=back, stop_blocks=stop, inline=GETTERS, desugar=KDESUGAR)
        sp_ = ex.run(some_bb, named_init(fd, ex.fid))
        good = True
        n = 0
        for p in sp_:
            if p.end[0] != "stop":
                continue
            n += 1
            l = name2local[start_name]
            v = p.locals.get((ex.fid, l))
            var = ex.known_variant(p, v) if v is not None else None
            if var != "Some":
                good = False
                det = "match start may still be None when candidates are examined (value %s)" % (S.vstr(v) if v else None)
            w = [e for e in p.events if e[0] == "write" and e[2][0] == "local" and e[2][2] == l and not e[3] and e[4] != ("sym", start_name)]
            for e in w:
                val = e[4]
                pv = val[3][0] if val[0] == "adt" and val[2] == "Some" else val
                was_none = p.assume.get(("variant", ("sym", start_name))) == "None"
                cur_index = p.locals.get((ex.fid, name2local[INDEX]))
                if pv not in (("sym", INDEX), cur_index) or not was_none:
                    good = False
                    det = "match start := %s (must be the index of the first character, written only while it is None)" % S.vstr(val)
        if start_hoisted:
            good, n, det = True, max(n, 1), "start is the index of the first element of a copy of the cursor, taken once before the loop and never written again"
        ob("C07.a", "match-start-is-first-index", good and n > 0, det or "start is Some(first index) before candidates are examined (%d paths)" % n, fd.loc())

    # ------------------------------------------------------------------ scratch buffers and loop structure
    ex = S.Engine(fd, F, Model(), cut_edges=back, stop_blocks={H_char}, inline=GETTERS, desugar=KDESUGAR)
    entry = ex.run(0, init_params(fd, ex.fid))
    for p in entry:
        if p.end[0] != "stop":
            continue
        cl = [e for e in p.events if e[0] == "call" and re.search(r"Vec::<.*>::clear$", e[2])]
        pu = [e for e in p.events if e[0] == "call" and re.search(r"Vec::<.*>::push$", e[2])]
        cur_cleared = any("self.current_states" in S.vstr(e[3][0]) for e in cl)
        nxt_cleared = any("self.next_states" in S.vstr(e[3][0]) for e in cl)
        seeded = [e for e in pu if "self.current_states" in S.vstr(e[3][0])]
        ok_seed = len(seeded) == 1 and ex.deref_val(p, seeded[0][3][1]) == ("int", 0) and p.events.index(seeded[0]) > min(p.events.index(e) for e in cl if "self.current_states" in S.vstr(e[3][0])) if cur_cleared else False
        ob("C12.d", "scratch-buffers-cleared-on-entry", cur_cleared and nxt_cleared, "clear() on entry: current=%s next=%s" % (cur_cleared, nxt_cleared), fd.loc())
        ob("C12.d", "simulation-seeded-with-start-state-0", bool(ok_seed), "pushes on entry: %s" % [S.vstr(e[3][1]) for e in seeded], fd.loc())
        inc_init = {}
        for nm in inc_names + [roles["start"]]:
            v = LOCAL_VAL(p, ex.fid, name2local[nm])
            inc_init[nm] = S.vstr(v) if v else None
        ok_init = all(LOCAL_VAL(p, ex.fid, name2local[r]) == none() for r in (roles["tid"], roles["end"])) and (start_hoisted or LOCAL_VAL(p, ex.fid, name2local[roles["start"]]) == none())
        ob("C05.d", "incumbents-start-absent", ok_init, "initial incumbents: %s" % inc_init, fd.loc())
    def contradicts_invariant(p):
        """the path presumes a terminal id without an end or a start: excluded by the invariant C05.d checks on every write"""
        var = lambda role: p.assume.get(("variant", ("sym", roles[role])))
        return var("tid") == "Some" and (var("start") == "None" or var("end") == "None")
    # after the state loop: current := next, next emptied; stop when nothing is active
    # (region: exit of the middle loop -> back edge of the char loop / exit)
    for hm in mids:
        outs = set()
        for b in li[hm]["body"]:
            for s in fd.succ(b):
                if s not in li[hm]["body"]:
                    outs.add(s)
        for o in sorted(outs):
            if fd.is_unreachable_block(o):
                continue
            ex = S.Engine(fd, F, Model(), cut_edges=back, inline=GETTERS, desugar=KDESUGAR)
            ps = ex.run(o, named_init(fd, ex.fid))
            for p in ps:
                cl = [e for e in p.events if e[0] == "call" and re.search(r"Vec::<.*>::clear$", e[2])]
                sw = [e for e in p.events if e[0] == "call" and re.search(r"mem::swap", e[2])]
                # `current.clear(); swap(current, next)` or `swap(current, next); next.clear()`: either way the new active set is what
                # was collected and the collecting set starts the next round empty
                swapped_ = len(sw) == 1 and {S.vstr(a).lstrip("&") for a in sw[0][3]} == {"self.current_states", "self.next_states"}
                ok = len(cl) == 1 and swapped_ and (("self.current_states" in S.vstr(cl[0][3][0]) and p.events.index(cl[0]) < p.events.index(sw[0]))
                                                    or ("self.next_states" in S.vstr(cl[0][3][0]) and p.events.index(cl[0]) > p.events.index(sw[0])))
                ob("C12.d", "active-set-advances-to-next-and-next-is-emptied", ok,
                   "after the state loop: clear(%s), swap(%s)" % ([S.vstr(e[3][0]) for e in cl], [[S.vstr(a) for a in e[3]] for e in sw]), fd.loc())
                emp = [(c, oo) for c, oo in p.conds if c[0] == "app" and re.search(r"Vec::<.*>::is_empty$", c[1]) and "current_states" in S.vstr(c)]
                if emp:
                    stops = p.end[0] in ("return",) or (p.end[0] == "cut" and False)
                    if p.end[0] == "diverge" and contradicts_invariant(p):
                        continue      # `match (start, end) { (Some(s), Some(e)) => .., _ => unreachable!() }` under `tid is Some`: ruled out by C05.d
                    if emp[-1][1] is True:
                        ob("C07.c", "simulation-stops-when-no-state-is-active", p.end[0] == "return", "no active state -> %s" % p.end[0], fd.loc())
                    else:
                        ob("C07.c", "simulation-continues-while-states-are-active", p.end[0] == "cut", "active states -> %s" % p.end[0], fd.loc())

    # ------------------------------------------------------------------ satisfies_lookahead polarity table (C04.b)
    sl = F.fn(r"CompiledLookahead::satisfies_lookahead$")
    ctx.analysed_fn(sl)
    ex = S.Engine(sl, F, Model(), cut_edges=sl.back_edges(), inline=GETTERS, desugar=r"option::Option::<")
    ps = ex.run(0, init_params(sl, ex.fid))
    rows = {}
    for p in ret_paths(ps):
        ff = p.calls(r"CompiledDfa::find_from$")
        if len(ff) != 1:
            ob("C04.b", "lookahead-runs-its-automaton-once", False, "%d find_from calls" % len(ff), sl.loc())
            continue
        f = ff[0]
        v = variant_of(ex, p, f[4])
        r = p.end[1]
        recv = S.vstr(f[3][0])
        ob("C04.b", "lookahead-uses-own-automaton", "self.nfa" in recv, "receiver %s" % recv, sl.loc(f[1]))
        ok_args = S.vstr(ex.deref_val(p, f[3][1])) in ("input", "*input") and S.vstr(f[3][2]) == "char_indices"
        ob("C04.c", "lookahead-automaton-gets-the-given-haystack-and-cursor", ok_args, "find_from(%s, %s)" % (S.vstr(f[3][1]), S.vstr(f[3][2])), sl.loc(f[1]))
        if r[0] != "tuple":
            ob("C04.b", "polarity-table", False, "returns %s" % S.vstr(r), sl.loc())
            continue
        flag, ln = r[1][0], r[1][1]
        isp = ("field", ("sym", "self"), "is_positive")

        def simp_bool(t):
            # the flag under what the path knows about the search result: `found.is_some() == self.is_positive` is
            # is_positive on the Some path and !is_positive on the None path
            if t[0] == "isvar":
                kv = ex.known_variant(p, t[1])
                if kv is not None:
                    return ("bool", kv == t[2])
                return t
            if t[0] == "not":
                x = simp_bool(t[1])
                if x[0] == "bool":
                    return ("bool", not x[1])
                if x[0] == "not":
                    return x[1]
                return ("not", x)
            if t[0] == "binop" and t[1] in ("Eq", "Ne"):
                a, b = simp_bool(t[2]), simp_bool(t[3])
                if b[0] == "bool" and a[0] != "bool":
                    a, b = b, a
                if a[0] == "bool":
                    if b[0] == "bool":
                        return ("bool", (a[1] == b[1]) == (t[1] == "Eq"))
                    pos = a[1] == (t[1] == "Eq")
                    return b if pos else simp_bool(("not", b))
                return (t[0], t[1], a, b)
            return t
        flag = simp_bool(flag)
        if v == "Some":
            rows["match"] = "(%s, %s)" % (S.vstr(flag), S.vstr(ln))
            ob("C04.b", "polarity:lookahead-text-matches", flag == isp, "satisfied := %s (must be is_positive)" % S.vstr(flag), sl.loc())
            m = ("field", ("downcast", f[4], "Some"), "0")
            want_len = ("app", "saturating_sub", (("field", ("field", m, "span"), "end"), ("field", ("field", m, "span"), "start")))
            ok_len = ln == want_len or S.linear(ln) == S.linear(("sub", ("field", ("field", m, "span"), "end"), ("field", ("field", m, "span"), "start")))
            if not ok_len and ln == ("int", 0):
                # saturating subtraction written out: 0 on the path on which end <= start was established
                from .common import ordering_of
                se = ordering_of(p.conds, lambda x: x == ("field", ("field", m, "span"), "start"), lambda x: x == ("field", ("field", m, "span"), "end"))
                ok_len = se <= {"E", "G"}
            ob("C05.b", "lookahead-length-is-length-of-its-match", ok_len, "length := %s" % S.vstr(ln), sl.loc())
        elif v == "None":
            rows["no match"] = "(%s, %s)" % (S.vstr(flag), S.vstr(ln))
            ob("C04.b", "polarity:lookahead-text-does-not-match", flag == ("not", isp), "satisfied := %s (must be !is_positive)" % S.vstr(flag), sl.loc())
            ob("C05.b", "lookahead-length-zero-without-match", ln == ("int", 0), "length := %s" % S.vstr(ln), sl.loc())
    ob("C04.b", "polarity-table-complete", set(rows) == {"match", "no match"}, "rows: %s" % rows, sl.loc())
    sample("C04.b", {"satisfies_lookahead": rows})
    # CompiledLookahead.is_positive is a copy of Lookahead.is_positive; the automaton is built from the lookahead pattern
    tl = F.fn(r"CompiledLookahead::try_from_lookahead$")
    ctx.analysed_fn(tl)
    ex = S.Engine(tl, F, Model(), cut_edges=tl.back_edges(), inline=GETTERS)
    ps = ex.run(0, init_params(tl, ex.fid))
    n_ok = 0
    for p in ret_paths(ps):
        r = p.end[1]
        if r[0] == "adt" and r[2] == "Ok":
            cl = r[3][0]
            if cl[0] == "adt" and cl[1].endswith("CompiledLookahead"):
                n_ok += 1
                ob("C04.b", "compiled-polarity-is-configured-polarity", S.vstr(cl[3][1]) in ("lookahead.is_positive", "*lookahead.is_positive"), "is_positive := %s" % S.vstr(cl[3][1]), tl.loc())
                pr = p.calls(r"parse_regex_syntax$")
                ok = len(pr) == 1 and "lookahead.pattern" in S.vstr(pr[0][3][0])
                ob("C04.f", "lookahead-automaton-built-from-lookahead-pattern", ok, "parse_regex_syntax(%s)" % (S.vstr(pr[0][3][0]) if pr else None), tl.loc())
    ob("C04.b", "try_from_lookahead-ok-path", n_ok >= 1, "%d Ok paths" % n_ok, tl.loc())


def mentions_only_incumbent(atom, inc_names):
    syms = [x for x in S.subterms(atom) if x[0] == "sym"]
    return bool(syms) and all(x[1] in inc_names for x in syms)


def check_old_extent(ob, fd, atoms, ext_locals, roles, la, name2local):
    """The incumbent side of the extent comparison must be the stored extent of the incumbent
    (a single incumbent-only term), never the incumbent's end combined with anything else."""
    names = [S.vstr(a) for a in atoms]
    ok = len(atoms) == 1
    if ok and ext_locals:
        a = atoms[0]
        ok = a[0] == "sym" and name2local.get(a[1]) in ext_locals
    elif ok:
        # no stored extent: comparing with the incumbent's end is only exact without lookaheads
        ok = False
    ob("C05.b", "incumbent-side-is-its-stored-extent", ok,
       "the challenger's extent is compared with %s (must be the incumbent's own stored extent)" % names, fd.loc())



def attach_calls(ex, p):
    """The places of a path where a compiled lookahead is put into the table of an automaton: add_lookahead(T, L), or the same
    insertion written in place (`<automaton>.lookaheads.insert(T, L)`); shaped like the add_lookahead call (receiver, T, L)."""
    import re
    out = list(p.calls(r"CompiledDfa::add_lookahead$"))
    for e in p.events:
        if e[0] == "call" and re.search(r"HashMap::<.*>::insert$", e[2]) and len(e[3]) == 3:
            r0 = e[3][0]
            steps = r0[1][2] if r0[0] == "ref" and r0[1][0] == "loc" else ()
            if steps and steps[-1][0] == "f" and steps[-1][1] == "lookaheads":
                out.append(e)
    return out


def lookahead_wiring(ctx, rules=("C04.f",)):
    """C04.f: the condition checked for terminal T in a mode is the one configured on the pattern with token type T:
    every add_lookahead(T, L) in CompiledDfa::try_from_patterns has T = terminal_id(item) and L = the Ok payload of a
    try_from_lookahead(lookahead(item), ..) call made for the SAME item on the same path (not a value fetched from a
    table, a clone of another pattern's lookahead, or a value compiled from something else); add_lookahead stores
    exactly (T, L) in the table find_from reads."""
    import re
    from .common import BaseModel, run_fn, ret_paths, variant_of
    F = ctx.facts
    def ob(name, ok, detail, loc):
        for r in rules:
            ctx.ob(r, name, ok, detail, loc)
    cp = F.fn(r"CompiledDfa::try_from_patterns$")
    ctx.analysed_fn(cp)
    ex, paths = run_fn(cp, F, BaseModel(), max_paths=5000)
    n = 0

    def own_pair(p, t, l):
        """is (t, l) = (terminal id of a pattern, the lookahead compiled from that same pattern on this path)?"""
        las = p.calls(r"CompiledLookahead::try_from_lookahead$")
        ts = S.fstr(t)
        items = set(re.findall(r"item@bb\d+", ts))
        src = [c for c in las if l == ("field", ("downcast", c[4], "Ok"), "0")]
        ok_t = "Pattern::terminal_id" in ts and len(items) == 1
        ok_l = False
        why = "the attached lookahead %s is not the result of compiling this pattern's lookahead on this path" % S.fstr(l)[:80]
        if src:
            a0 = S.fstr(src[-1][3][0])
            ok_l = "Pattern::lookahead" in a0 and set(re.findall(r"item@bb\d+", a0)) == items
            why = "compiled from %s" % a0[:80]
        return ok_t and ok_l, ts, why
    from .common import loop_sources
    staged_checked = False
    for p in paths:
        for al in attach_calls(ex, p):
            n += 1
            t, l = al[3][1], al[3][2]
            t = ex.deref_val(p, t) if t[0] == "ref" else t
            l = ex.deref_val(p, l) if l[0] == "ref" else l
            mt, ml = re.match(r"^\(?(item@bb\d+)\)?\.0$", S.fstr(t)), re.match(r"^\(?(item@bb\d+)\)?\.1$", S.fstr(l))
            if mt and ml and mt.group(1) == ml.group(1):
                # staged form: the (terminal, compiled lookahead) pairs are collected first and attached in a second loop.
                # The second loop must walk the whole list of pairs and attach each pair as it is; the obligation about
                # the pair moves to the place where the pairs are put into the list.
                bbk = int(mt.group(1)[len("item@bb"):])
                srcs = [s_ for b_, s_ in loop_sources(ex, paths) if b_ == bbk or True]
                pushes = [(q, e) for q in paths for e in q.events if e[0] == "call" and re.search(r"Vec::<\(.*TerminalID, .*CompiledLookahead\)>::push$", e[2])]
                lst = set()
                for q, e in pushes:
                    r0 = e[3][0]
                    if r0[0] == "ref" and r0[1][1][0] == "local":
                        lst.add(cp.names().get(r0[1][1][2], "_%d" % r0[1][1][2]))
                # the loop that yields this item walks the list of pairs itself (into_iter / iter / drain(..) of that local)
                walks = []
                nxt = cp.term(bbk)
                if nxt["k"] == "call" and nxt["args"]:
                    pv = M.Prov(cp)
                    e_ = pv.operand(nxt["args"][0])
                    calls_ = M.expr_calls(e_)
                    leafs = M.expr_leaf_names(e_)
                    plain = all(re.search(r"IntoIterator>::into_iter$|<impl \[.*\]>::iter$|Vec::<.*>::(iter|new|with_capacity)$|Deref>::deref$", c_[1]) for c_ in calls_)
                    if plain and calls_:
                        walks = sorted(n_ for n_ in leafs if n_ in lst)
                muts = [M.short_name(M.call_name(t_)) for b_, t_ in cp.calls(r"Vec::<\(.*TerminalID, .*CompiledLookahead\)>::(sort\w*|dedup\w*|retain|remove|swap_remove|truncate|pop|drain|clear|reverse|insert)$")]
                ok_stage = bool(pushes) and len(lst) == 1 and bool(walks) and not muts
                ob("mode:staged-lookaheads-all-attached-unchanged", ok_stage, "pairs collected in %s, second loop over %s, other mutations %s" % (sorted(lst), walks, muts), cp.loc())
                if not staged_checked:
                    staged_checked = True
                    for q, e in pushes:
                        v = e[3][1]
                        v = ex.deref_val(q, v) if v[0] == "ref" else v
                        if v[0] != "tuple" or len(v[1]) != 2:
                            ob("mode:lookahead-attached-to-its-own-pattern", False, "collected pair %s is not a (terminal, lookahead) tuple" % S.fstr(v)[:80], cp.loc())
                            continue
                        okp, ts, why = own_pair(q, v[1][0], v[1][1])
                        ob("mode:lookahead-attached-to-its-own-pattern", okp, "collected pair (%s, ..): %s" % (ts[:60], why), cp.loc())
                continue
            okp, ts, why = own_pair(p, t, l)
            ob("mode:lookahead-attached-to-its-own-pattern", okp, "add_lookahead(%s, ..): %s" % (ts[:60], why), cp.loc())
    # a pattern is passed over only because it has no lookahead (whatever drops it: `if let`, filter_map, continue)
    for p in paths:
        if p.end is None or p.end[0] != "cut" or attach_calls(ex, p) or p.calls(r"CompiledLookahead::try_from_lookahead$"):
            continue
        if any(e[0] == "call" and re.search(r"iter::Iterator>::next$", e[2]) and "pattern" not in S.fstr(e[3][0]).lower() for e in p.events if e[0] == "call" and re.search(r"iter::Iterator>::next$", e[2])) and not any("Pattern::" in S.fstr(c) for c, o in p.conds):
            continue      # an iteration of another loop (the second loop of the staged form)
        ic = [(c, o) for c, o in p.conds if "item@" in S.fstr(c) and not (c[0] == "isvar" and "Iterator>::next" in S.fstr(c))]
        if not ic:
            continue
        from .common import cond_variant
        only_none = all(cond_variant(c, o) is not None and cond_variant(c, o)[1] == "None" and re.search(r"Pattern::lookahead\(&?\*?item@bb\d+\)$", S.fstr(cond_variant(c, o)[0])) is not None for c, o in ic)
        ob("mode:pattern-skipped-only-without-lookahead", only_none, "a pattern is passed over under %s" % [(S.fstr(c)[:60], o) for c, o in ic], cp.loc())
    # a lookahead that does not compile fails the build: it is not passed over (`if let Ok(..)`, `.ok()`, `flat_map` over the
    # Result) — the pattern would then match without its condition
    n_err = 0
    for p in paths:
        for c in p.calls(r"CompiledLookahead::try_from_lookahead$"):
            if variant_of(ex, p, c[4]) == "Err":
                n_err += 1
                ok = p.end is not None and p.end[0] == "return" and variant_of(ex, p, p.end[1]) == "Err"
                ob("mode:lookahead-that-does-not-compile-fails-the-build", ok, "after a failed try_from_lookahead the path ends with %s" % (p.end[0] if p.end else None), cp.loc(c[1]))
    for r in rules:
        ctx.floor(r, "failing-lookahead paths of CompiledDfa::try_from_patterns", n_err, 1)
    for r in rules:
        ctx.floor(r, "add_lookahead calls on paths of CompiledDfa::try_from_patterns", n, 1)
    al = F.fn(r"CompiledDfa::add_lookahead$")
    ctx.analysed_fn(al)
    ex2, ps = run_fn(al, F, BaseModel())
    m = 0
    for p in ret_paths(ps):
        ins = p.calls(r"HashMap.*::insert$")
        m += 1
        ok = len(ins) == 1 and S.fstr(ins[0][3][1]) == "terminal_id" and S.fstr(ins[0][3][2]) == "lookahead" and "lookaheads" in S.fstr(ex2.deref_val(p, ins[0][3][0]) if ins[0][3][0][0] == "ref" else ins[0][3][0])
        if not ins:
            # replace-in-place form: `match map.get_mut(&t) { Some(e) => *e = l, None => { map.insert(t, l); } }` — on the Some path the
            # entry found under this terminal is overwritten with the lookahead
            gm = [e for e in p.calls(r"HashMap.*::get_mut(::<.*>)?$") if len(e[3]) == 2 and "lookaheads" in S.fstr(ex2.deref_val(p, e[3][0]) if e[3][0][0] == "ref" else e[3][0]) and S.fstr(ex2.deref_val(p, e[3][1]) if e[3][1][0] == "ref" else e[3][1]).lstrip("&*") == "terminal_id"]
            if len(gm) == 1 and variant_of(ex2, p, gm[0][4]) == "Some":
                ws = [e for e in p.events if e[0] == "write" and e[2][0] != "local" and S.mentions(e[2], lambda x: x == gm[0][4]) and e[4] == ("sym", "lookahead")]
                ok = len(ws) == 1
        ob("add_lookahead-stores-(terminal, lookahead)", ok, "insert(%s)" % (", ".join(S.fstr(a)[:40] for a in ins[0][3]) if ins else None), al.loc())
    for r in rules:
        ctx.floor(r, "paths of add_lookahead", m, 1)



def token_type_uniqueness(ctx, rule, key, consequence):
    """Mechanisms keyed by the *token type* of a pattern (the priority list searched by priority_of, the lookahead table of a
    mode) stand for "the pattern" only if no two patterns of a mode carry the same token type.  `add_patterns` numbers the
    patterns itself, but ScannerMode::new / Pattern::new accept any numbers.  The obligation holds if the build path enforces
    uniqueness (a set of the token types seen so far whose insert/contains result leads to an error) — or if the mechanism is
    keyed per pattern instead; on the pinned tree neither is the case (known finding)."""
    import re
    F = ctx.facts
    BUILD = r"scanner_mode::ScannerMode::new$|scanner_builder::ScannerBuilder::(add_scanner_mode|add_scanner_modes|build|build_uncached)$|CompiledScannerMode::try_from_scanner_mode$|CompiledDfa::try_from_patterns$|MultiPatternNfa::try_from_patterns$|ScannerImpl as std::convert::TryFrom"
    enforced = []
    for fn in F.fns.values():
        if not re.search(BUILD, fn.name):
            continue
        for f_ in [fn] + list(F.closures_of(fn)):
            pv = M.Prov(f_)
            for bb, t in f_.calls(r"(HashSet|BTreeSet|HashMap|BTreeMap)::<.*>::(insert|contains|contains_key|entry)(::<.*>)?$|<impl \[.*\]>::(contains|binary_search)$"):
                args = t.get("args") or []
                txt = " ".join(M.expr_str(pv.operand(a))[:200] for a in args[1:2])
                names = " ".join(x[1] for a in args[1:2] for x in M.walk_expr(pv.operand(a)) if x[0] == "call")
                if re.search(r"terminal_id|token_type", txt + " " + names):
                    # ... and the answer decides between Ok and an error / panic
                    enforced.append("%s: %s" % (M.short_name(f_.name), M.short_name(M.call_name(t))))
    # per-pattern keying: the accepting label / priority would be the pattern's position — then priority_of would not search by type
    po = F.fn(r"CompiledDfa::priority_of$")
    by_type = any(re.search(r"TerminalID", f_["ty"]) for f_ in po.locals[1:po.argc + 1])
    ok = bool(enforced) or not by_type
    ctx.ob(rule, key, ok,
           ("token types are checked for uniqueness on the build path (%s)" % enforced[:2]) if enforced else
           ("keyed by the token type while nothing on the build path (ScannerMode::new .. MultiPatternNfa::try_from_patterns) keeps two patterns of a mode from carrying the same token type: %s" % consequence), po.loc())
