"""C08 — character classes are the set algebra of their parts (match_function.rs).

Every predicate is a closure.  A closure value (its MIR body + the symbolic values it captured in
its parent) is evaluated over ALL valuations of its atoms (A9): the atoms are the tests the body
performs on the character — calls of captured predicates, comparisons with captured chars,
std/seshat character predicates — and the resulting truth table is compared with the boolean
combination the AST node denotes.  Because atoms stand for arbitrary sets, agreement on all
valuations means agreement for every character."""
import itertools
import re

from . import mirlib as M
from . import symex as S
from .common import argval, variant_of, BaseModel, run_fn, ret_paths, variant_of

INLINE = r"match_function::MatchFn::(new|inner)$|match_function::MatchFunction::(new|call)$"

UNICODE_NAMED = {
    "Alphabetic": "alpha", "ASCII_Hex_Digit": "ahex", "Bidi_Control": "bidi_c", "Case_Ignorable": "ci", "Cased": "cased",
    "Composition_Exclusion": "ce", "Dash": "dash", "Default_Ignorable_Code_Point": "di", "Deprecated": "dep", "Diacritic": "dia",
    "Emoji_Component": "ecomp", "Emoji_Modifier_Base": "ebase", "Emoji_Modifier": "emod", "Emoji_Presentation": "epres", "Emoji": "emoji",
    "Extended_Pictographic": "ext_pict", "Extender": "ext", "Full_Composition_Exclusion": "comp_ex", "Grapheme_Extend": "gr_ext",
    "Hex_Digit": "hex", "Hyphen": "hyphen", "ID_Continue": "idc", "ID_Start": "ids", "Ideographic": "ideo", "IDS_Binary_Operator": "idsb",
    "IDS_Trinary_Operator": "idst", "Join_Control": "join_c", "Logical_Order_Exception": "loe", "Lowercase": "lower", "Math": "math",
    "Noncharacter_Code_Point": "nchar", "Other_Alphabetic": "oalpha", "Other_Default_Ignorable_Code_Point": "odi", "Other_Grapheme_Extend": "ogr_ext",
    "Other_ID_Continue": "oidc", "Other_ID_Start": "oids", "Other_Lowercase": "olower", "Other_Math": "omath", "Other_Uppercase": "oupper",
    "Pattern_Syntax": "pat_syn", "Pattern_White_Space": "pat_ws", "Prepended_Concatenation_Mark": "pcm", "Quotation_Mark": "qmark",
    "Radical": "radical", "Regional_Indicator": "ri", "Sentence_Terminal": "sterm", "Soft_Dotted": "sd", "Terminal_Punctuation": "term",
    "Unified_Ideograph": "uideo", "Uppercase": "upper", "Variation_Selector": "vs", "White_Space": "wspace", "XID_Continue": "xidc", "XID_Start": "xids",
}
UNICODE_ONE_LETTER = {"L": "alpha", "N": "is_numeric", "Z": "is_whitespace", "P": "term", "C": "is_control"}
ASCII_KIND = {  # the predicate each POSIX class is built from (as documented by the crate: unicode-aware variants)
    "Alnum": "is_alphanumeric", "Alpha": "is_alphabetic", "Ascii": "is_ascii", "Blank": "is_ascii_whitespace", "Cntrl": "is_ascii_control",
    "Digit": "is_numeric", "Graph": "is_ascii_graphic", "Lower": "is_lowercase", "Print": "is_ascii_graphic", "Punct": "is_ascii_punctuation",
    "Space": "is_whitespace", "Upper": "is_uppercase", "Xdigit": "is_ascii_hexdigit", "Word": "WORD",
}


# a conversion into a class predicate, spelled x.try_into() or MatchFn::try_from(x)
CONV_RX = r"TryInto<internal::match_function::MatchFn>>::try_into$|<internal::match_function::MatchFn as std::convert::TryFrom<.*>>::try_from$"


def eval_closure(F, clo, nargs=1):
    """Enumerate the paths of a closure body.  Returns list of (conds, result term).
    A function item used as predicate (`MatchFn::new(char::is_numeric)`) is one atom."""
    if clo[0] == "fn" and clo[1] not in F.fns:
        return [([], ("app", clo[2] or clo[1], (("sym", "ch"),)))]      # a std / external predicate: one atom
    cfn = F.fns[clo[1]]
    if clo[0] == "fn":
        # a function of the crate used as predicate: its body is the predicate
        ex = S.Engine(cfn, F, BaseModel(), cut_edges=cfn.back_edges(), inline=lambda name: re.search(INLINE, name) is not None or "{closure" in name, max_depth=8)
        p = S.Path()
        for i in range(nargs):
            p.locals[(ex.fid, 1 + i)] = ("sym", ["ch", "arg2", "arg3"][i])
        out = []
        for q in ex.run(0, p):
            out.append((q.conds, q.end[1]) if q.end[0] == "return" else (q.conds, ("bad-end",) + tuple(q.end[:1])))
        return out
    ex = S.Engine(cfn, F, BaseModel(), cut_edges=cfn.back_edges(), inline=lambda name: re.search(INLINE, name) is not None or "{closure" in name, max_depth=8)
    p = S.Path()
    p.locals[(ex.fid, 1)] = ("ref", ("loc", clo, ()), False)
    for i in range(nargs):
        p.locals[(ex.fid, 2 + i)] = ("sym", ["ch", "arg2", "arg3"][i])
    out = []
    for q in ex.run(0, p):
        if q.end[0] == "return":
            out.append((q.conds, q.end[1]))
        else:
            out.append((q.conds, ("bad-end",) + tuple(q.end[:1])))
    return out


def atom_label(t, labeller):
    """Human/semantic label of a boolean atom."""
    if t[0] == "not":
        return atom_label(t[1], labeller)
    if t[0] == "binop":
        a, b, op = t[2], t[3], t[1]
        # canonical orientation: a >= b is b <= a
        if op in ("Ge", "Gt"):
            a, b, op = b, a, {"Ge": "Le", "Gt": "Lt"}[op]
        sa, sb = val_label(a, labeller), val_label(b, labeller)
        if op == "Eq" and sa > sb:
            sa, sb = sb, sa
        return "%s %s %s" % (sa, op, sb)
    if t[0] == "app":
        nm = M.short_name(t[1])
        if re.search(r"ops::Fn<.*>>::call$", t[1]) or nm.endswith("Fn::call") or nm == "call":
            callee = t[2][0]
            n_ = 0
            while callee[0] in ("ref", "boxptr") and n_ < 6:
                callee = (callee[3] if len(callee) > 3 else callee[1][1]) if callee[0] == "ref" else callee[1]
                n_ += 1
            if callee[0] == "fn":
                m = re.search(r"([A-Za-z_0-9]+)$", callee[2] or callee[1])
                return "%s(ch)" % (m.group(1) if m else "fn")
            return "P[%s]" % val_label(t[2][0], labeller)
        m = re.search(r"([A-Za-z_0-9]+)$", t[1])
        return "%s(%s)" % (m.group(1) if m else nm, ",".join(val_label(x, labeller) for x in t[2]))
    return labeller(t) or S.vstr(t)


def val_label(v, labeller):
    l = labeller(v)
    if l is not None:
        return l
    if v == ("sym", "ch"):
        return "ch"
    if v[0] == "const":
        return str(v[1])
    if v[0] == "ref":
        if len(v) > 3:
            return val_label(v[3], labeller)
        loc = v[1]
        if not loc[2]:
            return val_label(loc[1], labeller)
    if v[0] == "deref":
        return val_label(v[1], labeller)
    if v[0] == "app" and len(v[2]) == 1:
        m = re.search(r"([A-Za-z_0-9]+)$", v[1])
        return "%s(%s)" % (m.group(1) if m else v[1], val_label(v[2][0], labeller))
    return S.vstr(v)


def is_boolish(t):
    if t[0] in ("bool", "not"):
        return True
    if t[0] == "binop" and t[1] in ("Eq", "Ne", "Lt", "Le", "Gt", "Ge"):
        return True
    if t[0] == "app":
        return True
    return False


def truth_table(paths, labeller):
    """paths -> (sorted atom labels, {valuation tuple: bool}) or (None, reason)."""
    atoms = []

    def expr(t):
        """Boolean expression tree over atom labels: ('c', b) | ('a', label) | ('n', e) | ('x', e1, e2) [xnor]"""
        if t[0] == "bool":
            return ("c", t[1])
        if t[0] == "not":
            return ("n", expr(t[1]))
        if t[0] == "binop" and t[1] in ("Eq", "Ne") and t[2][0] == "app" and t[3][0] == "app" and is_fn_call(t[2]) and is_fn_call(t[3]):
            e = ("x", expr(t[2]), expr(t[3]))
            return e if t[1] == "Eq" else ("n", e)
        if t[0] == "binop" and t[1] in ("Eq", "Ne") and (is_bool_term(t[2]) or is_bool_term(t[3])):
            # `pred(ch) == flag` / `pred(ch) != flag`: a comparison of two booleans (the other operand is a boolean value:
            # a constant or a captured flag, which becomes an atom of its own)
            e = ("x", expr(t[2]), expr(t[3]))
            return e if t[1] == "Eq" else ("n", e)
        if t[0] == "binop" and t[1] == "Ne":
            return ("n", expr(("binop", "Eq", t[2], t[3])))
        lab = atom_label(t, labeller)
        if lab not in atoms:
            atoms.append(lab)
        return ("a", lab)

    def is_fn_call(t):
        return re.search(r"ops::Fn<.*>>::call$", t[1]) is not None

    def is_bool_term(t):
        return t[0] in ("bool", "not") or (t[0] == "binop" and t[1] in ("Eq", "Ne", "Lt", "Le", "Gt", "Ge")) or (t[0] == "app" and is_pred_call(t))

    def is_pred_call(t):
        # a call of a character predicate on ch: a captured predicate, or a std / seshat `char -> bool` method
        return is_fn_call(t) or (len(t[2]) == 1 and t[2][0] == ("sym", "ch") and re.search(r"(::|^)is_[a-z_]+$|char::methods|unicode::props", str(t[1])) is not None)

    def ev(e, env):
        if e[0] == "c":
            return e[1]
        if e[0] == "a":
            return env[e[1]]
        if e[0] == "n":
            return not ev(e[1], env)
        return ev(e[1], env) == ev(e[2], env)

    rows = []
    exclusive = {}
    for conds, r in paths:
        if r[0] == "bad-end":
            return None, "a path of the predicate does not return (%s)" % (r[1],)
        cs = []
        for c, o in conds:
            if not isinstance(o, bool):
                # `match x.gc() { Gc::Pc | Gc::Mn => .., _ => .. }`: a branch on the variant of a field-less enum value is the
                # conjunction of the atoms `x.gc() == V` it stands for (atoms about one subject exclude each other)
                if c[0] == "discr" and len(c) > 2 and c[2]:
                    nm_ = dict((dv, n) for n, dv in c[2])
                    sl = val_label(c[1], labeller)

                    def lab_of(dv):
                        a_, b_ = sorted(["%s()" % nm_[dv], sl])
                        lab_ = "%s Eq %s" % (a_, b_)
                        if lab_ not in atoms:
                            atoms.append(lab_)
                        exclusive.setdefault(sl, set()).add(lab_)
                        return ("a", lab_)
                    if isinstance(o, int) and o in nm_:
                        cs.append((lab_of(o), True))
                        continue
                    if isinstance(o, tuple) and len(o) == 2 and o[0] == "otherwise" and all(dv in nm_ for dv in o[1]):
                        for dv in o[1]:
                            cs.append((lab_of(dv), False))
                        continue
                return None, "non-boolean branch %s" % S.vstr(c)
            cs.append((expr(c), o))
        rows.append((cs, expr(r)))
    atoms_sorted = sorted(atoms)
    # an `==` test written out on the same subject belongs to the same group of mutually exclusive atoms
    for sl, labs in exclusive.items():
        for a_ in atoms_sorted:
            m_ = re.match(r"^(\w+\(\)) Eq (.*)$", a_)
            if m_ and sl in (m_.group(2), m_.group(1)):
                labs.add(a_)
    table = {}
    for vals in itertools.product([False, True], repeat=len(atoms_sorted)):
        env = dict(zip(atoms_sorted, vals))
        if any(sum(1 for a_ in labs if env.get(a_)) > 1 for labs in exclusive.values()):
            continue        # the value cannot be two variants at once
        res = None
        for cs, rr in rows:
            if all(ev(e, env) == want for e, want in cs):
                v = ev(rr, env)
                if res is not None and res != v:
                    return None, "ambiguous paths"
                res = v
        if res is None:
            return None, "no path for a valuation"
        table[vals] = res
    return atoms_sorted, table


def compare(atoms, table, expected, names):
    """expected: function(env dict by role name) -> bool; names: role -> atom label."""
    missing = [r for r, a in names.items() if a not in atoms]
    if missing:
        return False, "atoms %s do not occur in the predicate (atoms: %s)" % (missing, atoms)
    extra = [a for a in atoms if a not in names.values()]
    if extra:
        return False, "predicate tests unexpected atoms %s" % extra
    for vals, res in table.items():
        env = dict(zip(atoms, vals))
        renv = {r: env[a] for r, a in names.items()}
        if expected(renv) != res:
            return False, "differs for %s: predicate gives %s" % (renv, res)
    return True, "agrees on all %d valuations of %s" % (len(table), atoms)



def list_any_form(F, clo, whole):
    """Is the predicate closure `clo` the disjunction of the predicates in the captured list `whole`
    (`list.iter().any(|f| f(ch))`, or a loop that returns true at the first member accepting `ch` and false after the last)?
    Returns (ok, detail)."""
    from .common import DESUGAR_DEFAULT
    if clo[0] != "closure" or clo[1] not in F.fns:
        return False, "not a closure"
    cfn = F.fns[clo[1]]
    ex = S.Engine(cfn, F, BaseModel(), cut_edges=cfn.back_edges(),
                  inline=lambda name: re.search(INLINE, name) is not None or "{closure" in name, max_depth=8, desugar=DESUGAR_DEFAULT)
    p = S.Path()
    p.locals[(ex.fid, 1)] = ("ref", ("loc", clo, ()), False)
    p.locals[(ex.fid, 2)] = ("sym", "ch")
    qs = ex.run(0, p)
    if ex.truncated or not qs:
        return False, "closure body not enumerable"
    srcs = set()
    kinds = set()
    for q in qs:
        for e in q.events:
            if e[0] in ("iter-item", "iter-exhausted"):
                srcs.add(e[3])
            elif e[0] == "call" and re.search(r"iter::Iterator>::next$", e[2]):
                srcs.add(ex.deref_val(q, e[3][0]) if e[3][0][0] == "ref" else e[3][0])
        tests = [(c, o) for c, o in q.conds if isinstance(o, bool) and c[0] == "app" and re.search(r"ops::Fn<.*>>::call$", c[1]) and "item@" in S.fstr(c)]
        other = [(c, o) for c, o in q.conds if isinstance(o, bool) and (c, o) not in tests and S.mentions(c, lambda x: x == ("sym", "ch"))]
        if other:
            return False, "tests the character outside the members: %s" % S.vstr(other[0][0])[:80]
        for c, o in tests:
            a = c[2][1] if len(c[2]) > 1 else None
            if a is None or not S.mentions(a, lambda x: x == ("sym", "ch")):
                return False, "a member is applied to %s" % S.vstr(a)[:60]
        if q.end[0] == "return":
            r = q.end[1]
            if r == ("bool", True):
                if not (len(tests) == 1 and tests[-1][1] is True):
                    return False, "returns true without a member accepting ch (tests %s)" % [(S.vstr(c)[:40], o) for c, o in tests]
                kinds.add("hit")
            elif r == ("bool", False):
                if tests:
                    return False, "returns false although members were still to be tested"
                kinds.add("none")
            elif tests == [] and r[0] == "app" and re.search(r"ops::Fn<.*>>::call$", r[1]):
                return False, "returns a single member's answer"
            else:
                return False, "returns %s" % S.vstr(r)[:60]
        elif q.end[0] == "cut":
            if not (len(tests) == 1 and tests[-1][1] is False):
                return False, "goes on to the next member without having tested this one"
            kinds.add("next")
        elif q.end[0] != "dead":
            return False, "path ends in %s" % (q.end[0],)
    if kinds != {"hit", "none", "next"}:
        return False, "cases %s (expected: member accepts -> true, member rejects -> next, no member left -> false)" % sorted(kinds)
    def outside(t):
        # subterms of t that are not inside the captured list value itself
        if t == whole:
            return
        yield t
        for k in t[1:] if isinstance(t, tuple) else ():
            if isinstance(k, tuple):
                if k and isinstance(k[0], str):
                    yield from outside(k)
                else:
                    for kk in k:
                        if isinstance(kk, tuple) and kk and isinstance(kk[0], str):
                            yield from outside(kk)
    bad_ad = [x[1] for s_ in srcs for x in outside(s_) if x[0] == "app" and re.search(r"Iterator>::(rev|skip|take|filter|filter_map|flat_map|step_by|skip_while|take_while|chain|zip|cycle|map)\b", str(x[1]))]
    if bad_ad:
        return False, "members filtered/reordered by %s" % [M.short_name(a) for a in bad_ad]
    if not srcs or not all(S.mentions(s_, lambda x: x == whole) for s_ in srcs):
        return False, "iterates over %s, not over the captured list" % [S.fstr(s_)[:60] for s_ in srcs]
    return True, "true iff some member of the captured list accepts ch"


def unwrap_ok(v):
    """Ok(MatchFn(closure)) / Ok(MatchFunction{MatchFn(closure)}) / MatchFn(closure) -> closure value"""
    n = 0
    while v[0] == "adt" and n < 5:
        if v[2] == "Ok" or v[1].endswith("MatchFn") or v[1].endswith("MatchFunction"):
            v = v[3][0]
        else:
            break
        n += 1
    return v


LITERAL_KINDS = {"Verbatim", "Meta", "Superfluous", "Octal", "HexFixed", "HexBrace", "Special"}


def literal_kinds(conds):
    """The LiteralKind variants compatible with a path's branch conditions on `kind`; None when a test's form is not decoded."""
    from .common import cond_variant
    ks = set(LITERAL_KINDS)
    for c, o in conds:
        if "kind" not in S.vstr(c):
            continue
        cv = cond_variant(c, o)
        if cv is not None:
            ks &= {cv[1]}
            continue
        if c[0] == "discr" and isinstance(o, tuple) and o[0] == "otherwise":
            names = dict((dv, n) for n, dv in c[2])
            ks -= {names.get(v) for v in o[1]}
            continue
        if c[0] == "binop" and c[1] in ("Eq", "Ne") and isinstance(o, bool):
            vs = [x for x in (c[2], c[3]) if x[0] == "adt" and x[2] in LITERAL_KINDS]
            if len(vs) == 1:
                eq = o if c[1] == "Eq" else (not o)
                if eq:
                    ks &= {vs[0][2]}
                elif not vs[0][3]:          # a payload-free variant is excluded by !=; one with a payload is not
                    ks -= {vs[0][2]}
                continue
        return None
    return ks


def analyze(ctx, want):
    F = ctx.facts

    def ob(rule, key, ok, detail, loc=""):
        if rule in want:
            ctx.ob(rule, key, ok, detail, loc)

    def sample(rule, obj):
        if rule in want:
            obj = dict(obj)
            obj["rule"] = rule
            ctx.sample(obj)

    ctx.trust("regex-syntax parser/AST; std char predicates (is_numeric, is_whitespace, is_alphanumeric ...) and seshat-unicode property tables denote the documented sets")

    def run(pat, max_paths=4000, **kw):
        fn = F.fn(pat)
        ctx.analysed_fn(fn)
        ex, paths = run_fn(fn, F, BaseModel(), inline=INLINE, max_paths=max_paths, **kw)
        if ex.truncated:
            ctx.missing("C08.b", "path enumeration of %s truncated" % fn.name)
        return fn, ex, paths

    def opaque_fn_label(v):
        """Label captured predicates by the AST field they were converted from."""
        names = [n for n in S.step_names(v) if n in ("lhs", "rhs")]
        if names:
            return names[0]
        return None

    # =============================================================== binary operators
    fn, ex, paths = run(r"MatchFn as std::convert::TryFrom<(\(&regex_syntax::ast::ClassSetBinaryOp, bool\)|internal::match_function::\w+<'_, regex_syntax::ast::ClassSetBinaryOp>)>>::try_from$")
    EXPECT_BIN = {"Intersection": lambda e: e["lhs"] and e["rhs"], "Difference": lambda e: e["lhs"] and not e["rhs"],
                  "SymmetricDifference": lambda e: e["lhs"] != e["rhs"]}
    seen = set()
    for p in ret_paths(paths):
        r = p.end[1]
        if not (r[0] == "adt" and r[2] == "Ok"):
            continue
        kinds = [(c, o) for c, o in p.conds if c[0] == "discr" and "kind" in S.vstr(c)]
        pn_ = fn.names().get(1, "arg1")      # the (node, negated) pair — a tuple or a small carrier struct — is the only parameter
        neg = [(c, o) for c, o in p.conds if S.vstr(c) in ("arg1.1", "negated", pn_ + ".1") or (c[0] == "field" and c[2] == "1" and c[1] in (("sym", "arg1"), ("sym", pn_)))]
        if not kinds:
            # the operator may also be selected inside the predicate (the closure owns the kind and tests it per call): the
            # predicate's paths are split by the kind they are for, and each part is compared with that operator's denotation
            clo = unwrap_ok(r)
            negated = neg[-1][1] if neg else None
            tt_all = eval_closure(F, clo) if clo[0] in ("closure", "fn") else []
            kconds = [c_ for cs_, r_ in tt_all for c_, o_ in cs_ if c_[0] == "discr" and "kind" in S.vstr(c_)]
            if not kconds:
                ob("C08.a", "binary-op:dispatch-on-kind", False, "Ok path without a test of the operator kind", fn.loc())
                continue
            kc = kconds[0]
            for kname, dv in kc[2]:
                sub = []
                for cs_, r_ in tt_all:
                    mine = [(c_, o_) for c_, o_ in cs_ if c_ == kc]
                    if mine:
                        o_ = mine[0][1]
                        if not (o_ == dv or (isinstance(o_, tuple) and o_ and o_[0] == "otherwise" and dv not in o_[1])):
                            continue
                    sub.append(([(c_, o2) for c_, o2 in cs_ if c_ != kc], r_))
                atoms, table = truth_table(sub, opaque_fn_label)
                base = EXPECT_BIN.get(kname)
                if atoms is None or base is None:
                    ob("C08.b", "binary-op:%s:negated=%s" % (kname, negated), False, "truth table not computable: %s" % (table if atoms is None else "operator kind without specification"), fn.loc())
                    continue
                exp = (lambda e, b=base: not b(e)) if negated else base
                ok, det = compare(atoms, table, exp, {"lhs": "P[lhs]", "rhs": "P[rhs]"})
                seen.add((kname, negated))
                ob("C08.b", "binary-op:%s:negated=%s" % (kname, negated), ok, "%s %s (operator selected inside the predicate): %s" % (kname, "negated" if negated else "plain", det), fn.loc())
            continue
        c, o = kinds[-1]
        kname = dict((dv, n) for n, dv in c[2]).get(o)
        negated = neg[-1][1] if neg else None
        clo = unwrap_ok(r)
        if clo[0] not in ("closure", "fn"):      # (a captureless closure may be written as a fn item)
            ob("C08.b", "binary-op:%s:is-a-closure" % kname, False, "returns %s" % S.vstr(r), fn.loc())
            continue
        tt_paths = eval_closure(F, clo)
        atoms, table = truth_table(tt_paths, opaque_fn_label)
        if atoms is None:
            ob("C08.b", "binary-op:%s:negated=%s" % (kname, negated), False, "truth table not computable: %s" % table, fn.loc())
            continue
        base = EXPECT_BIN.get(kname)
        if base is None:
            ob("C08.a", "binary-op:known-kind:%s" % kname, False, "operator kind %s has no specification" % kname, fn.loc())
            continue
        exp = (lambda e, b=base: not b(e)) if negated else base
        ok, det = compare(atoms, table, exp, {"lhs": "P[lhs]", "rhs": "P[rhs]"})
        seen.add((kname, negated))
        ob("C08.b", "binary-op:%s:negated=%s" % (kname, negated), ok, "%s %s: %s" % (kname, "negated" if negated else "plain", det), fn.loc())
        sample("C08.b", {"case": "%s negated=%s" % (kname, negated), "atoms": atoms, "table": {"".join("T" if v else "F" for v in k): t for k, t in table.items()}})
    ob("C08.a", "binary-op:all-kinds-and-polarities", seen == {(k, n) for k in EXPECT_BIN for n in (True, False)}, "cases analysed: %s" % sorted(seen), fn.loc())
    # operands converted from the node's own lhs / rhs
    conv = set()
    for p in paths:
        for c, o in p.conds:
            if c[0] == "isvar" and c[1][0] == "app" and re.search(CONV_RX, c[1][1]):
                conv.add(S.vstr(c[1][2][0]))
    ob("C08.b", "binary-op:operands-are-lhs-and-rhs", any("lhs" in x for x in conv) and any("rhs" in x for x in conv), "converted operands: %s" % sorted(conv), fn.loc())

    # =============================================================== items
    fn, ex, paths = run(r"MatchFn as std::convert::TryFrom<(\(&regex_syntax::ast::ClassSetItem, bool\)|internal::match_function::\w+<'_, regex_syntax::ast::ClassSetItem>)>>::try_from$", max_paths=8000)
    item_cases = {}
    for p in ret_paths(paths):
        r = p.end[1]
        if not (r[0] == "adt" and r[2] == "Ok"):
            continue
        disc = [(c, o) for c, o in p.conds if c[0] == "discr"]
        if not disc:
            continue
        c0, o0 = disc[0]
        variant = dict((dv, n) for n, dv in c0[2]).get(o0)
        pn_ = fn.names().get(1, "arg1")
        outer_neg = [(c, o) for c, o in p.conds if c in (("field", ("sym", "arg1"), "1"), ("field", ("sym", pn_), "1"))]
        oneg = outer_neg[-1][1] if outer_neg else None
        sub = None
        if variant == "Ascii":
            kd = [(c, o) for c, o in disc[1:] if "kind" in S.vstr(c)]
            if kd:
                sub = dict((dv, n) for n, dv in kd[-1][0][2]).get(kd[-1][1])
            ineg = [(c, o) for c, o in p.conds if c[0] == "field" and c[2] == "negated"]
            sub = (sub, ineg[-1][1] if ineg else None)
        item_cases.setdefault((variant, sub, oneg), []).append((p, r))
    if "C08.a" in want:
        ctx.floor("C08.a", "ClassSetItem cases", len(item_cases), 30)

    def word(e):
        return e["is_alphanumeric"] or e["join_c"] or e["gcPc"] or e["gcMn"]

    for (variant, sub, oneg), lst in sorted(item_cases.items(), key=lambda kv: str(kv[0])):
        p, r = lst[0]
        clo = unwrap_ok(r)
        key = "item:%s%s:negated=%s" % (variant, (":%s:inner-negated=%s" % sub) if sub else "", oneg)
        if variant in ("Literal", "Unicode", "Perl", "Bracketed", "Union"):
            # delegation: the inner predicate is the stand-alone conversion of the same node
            deleg = [(c, o) for c, o in p.conds if c[0] == "isvar" and c[1][0] == "app" and re.search(CONV_RX, c[1][1])]
            ok_d = len(deleg) == 1 and deleg[0][1] is True
            callee = deleg[0][0][1][1] if deleg else ""
            target = {"Literal": "Literal", "Unicode": "ClassUnicode", "Perl": "ClassPerl", "Bracketed": "ClassBracketed", "Union": "ClassSetUnion"}[variant]
            ok_t = target in callee and "MatchFn" in callee
            ob("C08.c", key + ":delegates-to-standalone-conversion", ok_d and ok_t, "converted by %s" % M.short_name(callee) if callee else "no delegation", fn.loc())
            inner = ("field", ("downcast", deleg[0][0][1], "Ok"), "0") if deleg else None
            if oneg:
                if clo[0] != "closure":
                    ob("C08.b", key, False, "negated item is not wrapped: %s" % S.vstr(r), fn.loc())
                    continue
                atoms, table = truth_table(eval_closure(F, clo), lambda v: "inner" if inner is not None and S.mentions(v, lambda x: x == inner) else None)
                if atoms is None:
                    ob("C08.b", key, False, "truth table not computable: %s" % table, fn.loc())
                    continue
                ok, det = compare(atoms, table, lambda e: not e["inner"], {"inner": "P[inner]"})
                ob("C08.b", key, ok, "negation wrapper: " + det, fn.loc())
            else:
                ok = S.mentions(r, lambda x: x == inner) and clo[0] != "closure"
                ob("C08.b", key, ok, "plain item returns the delegated predicate unchanged: %s" % S.vstr(r)[:100], fn.loc())
            continue
        if clo[0] not in ("closure", "fn"):
            ob("C08.b", key, False, "returns %s" % S.vstr(r)[:100], fn.loc())
            continue
        tt = eval_closure(F, clo)

        def lab(v):
            s = S.vstr(v)
            if v[0] in ("field", "deref", "ref") or v[0] == "sym":
                if re.search(r"\.start\.c$", s):
                    return "start"
                if re.search(r"\.end\.c$", s):
                    return "end"
            return None
        atoms, table = truth_table(tt, lab)
        if atoms is None:
            ob("C08.b", key, False, "truth table not computable: %s" % table, fn.loc())
            continue
        flip = bool(oneg)
        if variant == "Empty":
            exp = lambda e: False
            names = {}
        elif variant == "Range":
            # atoms: "start Le ch" and "ch Le end"
            names = {"lo": "start Le ch", "hi": "ch Le end"}
            exp = lambda e: e["lo"] and e["hi"]
        elif variant == "Ascii":
            kind, ineg = sub
            pred = ASCII_KIND.get(kind)
            if pred is None:
                ob("C08.a", key + ":known-kind", False, "ASCII class kind %s has no specification" % kind, fn.loc())
                continue
            flip = bool(oneg) != bool(ineg)
            if pred == "WORD":
                names = {"is_alphanumeric": "is_alphanumeric(ch)", "join_c": "join_c(ch)", "gcPc": "Pc() Eq gc(ch)", "gcMn": "Mn() Eq gc(ch)"}
                exp = word
            else:
                names = {"p": "%s(ch)" % pred}
                exp = lambda e: e["p"]
        else:
            ob("C08.a", key + ":known-variant", False, "item variant %s has no specification" % variant, fn.loc())
            continue
        exp2 = (lambda e, f=exp: not f(e)) if flip else exp
        ok, det = compare(atoms, table, exp2, names)
        ob("C08.b" if variant != "Ascii" else "C08.d", key, ok, det, fn.loc())
        if variant == "Range":
            sample("C08.b", {"case": key, "atoms": atoms})

    # =============================================================== Perl classes
    fn, ex, paths = run(r"TryFrom<&regex_syntax::ast::ClassPerl>>::try_from$")
    seen = set()
    for p in ret_paths(paths):
        r = p.end[1]
        kd = [(c, o) for c, o in p.conds if c[0] == "discr"]
        ng = [(c, o) for c, o in p.conds if c[0] == "field" and c[2] == "negated" or S.vstr(c).endswith(".negated")]
        if not kd or not (r[0] == "adt" and r[2] == "Ok"):
            continue
        kind = dict((dv, n) for n, dv in kd[-1][0][2]).get(kd[-1][1])
        neg = ng[-1][1] if ng else None
        clo = unwrap_ok(r)
        if clo[0] not in ("closure", "fn"):
            ob("C08.d", "perl:%s:negated=%s" % (kind, neg), False, "returns %s" % S.vstr(r)[:80], fn.loc())
            continue
        atoms, table = truth_table(eval_closure(F, clo), (lambda v: "NEG" if S.vstr(v).endswith(".negated") else None) if neg is None else (lambda v: None))
        if atoms is None:
            ob("C08.d", "perl:%s:negated=%s" % (kind, neg), False, "truth table not computable: %s" % table, fn.loc())
            continue
        if kind == "Digit":
            names, exp = {"p": "is_numeric(ch)"}, (lambda e: e["p"])
        elif kind == "Space":
            names, exp = {"p": "is_whitespace(ch)"}, (lambda e: e["p"])
        elif kind == "Word":
            names, exp = {"is_alphanumeric": "is_alphanumeric(ch)", "join_c": "join_c(ch)", "gcPc": "Pc() Eq gc(ch)", "gcMn": "Mn() Eq gc(ch)"}, word
        else:
            ob("C08.a", "perl:known-kind:%s" % kind, False, "no specification", fn.loc())
            continue
        exp2 = (lambda e, f=exp: not f(e)) if neg else exp
        if neg is None and "NEG" in atoms:
            # the conversion does not branch on the polarity: the predicate tests the captured flag itself, and must be right
            # for both of its values
            names = dict(names, neg="NEG")
            exp2 = (lambda e, f=exp: f(e) != e["neg"])
            ok, det = compare(atoms, table, exp2, names)
            for n_ in (True, False):
                seen.add((kind, n_))
                ob("C08.d", "perl:%s:negated=%s" % (kind, n_), ok, "\\%s: %s" % ({"Digit": "d", "Space": "s", "Word": "w"}[kind].upper() if n_ else {"Digit": "d", "Space": "s", "Word": "w"}[kind], det), fn.loc())
            continue
        ok, det = compare(atoms, table, exp2, names)
        seen.add((kind, neg))
        ob("C08.d", "perl:%s:negated=%s" % (kind, neg), ok, "\\%s: %s" % ({"Digit": "d", "Space": "s", "Word": "w"}[kind].upper() if neg else {"Digit": "d", "Space": "s", "Word": "w"}[kind], det), fn.loc())
    ob("C08.a", "perl:all-kinds-and-polarities", seen == {(k, n) for k in ("Digit", "Space", "Word") for n in (True, False)}, "cases: %s" % sorted(seen, key=str), fn.loc())

    # =============================================================== Literal
    fn, ex, paths = run(r"TryFrom<&regex_syntax::ast::Literal>>::try_from$")
    got = set()
    for p in ret_paths(paths):
        r = p.end[1]
        if not (r[0] == "adt" and r[2] == "Ok"):
            ob("C08.b", "literal:always-ok", False, "returns %s" % S.vstr(r)[:80], fn.loc())
            continue
        clo = unwrap_ok(r)
        # the path on which the literal is a verbatim '.', however the test is spelled (==, match on the char, match on a pair)
        from .common import char_tests, cond_variant
        is_dot = [(t_, ch_, eq_) for t_, ch_, eq_ in char_tests(p.conds) if ch_ == "."]
        verb = [(c, o) for c, o in p.conds if "kind" in S.vstr(c)]
        verb_yes = False
        for c, o in verb:
            cv = cond_variant(c, o)
            if cv is not None:
                verb_yes = cv[1] == "Verbatim"
            elif isinstance(o, bool):
                verb_yes = o is True
        quirk = bool(is_dot) and is_dot[-1][2] is True and bool(verb) and verb_yes
        # exactly the verbatim kind: the set of LiteralKind variants that reach this path (a test `kind != Meta` or a
        # wildcard arm lets escapes such as \x2E through, which denote the character '.', not "any char")
        kinds = literal_kinds(p.conds)
        if kinds is not None and is_dot and is_dot[-1][2] is True and "Verbatim" in kinds and kinds != {"Verbatim"} and verb:
            ob("C08.b", "literal:dot-quirk-only-for-the-verbatim-kind", False, "a '.' literal of kind %s takes the same branch as a verbatim one" % sorted(kinds - {"Verbatim"}), fn.loc())
            continue
        if quirk:
            ob("C08.b", "literal:dot-quirk-only-for-the-verbatim-kind", kinds is None or kinds == {"Verbatim"}, "kinds on the wildcard path: %s" % (sorted(kinds) if kinds is not None else "test form not decoded"), fn.loc())
        if clo[0] not in ("closure", "fn"):      # (a captureless closure may be written as a fn item)
            ob("C08.b", "literal:is-a-closure", False, "returns %s" % S.vstr(r)[:80], fn.loc())
            continue
        atoms, table = truth_table(eval_closure(F, clo), lambda v: "c" if S.vstr(v).endswith(".c") else None)
        if atoms is None:
            ob("C08.b", "literal", False, "truth table not computable: %s" % table, fn.loc())
            continue
        if quirk:
            ok, det = compare(atoms, table, lambda e: not e["nl"] and not e["cr"], {"nl": "'\\n' Eq ch", "cr": "'\\r' Eq ch"})
            got.add("dot-quirk")
            ob("C08.b", "literal:verbatim-dot-in-bracket-acts-as-dot", ok, "README-documented quirk ([.\\r\\n] = any char): " + det, fn.loc())
        else:
            ok, det = compare(atoms, table, lambda e: e["eq"], {"eq": "c Eq ch"})
            got.add("plain")
            ob("C08.b", "literal:matches-only-itself", ok, det, fn.loc())
    ob("C08.b", "literal:both-cases", got == {"dot-quirk", "plain"}, "cases %s" % sorted(got), fn.loc())

    # =============================================================== Ast level (dot, empty, delegation, rejection)
    fn, ex, paths = run(r"TryFrom<&regex_syntax::ast::Ast>>::try_from$")
    variants = {}
    for p in ret_paths(paths):
        kd = [(c, o) for c, o in p.conds if c[0] == "discr"]
        if not kd:
            continue
        c, o = kd[0]
        nm = dict((dv, n) for n, dv in c[2])
        v = nm.get(o) if not isinstance(o, tuple) else "otherwise:" + ",".join(sorted(n for dv, n in nm.items() if dv not in o[1]))
        variants.setdefault(v, []).append(p)
    for v, ps in sorted(variants.items(), key=lambda kv: str(kv[0])):
        for p in ps:
            r = p.end[1]
            if v == "Dot":
                clo = unwrap_ok(r)
                atoms, table = truth_table(eval_closure(F, clo), lambda x: None) if clo[0] in ("closure", "fn") else (None, "not a closure")
                ok, det = compare(atoms, table, lambda e: not e["nl"] and not e["cr"], {"nl": "'\\n' Eq ch", "cr": "'\\r' Eq ch"}) if atoms is not None else (False, table)
                ob("C08.b", "ast:dot-matches-all-but-newline-and-cr", ok, det, fn.loc())
            elif v in ("Literal", "ClassUnicode", "ClassPerl", "ClassBracketed"):
                deleg = [(c, o) for c, o in p.conds if c[0] == "isvar" and c[1][0] == "app" and re.search(CONV_RX, c[1][1])]
                ok = len(deleg) == 1 and {"Literal": "Literal", "ClassUnicode": "ClassUnicode", "ClassPerl": "ClassPerl", "ClassBracketed": "ClassBracketed"}[v] in deleg[0][0][1][1]
                ob("C08.c", "ast:%s-delegates" % v, ok, "converted by %s" % (M.short_name(deleg[0][0][1][1]) if deleg else None), fn.loc())
            elif v == "Empty":
                pass
            elif str(v).startswith("otherwise"):
                ob("C15.e", "ast:non-class-nodes-rejected", r[0] == "adt" and r[2] == "Err", "other AST nodes (%s) return %s" % (v, S.vstr(r)[:60]), fn.loc())

    # =============================================================== bracketed / class set: negation of the node itself is passed down
    for pat, negsrc in ((r"TryFrom<&regex_syntax::ast::ClassBracketed>>::try_from$", "negated-field"), (r"TryFrom<&regex_syntax::ast::ClassSet>>::try_from$", "false")):
        fn, ex, paths = run(pat)
        n = 0
        for p in paths:
            for c in p.calls(CONV_RX):
                n += 1
                a = c[3][0]
                ok = a[0] == "tuple" and len(a[1]) == 2
                if ok:
                    ngv = a[1][1]
                    if negsrc == "false":
                        ok = ngv == ("bool", False)
                    else:
                        ok = S.vstr(ngv) in ("arg1.negated", "*arg1.negated", "bracketed.negated") or (ngv[0] == "field" and ngv[2] == "negated" and S.mentions(ngv, lambda x: x == ("sym", "arg1") or x == ("sym", "bracketed")))
                ob("C08.b", "%s:negation-flag-passed-down" % ("bracketed" if negsrc != "false" else "class-set"), ok, "converts %s" % S.vstr(a)[:120], fn.loc(c[1]))
        if "C08.b" in want:
            ctx.floor("C08.b", "conversions in " + M.short_name(fn.name), n, 2)

    # =============================================================== union
    # the union of the items: an accumulator that starts as the empty set and, per item (all of them, in order, converted with
    # negated = false), becomes acc ∨ item — written as try_fold with a step closure or as a loop over a mutable accumulator
    # — or as the list of all converted items (collected in order, an item's error returned) with the predicate "some member
    # of the list accepts ch"
    fn, ex, paths = run(r"TryFrom<&regex_syntax::ast::ClassSetUnion>>::try_from$", desugar=r".|collect")
    from .common import loop_sources
    srcs_u = sorted(set(s_ for _, s_ in loop_sources(ex, paths)))
    ad2 = [M.short_name(M.call_name(t)) for bb, t in fn.calls(r"Iterator>::(rev|skip|take|filter|filter_map|flat_map|step_by|skip_while|take_while|chain|zip|cycle)\b")]
    ob("C08.b", "union:folds-over-all-items", bool(srcs_u) and all("items" in s_ for s_ in srcs_u) and not ad2, "iteration over %s; adapters %s" % (srcs_u, ad2), fn.loc())
    n_seed = n_step = 0
    for p in paths:
        conv = p.calls(CONV_RX)
        if not conv:
            if p.end[0] == "return" and not any(e[0] == "iter-item" for e in p.events):
                # no item: the result is the seed
                r = p.end[1]
                sclo = unwrap_ok(r) if r[0] == "adt" and r[2] == "Ok" else None
                if sclo is None:
                    continue
                n_seed += 1
                done = [e for e in p.events if e[0] == "iter-exhausted" and re.search(r"Iterator>::collect", str(e[2]))]
                if done and sclo[0] == "closure":
                    # list form: the finished collection of all converted items is captured by the predicate
                    whole = ("app", done[-1][2], (done[-1][3],))
                    okl, detl = list_any_form(F, sclo, whole)
                    ob("C08.b", "union:seed-is-the-empty-set", okl, "list form: " + detl, fn.loc())
                    continue
                a_, t_ = truth_table(eval_closure(F, sclo), lambda v: None) if sclo[0] in ("closure", "fn") else (None, "seed is not a predicate closure")
                ob("C08.b", "union:seed-is-the-empty-set", a_ == [] and t_ == {(): False}, "predicate of the union of no items: %s" % (t_,), fn.loc())
            continue
        a = argval(conv[0], 0)
        cv = variant_of(ex, p, conv[0][4])
        if cv == "Err":
            ob("C15.e", "union:item-error-is-returned", p.end[0] == "return" and variant_of(ex, p, p.end[1]) == "Err", "item conversion failed -> %s" % p.end[0], fn.loc())
            continue
        if p.end[0] != "cut":
            continue
        n_step += 1
        neg_false = a[0] == "tuple" and a[1][1] == ("bool", False) and "item@" in S.fstr(a[1][0])
        # the new accumulator: the value the fold step returned, or the accumulator variable after the iteration
        newacc = None
        for e in p.events:
            if e[0] == "call" and len(e) > 8 and e[8] == "desugared-iteration" and e[4] is not None:
                newacc = e[4]
        if newacc is None:
            cands = [e for e in p.events if e[0] == "write" and e[2][0] == "local" and not e[3] and e[4][0] in ("adt", "closure") and "MatchFn" in S.fstr(e[4])]
            newacc = cands[-1][4] if cands else None
        clo = unwrap_ok(("adt", "std::result::Result", "Ok", (newacc,))) if newacc is not None else None
        item_f = ("field", ("downcast", conv[0][4], "Ok"), "0")
        okstep, det = False, "new accumulator not found"
        coll = [e for e in p.events if e[0] == "collect-item"]
        if coll and newacc is None:
            # list form: this item's predicate (and nothing else) joins the list
            okstep = len(coll) == 1 and coll[0][2] == item_f and neg_false
            ob("C08.b", "union:step-is-acc-or-item", okstep, "list form: element collected for this item: %s" % S.vstr(coll[0][2])[:80], fn.loc())
            continue
        if clo is not None and clo[0] == "closure":
            # the step must be right for an arbitrary accumulated set, not only for the empty seed of the first iteration:
            # the captured accumulator is replaced by a symbol
            ups = tuple(u if S.mentions(u, lambda x: x == item_f) else ("sym", "ACC") for u in clo[2])
            n_acc = sum(1 for u in ups if u == ("sym", "ACC"))
            clo = ("closure", clo[1], ups)
            atoms, table = truth_table(eval_closure(F, clo), lambda v: "item" if S.mentions(v, lambda x: x == item_f) else ("acc" if S.mentions(v, lambda x: x == ("sym", "ACC")) else None))
            if n_acc != 1:
                atoms, table = None, "the step closure captures %d values besides the item (expected: the accumulator)" % n_acc
            if atoms is not None:
                okstep, det = compare(atoms, table, lambda e: e["acc"] or e["item"], {"acc": "P[acc]", "item": "P[item]"})
            else:
                det = table
        if not neg_false:
            okstep, det = False, "item converted with %s" % S.vstr(a)[:80]
        ob("C08.b", "union:step-is-acc-or-item", okstep, det, fn.loc())
    ob("C08.b", "union:seed-and-step-analysed", n_seed >= 1 and n_step >= 1, "%d seed path(s), %d step path(s)" % (n_seed, n_step), fn.loc())

    # =============================================================== unicode classes
    fn, ex, paths = run(r"TryFrom<&regex_syntax::ast::ClassUnicode>>::try_from$", max_paths=20000)
    n_named = 0
    errs = {"one-letter-other": None, "named-other": None, "named-value": None}

    def set_err(key_, val_):
        # "every path of this kind is rejected": one accepting path settles it, whatever order the paths come in
        if errs[key_] is not False:
            errs[key_] = val_
    for p in ret_paths(paths):
        r = p.end[1]
        kd = [(c, o) for c, o in p.conds if c[0] == "discr"]
        kind = dict((dv, n) for n, dv in kd[0][0][2]).get(kd[0][1]) if kd else None
        streq = [(c, o) for c, o in p.conds if (c[0] == "app" and re.search(r"PartialEq.*>::eq$|str>::eq$", c[1])) or (c[0] == "binop" and c[1] == "Eq" and "const" in (c[2][0], c[3][0]))]
        taken = [c for c, o in streq if o is True]
        # `match ch { 'L' => .. }` is a switch on the char value
        chsw = [(c, o) for c, o in p.conds if c[0] != "discr" and c[0] != "app" and isinstance(o, int) and not isinstance(o, bool) and kind == "OneLetter"]
        for c, o in chsw:
            taken.append(("binop", "Eq", c, ("const", chr(o))))
        negc = [(c, o) for c, o in p.conds if c[0] == "app" and re.search(r"ClassUnicode::is_negated$", c[1])]
        neg = negc[-1][1] if negc else None
        if r[0] == "adt" and r[2] == "Err":
            if kind == "NamedValue":
                set_err("named-value", True)
            elif kind == "OneLetter" and not taken:
                set_err("one-letter-other", True)
            elif kind == "Named" and not taken:
                set_err("named-other", True)
            continue
        if not (r[0] == "adt" and r[2] == "Ok"):
            continue
        if kind == "NamedValue":
            set_err("named-value", False)
            continue
        if not taken:
            # an Ok result without a recognised name: a wildcard arm accepts unknown classes
            if kind == "OneLetter":
                set_err("one-letter-other", False)
            elif kind == "Named":
                set_err("named-other", False)
            continue
        t = taken[-1]
        lit = None
        for x in S.subterms(t):
            if x[0] == "const":
                lit = str(x[1]).strip('"').strip("'")
        if lit is None and t[0] == "binop":
            lit = S.vstr(t[3] if t[3][0] == "const" else t[2]).strip("'\"")
        meth = UNICODE_NAMED.get(lit) if kind == "Named" else UNICODE_ONE_LETTER.get(lit)
        clo = unwrap_ok(r)
        key = "unicode:%s:%s:negated=%s" % (kind, lit, neg)
        if clo[0] not in ("closure", "fn"):      # (a captureless closure may be written as a fn item)
            ob("C08.d", key, False, "returns %s" % S.vstr(r)[:80], fn.loc())
            continue
        atoms, table = truth_table(eval_closure(F, clo), lambda v: None)
        if atoms is None:
            ob("C08.d", key, False, "truth table not computable: %s" % table, fn.loc())
            continue
        if meth is None:
            # a class the specification table does not know: structure only (single predicate, negation applied)
            ok = len(atoms) == 1 and table == ({(False,): True, (True,): False} if neg else {(False,): False, (True,): True})
            ob("C08.d", key, ok, "single predicate %s, negated=%s" % (atoms, neg), fn.loc())
            continue
        n_named += 1
        exp = (lambda e: not e["p"]) if neg else (lambda e: e["p"])
        ok, det = compare(atoms, table, exp, {"p": "%s(ch)" % meth})
        ob("C08.d", key, ok, "\\p{%s}: %s" % (lit, det), fn.loc())
    if "C08.d" in want:
        ctx.floor("C08.d", "named unicode classes checked", n_named, 100)
    for k, v in errs.items():
        ob("C15.e", "unicode:%s-rejected" % k, v is True, "unknown %s unicode class %s" % (k, "is rejected with an error" if v else "is NOT rejected (%s)" % v), fn.loc())

    # =============================================================== one predicate per registered class, indexed by id
    # whatever the loop is written as (try_fold with a pushing closure, a for loop with `?`): per registered class, in table
    # order, its ast is converted and the predicate appended exactly once; a conversion error leaves the function as Err
    cm = F.fn(r"CharacterClassRegistry::create_match_char_class$")
    ctx.analysed_fn(cm)
    ex, paths = run_fn(cm, F, BaseModel(), inline=INLINE, desugar=r".|collect")
    adapters = [M.short_name(M.call_name(t)) for bb, t in cm.calls(r"Iterator>::(rev|skip|take|filter|filter_map|step_by|skip_while|take_while|chain|zip|cycle)\b|::(sort\w*|reverse|dedup\w*|retain|swap|rotate_\w+|insert|remove|swap_remove|truncate|pop)$")]
    n_ok = n_err = 0
    srcs = set()
    okp = True
    det = ""
    for p in paths:
        cv = [e for e in p.events if e[0] == "call" and re.search(r"TryInto<internal::match_function::MatchFunction>>::try_into$|MatchFunction as std::convert::TryFrom<&regex_syntax::ast::Ast>>::try_from$", e[2])]
        if not cv:
            continue
        for e in p.events:
            if e[0] in ("iter-item",):
                srcs.add(S.fstr(e[3]))
            if e[0] == "call" and re.search(r"iter::Iterator>::next$", e[2]):
                srcs.add(S.fstr(ex.deref_val(p, e[3][0]) if e[3][0][0] == "ref" else e[3][0]))
        a0 = S.fstr(cv[0][3][0])
        from_item = "CharacterClass::ast" in a0 and "item@" in a0
        pu = p.calls(r"Vec::<.*MatchFunction>::push$")
        v = variant_of(ex, p, cv[0][4])
        if v == "Err":
            n_err += 1
            ends_err = p.end[0] == "return" and variant_of(ex, p, p.end[1]) == "Err"
            ob("C15.e", "classes:conversion-error-is-returned", ends_err and not pu, "conversion failed -> %s" % (S.vstr(p.end[1])[:50] if p.end[0] == "return" else p.end[0]), cm.loc())
        else:
            n_ok += 1
            okv = ("field", ("downcast", cv[0][4], "Ok"), "0")
            ci = [e for e in p.events if e[0] == "collect-item"]        # map(convert).collect::<Result<Vec<_>, _>>() analysed as the loop
            appended = [x[3][1] for x in pu] + [e[2] for e in ci]
            good = len(cv) == 1 and from_item and len(appended) == 1 and appended[0] == okv and p.end[0] == "cut"
            if not good:
                okp = False
                det = "appends %s of conversion(%s), then %s" % ([S.vstr(x)[:50] for x in appended], a0[:60], p.end[0])
    ob("C08.e", "each-class-converted-and-pushed-once", okp and n_ok >= 1, det or "%d iteration path(s): convert CharacterClass::ast(item), push the predicate" % n_ok, cm.loc())
    ob("C08.e", "one-predicate-per-class-in-id-order", bool(srcs) and all("self.character_classes" in x for x in srcs) and not adapters, "iteration over %s; reordering/filtering calls: %s" % (sorted(srcs), adapters), cm.loc())
    ob("C15.e", "classes:both-outcomes", n_ok >= 1 and n_err >= 1, "iteration paths: %d converting, %d failing" % (n_ok, n_err), cm.loc())
    cls = F.closures_of(cm)
    for c in cls:
        names = c.names()
        if c.argc == 3 and c.locals[0]["ty"] != "bool":
            pass        # (the closure that builds the table — it returns the table, not a membership answer)
        elif c.argc == 3:
            tt = eval_closure(F, ("closure", c.key, (("sym", "match_functions"),)), nargs=2)
            ok = False
            det = ""
            for conds, r in tt:
                s = S.vstr(r)
                # exactly: predicate at index <the given class id> applied to <the given char> — the index is unchecked, and an
                # index computed from the id (id + 1, id.max(1), ..) selects another class's predicate or reads out of bounds
                gu = [x for x in S.subterms(r) if x[0] == "app" and re.search(r"get_unchecked(::<.*>)?$", str(x[1])) and len(x[2]) == 2]
                ok = False
                if len(gu) == 1:
                    idx = gu[0][2][1]
                    n_ = 0
                    while n_ < 6 and (idx[0] == "cast" or idx[0] in ("ref", "deref") or (idx[0] == "app" and re.search(r"CharClassID::as_usize$|CharClassID::id$|From<.*>>::from$|Into<usize>>::into$", str(idx[1])) and len(idx[2]) == 1)):
                        idx = idx[2] if idx[0] == "cast" else (idx[1] if idx[0] == "deref" else (idx[2][0] if idx[0] == "app" else (idx[1][1] if idx[1][0] == "loc" and not idx[1][2] else idx)))
                        n_ += 1
                    tbl = gu[0][2][0]
                    ok = idx == ("sym", "ch") and S.mentions(tbl, lambda x: x == ("sym", "match_functions")) and not S.mentions(tbl, lambda x: x[0] == "app") \
                        and S.fstr(r).endswith(", (arg2))") and len([x for x in S.subterms(r) if x == ("sym", "arg2")]) == 1
                det = S.fstr(r)[:300]
            ob("C08.e", "predicate-indexed-by-class-id", ok, "dispatch closure returns %s" % det, c.loc())
