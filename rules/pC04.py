from . import kernel, cursor
LEVEL = "other"
EXPLANATION = ("Gate dominance and polarity by path-sensitive abstract interpretation of the MIR of CompiledDfa::find_from and "
               "CompiledLookahead::satisfies_lookahead (every path with a configured lookahead must decide it before any result "
               "write; result writes only on the satisfied edge / the negative end-of-input edge; polarity table), provenance of "
               "the haystack handed to the lookahead (the text after the candidate, split at index+len_utf8(c) of the cursor's own "
               "haystack) and of the haystack/cursor pair handed down by next_match/peek_n (offset-kind consistency after "
               "set_offset), lookahead length never flows into the match end, every gate-satisfied candidate reaches the "
               "selection. The language of the lookahead automaton itself is C02.")
RULES = {"C04.a", "C04.b", "C04.c", "C04.d", "C04.e", "C04.f", "C01.i"}


def check(ctx):
    ctx.assume("token types are unique within a mode (lookaheads are keyed by terminal id)")
    kernel.analyze(ctx, RULES | {"C12.d"})
    cursor.analyze(ctx, {"C04.c", "C10.a"})    # (C10.a: the scan position a caller sets is the one the implementation gets — the public wrappers only forward)
    kernel.lookahead_wiring(ctx, ("C04.f",))
    kernel.token_type_uniqueness(ctx, "C04.g", "lookahead-table-key-is-the-token-type-but-token-types-may-repeat", "with patterns [b(?=x) -> 7, a -> 7] the input \"a\" yields no token: the lookahead of the first pattern is applied to the second (one table entry per token type, add_lookahead overwrites)")
    from .common import cache_foundation, language_foundation
    language_foundation(ctx)
    cache_foundation(ctx)
