"""Closed inventory of iterator adaptors that drop, truncate or reorder elements (`skip`, `take`, `step_by`, `nth`, `skip_while`,
`take_while`, `last`, `rev`, `zip`, `filter`, `filter_map`, `peekable`, `scan`, `cycle`, `next_back`, ...).

Almost every rule of this checker has a clause "all elements are visited, in order": every pattern is compiled, every state is
explored, every transition is copied, every character is looked at.  The systematic probe `tools/gen_loop_mutants` (make every
loop of the crate skip its first element) showed that clauses stated per rule leave loops uncovered.  The pinned tree uses such
adaptors at four places only, so the clause is stated once, as a closed set: an adaptor call in library code is accepted iff

  * it is one of the baseline sites (each with the rule that analyses what it does), or
  * it is a form a rule analyses element by element (listed in UNDERSTOOD with that rule), or
  * it cannot drop anything by its types (`zip` with `0..` or with `iter::repeat(..)`: numbering / pairing with a constant), or
  * it is inside a log / debug_assert macro (no effect on results).

Everything else is reported with the function and the adaptor."""
import re

from . import mirlib as M

RX = r"iter::Iterator>::(skip|take|step_by|nth|skip_while|take_while|last|rev|zip|filter|filter_map|peekable|scan|cycle|map_while)(::<.*>)?$|DoubleEndedIterator>::(rev|next_back|nth_back|rfind|rposition)(::<.*>)?$"

# (owner function, adaptor) -> why it is fine.  Baseline sites:
BASELINE = [
    (r"FindMatchesImpl::<..>::set_offset$", "next_back", "last char in front of the new position (C09.a checks the prefix and the direction)"),
    (r"Minimizer::calculate_initial_partition$", "filter_map", "labels of the accepting entries only (C03.a: selection rows)"),
    (r"Minimizer::merge_transitions$", "skip", "representative = first member, the others are merged into it (C03.f: first+skip form)"),
    (r"MultiPatternNfa::move_set$", "filter", "targets already in the result are not added twice (C02.d)"),
]
# forms of behaviour-preserving rewrites that a rule analyses element by element (the rule is named):
UNDERSTOOD = [
    (r"FindMatchesImpl::<..>::set_offset$", "last", "C09.a: `prefix.chars().last()` is the char in front of the new position, like next_back() (the rule checks prefix and direction)"),
    (r"FindMatchesImpl::<..>::advance_char_indices_beyond_match$", "take_while", "C11.d analyses the stop test of the walk (take_while consumes the first rejected element like the loop's break)"),
    (r"CompiledDfa::priority_of$", "take_while", "C01.c: take_while(!= t).count() is the position search"),
    (r"CompiledDfa::priority_of$", "zip", "C01.c: numbering"),
    (r"Minimizer::merge_transitions$", "skip", "C03.f"),
    (r"Minimizer::calculate_initial_partition$", "filter", "C03.a: filter + map instead of filter_map (selection rows)"),
    (r"MultiPatternNfa::move_set$", "filter_map", "C02.d"),
    (r"internal::nfa::Nfa::move_set$", "filter", "C02.d: targets already in the result are not added twice (same form as the multi-pattern move_set)"),
    (r"internal::nfa::Nfa::move_set$", "filter_map", "C02.d"),
    (r"CompiledDfa::try_from_patterns$", "filter_map", "C04.f analyses the selection element by element: a pattern is passed over only if it has no lookahead"),
    (r"CompiledDfa::try_from_patterns$", "filter", "C04.f (as above)"),
    (r"scanner_mode::ScannerMode::new$", "skip", "C06.h/C02.h: the two stored lists are checked by how they are filled (common.list_fill reports adaptors on them); other chains only feed the sortedness debug_assert"),
    (r"scanner_mode::ScannerMode::new$", "zip", "C06.h/C02.h (as above)"),
]
# functions whose results no property speaks about (text for logs / humans, NFA pictures used by unit tests only)
IRRELEVANT = r"as std::fmt::(Display|Debug)>::fmt$|internal::dot::(nfa_render|multi_pattern_nfa_render|multi_render|render_to)\b|::trace_\w+$|ScannerImpl::log_compiled_automata_as_dot$|scanner_impl_rx::"

# Second closed set: an iterator advanced by hand (`it.next()`, `nth`, `next_back`, `advance_by`, ..) anywhere but at the driving
# position of a loop (a block of a loop that every trip through the loop passes).  `let mut it = v.iter(); it.next(); for x in it`
# skips an element without any adaptor (second systematic probe, LM_MODE=preconsume: 80 of 86 such mutants went unnoticed).
ADV_RX = r"iter::Iterator>::(next|nth|advance_by|next_chunk)$|DoubleEndedIterator>::(next_back|nth_back|advance_back_by)$|Peekable<.*>::(next_if|next_if_eq)"
# an element taken by hand and *used* (first + rest forms), with the rule that checks what is done with it:
ADV_UNDERSTOOD = [
    (r"Minimizer::merge_transitions$", "next", "C03.f: representative = next(), the rest of the same iterator are the members merged into it (next+rest form)"),
    (r"internal::nfa::Nfa::try_from_ast$", "next", "C02.c: first alternative taken with next(), the others from the same iterator — the denotation after each step is compared with the alternatives seen"),
]
ADV_BASELINE = [
    (r"FindMatchesImpl::<..>::set_offset$", "next_back", "C09.a (see above)"),
    (r"FindMatchesImpl::<..>::peek_n$", "next", "C11.b/d: the private cursor of the peek skips one char after a failed attempt (inside the loop, on the no-match branch)"),
    (r"with_positions::WithPositions<I> as std::iter::Iterator>::next$", "next", "C09.e: one token taken from the wrapped iterator per call"),
    (r"find_matches::FindMatches<'_> as std::iter::Iterator>::next$", "next", "forwarding"),
]

AREAS = {   # rule id -> functions it covers
    "C05.e": r"CompiledDfa::(find_from|priority_of|pattern)$|CompiledLookahead::satisfies_lookahead$",
    "C02.j": r"internal::(nfa|multi_pattern_nfa|parser|compiled_scanner_mode|scanner_impl|scanner_cache|compiled_lookahead)::|CompiledDfa as std::convert::From|CompiledDfa::(try_from_patterns|add_lookahead)$|scanner_builder::|scanner_mode::|pattern::|scanner::Scanner",
    "C03.i": r"internal::minimizer::",
    "C08.f": r"internal::(match_function|character_class_registry|character_class|comparable_ast)::",
    "C09.g": r"internal::find_matches_impl::|find_matches::|with_positions::|position::|match_type::|span::",
    "C18.e": r"internal::dot::(compiled_dfa_render|render_compiled_dfa)|generate_compiled_automata_as_dot$",
}


def _owners_or_self(F, fn):
    """the known functions on whose behalf `fn` runs; a function the rules do not know that nobody in the crate calls
    and that is not a trait method runs on nobody's behalf: dead code, or a new entry point no property speaks about"""
    from .common import owners, call_sites_of
    from . import symex as S_
    os_ = owners(F, fn)
    if os_ and fn.kind != "Closure" and S_.is_unknown_helper(fn):
        # a helper that is called from debug-only code alone (the predicate of a `debug_assert!` moved into a function) is
        # debug-only code itself: effect-free by <Cxx>.z, not part of what a release build computes
        from . import profile as _pf
        sites = call_sites_of(F, fn)
        if sites and all(any(bb in region for _sw, region in _pf.debug_only_regions(g)) for g, bb, _t in sites):
            return []
    if os_:
        return os_
    base = fn
    if fn.kind == "Closure":
        bn = re.sub(r"(::\{closure#\d+\})+$", "", fn.name)
        cand = [f_ for f_ in F.fns.values() if f_.name == bn and f_.kind != "Closure"]
        base = cand[0] if cand else fn
    if S_.is_unknown_helper(base) and not base.name.startswith("<"):
        return []       # (also a new *exported* function nobody in the crate calls: the properties speak about the API they name)
    return [(fn, None)]


def analyze(ctx, rules):
    """rules: iterable of rule ids from AREAS to emit."""
    from .common import owners, is_derived
    F = ctx.facts
    sites = {}
    for fn in F.fns.values():
        if is_derived(fn):
            continue
        for bb, t in fn.calls(RX):
            m = re.search(RX, M.call_name(t))
            kind = m.group(1) or m.group(3)
            if t.get("exp_outer") in ("debug_assert!", "trace!", "debug!", "info!", "warn!", "error!", "assert!", "debug_assert_eq!"):
                continue
            if kind == "zip":
                tys = " ".join(t.get("callee_targs") or []) + " " + (t.get("callee_self") or "")
                if re.search(r"ops::RangeFrom<usize>|iter::Repeat<|iter::RepeatN<", tys):
                    continue        # pairing with 0.. or with a repeated constant cannot drop an element of the other operand
            if kind == "take" and re.search(r"^std::iter::(RepeatWith|Repeat|Successors|FromFn)<", t.get("callee_self") or ""):
                continue            # the first n elements of an endless generator: n elements, nothing is dropped
            for o, _ in _owners_or_self(F, fn):
                sites.setdefault((o.name, kind), []).append(fn.loc(bb))
        # `flat_map` / `flatten` over a Result or an Option keeps the Ok / Some payloads and silently drops every Err / None
        # (an error swallowed on the way — seed C04n); over nested collections they keep every element and are not listed
        for bb, t in fn.calls(r"iter::Iterator>::(flat_map|flatten)(::<.*>)?$"):
            if t.get("exp_outer") in ("debug_assert!", "trace!", "debug!", "info!", "warn!", "error!", "assert!", "debug_assert_eq!"):
                continue
            nm_ = M.call_name(t)
            kind = "flat_map" if "flat_map" in nm_ else "flatten"
            if kind == "flat_map":
                drops = re.search(r"flat_map::<(std|core)::(result::Result|option::Option)<", nm_) is not None
            else:
                tys = " ".join(t.get("callee_targs") or []) + " " + (t.get("callee_self") or "")
                drops = re.search(r"(Iter|IntoIter|IterMut)<('_, )?(std|core)::(result::Result|option::Option)<", tys) is not None
            if drops:
                for o, _ in _owners_or_self(F, fn):
                    sites.setdefault((o.name, kind + " over Result/Option"), []).append(fn.loc(bb))
    adv = {}
    for fn in F.fns.values():
        if is_derived(fn):
            continue
        loops = fn.natural_loops()
        backs = fn.back_edges()
        pv = None
        for bb, t in fn.calls(ADV_RX):
            m = re.search(ADV_RX, M.call_name(t))
            kind = m.group(1) or m.group(2) or m.group(3)
            if t.get("exp_outer") in ("debug_assert!", "trace!", "debug!", "info!", "warn!", "error!", "assert!"):
                continue
            # the driving call of a loop: every trip passes it, and its answer decides whether the loop goes on (the result is
            # matched on, and one arm leaves the loop)
            driver = False
            exits_on = set()
            cur = t.get("target")
            n_ = 0
            while cur is not None and n_ < 6:
                n_ += 1
                tt = fn.term(cur)
                if tt["k"] == "goto":
                    cur = tt["target"]
                    continue
                if tt["k"] == "switch" and tt["discr"].get("k") in ("copy", "move"):
                    dd = fn.single_def(tt["discr"]["p"]["l"])
                    if dd and dd["kind"] == "assign" and dd["stmt"]["rv"]["k"] == "discr" and dd["stmt"]["rv"]["p"]["l"] == t["dest"]["l"]:
                        exits_on = {tb for _, tb in tt["targets"]} | {tt["otherwise"]}
                break
            if not exits_on and t.get("target") is not None:
                # `while it.next().is_some()` / `.is_none()`: the answer is tested through the predicate
                t2 = fn.term(t["target"])
                if t2["k"] == "call" and re.search(r"Option::<.*>::(is_some|is_none)$", M.call_name(t2)) and t2.get("target") is not None:
                    cur2 = t2["target"]
                    n2 = 0
                    while cur2 is not None and n2 < 6:
                        n2 += 1
                        t3 = fn.term(cur2)
                        if t3["k"] == "goto":
                            cur2 = t3["target"]
                            continue
                        if t3["k"] == "switch":
                            exits_on = {tb for _, tb in t3["targets"]} | {t3["otherwise"]}
                        break
            for h, body in loops.items():
                if bb in body and all(fn.dominates(bb, a) for a, b in backs if b == h) and any(x not in body for x in exits_on):
                    driver = True
            if driver:
                continue
            # is the element that was taken used at all?  (`it.next();` / `let _ = it.next();` / `if it.next().is_some() {}` throw it away)
            dl = t["dest"]["l"]
            alias = {dl}            # the result and its plain copies
            grew = True
            while grew:
                grew = False
                for b2 in fn.reachable():
                    for st in fn.blocks[b2]["stmts"]:
                        if st["k"] == "assign" and not st["p"]["pj"] and st["rv"]["k"] == "use" and st["rv"]["op"].get("k") in ("copy", "move") \
                                and st["rv"]["op"]["p"]["l"] in alias and not st["rv"]["op"]["p"]["pj"] and st["p"]["l"] not in alias:
                            alias.add(st["p"]["l"])
                            grew = True
            used = False
            for b2 in fn.reachable():
                for st in fn.blocks[b2]["stmts"]:
                    if st["k"] != "assign":
                        continue
                    for pl in M.rvalue_places(st["rv"]):
                        if pl["l"] in alias and any(e_["k"] in ("downcast", "field") for e_ in pl["pj"]):
                            used = True
                t4 = fn.term(b2)
                if t4["k"] == "call" and b2 != bb:
                    for a_ in t4["args"]:
                        if a_.get("k") in ("copy", "move") and a_["p"]["l"] in alias and not re.search(r"Option::<.*>::(is_some|is_none)$|mem::drop", M.call_name(t4)):
                            used = True
            kind = kind if used else kind + " (result discarded)"
            # advancing a *copy* of an iterator does not take anything away from the original
            if pv is None:
                pv = M.Prov(fn)
            try:
                e_ = pv.operand(t["args"][0]) if t["args"] else None
                if e_ is not None and any(re.search(r"^<(std|core)::(str::(CharIndices|Chars)|slice::Iter|vec::IntoIter|iter::\w+|ops::Range\w*|collections::\w+::\w*Iter\w*)<.*> as std::clone::Clone>::clone$", c_[1]) for c_ in M.expr_calls(e_)):
                    continue        # (the clone of an *iterator*, not a clone somewhere in the value's history)
            except Exception:
                pass
            for o, _ in _owners_or_self(F, fn):
                adv.setdefault((o.name, kind), []).append(fn.loc(bb))
    for rule in rules:
        area = AREAS[rule]
        for (oname, kind), locs in sorted(adv.items()):
            if not re.search(area, oname) or re.search(IRRELEVANT, oname):
                continue
            base = [w for rx, k, w in ADV_BASELINE + ADV_UNDERSTOOD if k == kind and re.search(rx, oname)]
            ctx.ob(rule, "advance:%s:%s" % (M.short_name(oname), kind), bool(base),
                   ("%s calls %s() outside the driving position of a loop: %s" % (M.short_name(oname), kind, base[0])) if base else
                   "%s advances an iterator by hand (%s() at %s, not the call that drives a loop): elements are taken from a walk that must visit all of them, and no rule analyses this use" % (M.short_name(oname), kind, ", ".join(locs)), locs[0])
    for rule in rules:
        area = AREAS[rule]
        n = 0
        for (oname, kind), locs in sorted(sites.items()):
            if not re.search(area, oname) or re.search(IRRELEVANT, oname):
                continue
            n += 1
            base = [w for rx, k, w in BASELINE + UNDERSTOOD if k == kind and re.search(rx, oname)]
            ctx.ob(rule, "adaptor:%s:%s" % (M.short_name(oname), kind), bool(base),
                   ("%d call(s) of Iterator::%s in %s: %s" % (len(locs), kind, M.short_name(oname), base[0])) if base else
                   "%s uses Iterator::%s (%s): an adaptor that drops, truncates or reorders elements, in a function whose loops must visit every element in order, and no rule analyses this use" % (M.short_name(oname), kind, ", ".join(locs)), locs[0])
        ctx.sample({"rule": rule, "adaptor_sites_in_area": n})
    analyze_exits(ctx, rules)
    analyze_list_ops(ctx, rules)


# Third closed set: the places where a loop can be left.  `continue` written as `break`, an early `return` inside a walk that must
# visit every element: no adaptor, no hand-advanced iterator — one more edge out of the loop.  Per known function (closures and
# unknown helpers accounted at their owners, as everywhere) the number of edges that leave a loop without unwinding is compared
# with the reference tree (rules/loop_exits.json, tools/gen_loop_exits): more exits than the reference had are reported.
def loop_exits(F):
    """{owner function name: number of loop-leaving edges}"""
    from .common import owners, is_derived
    out = {}
    for fn in F.fns.values():
        if is_derived(fn):
            continue
        loops = fn.natural_loops()
        if not loops:
            continue
        n = 0
        backs = fn.back_edges()
        for h, body in loops.items():
            exits = {}
            for u in body:
                t = fn.term(u)
                if t.get("exp_outer") in ("debug_assert!", "trace!", "debug!", "info!", "warn!", "error!", "assert!", "debug_assert_eq!"):
                    continue
                for v in fn.succ(u):
                    # an edge into a block that can only panic is not a way to skip elements
                    if v not in body and not fn.is_unreachable_block(v) and _reaches_return(fn, v) and not _error_exit(fn, v):
                        exits.setdefault(u, []).append(v)
            if not exits:
                continue
            # the loop's own test — the exiting block every trip passes first (`match it.next() { None => break, .. }`, `while c`):
            # it dominates every latch and every other exiting block.  Leaving there is how the loop ends; every other exit is an
            # early one, and only those are counted.
            latches = [a for a, b in backs if b == h and a in body]
            test = [u for u in exits if all(fn.dominates(u, l) for l in latches) and all(fn.dominates(u, w) for w in exits)]
            n += sum(len(set(v)) for u, v in exits.items() if not (test and u == test[0]))
        if not n:
            continue
        for o, _ in _owners_or_self(F, fn):
            out[o.name] = out.get(o.name, 0) + n
    return out


def _error_exit(fn, b):
    """the edge leads to an error return only — the failing arm of a `?` or an explicit `return Err(..)`: every way from it to
    the function's return writes the `Err` variant of the result (the whole build fails; no element is silently skipped)"""
    def errs(x):
        t = fn.term(x)
        if t["k"] == "call" and re.search(r"FromResidual\b.*::from_residual$", M.call_name(t)):
            return True
        for st in fn.j["blocks"][x]["stmts"]:
            if st["k"] == "assign" and st["p"]["l"] == 0 and not st["p"]["pj"]:
                rv = st["rv"]
                if rv.get("k") == "aggregate" and rv.get("path") == "std::result::Result" and rv.get("variant") == "Err":
                    return True
        return False
    seen, st = set(), [b]
    while st:
        x = st.pop()
        if x in seen:
            continue
        seen.add(x)
        if errs(x):
            continue
        if fn.term(x)["k"] == "return":
            return False
        st.extend(fn.succ(x))
    return True


def _reaches_return(fn, b):
    memo = fn.__dict__.setdefault("_rr", {})
    if b in memo:
        return memo[b]
    seen, st = set(), [b]
    ok = False
    while st:
        x = st.pop()
        if x in seen:
            continue
        seen.add(x)
        if fn.term(x)["k"] == "return":
            ok = True
            break
        st.extend(fn.succ(x))
    memo[b] = ok
    return ok


# functions whose loop IS a search: leaving early on a hit is the point, and a rule analyses hit / miss / exhausted element by element
EXIT_UNDERSTOOD = [
    (r"CompiledDfa::priority_of$", "C01.c search table"),
    (r"Minimizer::find_group$", "C03.d search table"),
    (r"CompiledScannerMode::has_transition$", "C06.d ordered search table"),
    (r"CharacterClassRegistry::add_character_class$", "C02.f lookup of an equal class"),
    (r"ScannerImpl::mode_name$|scanner::Scanner::mode_name$", "C06.g lookup by index"),
]


# Fourth closed set: operations that reorder or shorten a list *in place* — no adaptor, no loop: `v.sort_unstable_by_key(..)`,
# `v.reverse()`, `v.swap_remove(i)`, `v.retain(..)`, `v.truncate(n)`, `v.drain(..)`.  (Seed C03j: a `sort_unstable_by_key` added to
# `merge_transitions`, whose index arithmetic relies on the representative standing in front of the states merged into it.)
LIST_OPS = [
    ("order", r"(<impl \[.*\]>|Vec::<.*>|VecDeque::<.*>)::(sort|sort_by|sort_by_key|sort_by_cached_key|sort_unstable|sort_unstable_by|sort_unstable_by_key|dedup|dedup_by|dedup_by_key)(::<.*>)?$"),
    ("reorder", r"(<impl \[.*\]>|Vec::<.*>|VecDeque::<.*>)::(reverse|swap|rotate_left|rotate_right|swap_remove|swap_remove_back|swap_remove_front|select_nth_unstable\w*)(::<.*>)?$"),
    ("shorten", r"(<impl \[.*\]>|Vec::<.*>|VecDeque::<.*>|String)::(truncate|drain|split_off|retain|retain_mut|extract_if)(::<.*>)?$"),
]


def list_ops(F):
    """{owner function name: {kind: number of call sites}} (closures and unknown helpers accounted at their owners)"""
    from .common import owners, is_derived
    out = {}
    for fn in F.fns.values():
        if is_derived(fn):
            continue
        found = {}
        for bb, t in fn.calls():
            if t.get("exp_outer") in ("debug_assert!", "trace!", "debug!", "info!", "warn!", "error!", "assert!", "debug_assert_eq!"):
                continue
            nm = M.call_name(t)
            for kind, rx in LIST_OPS:
                if re.search(rx, nm):
                    found[kind] = found.get(kind, 0) + 1
        if not found:
            continue
        for o, _ in _owners_or_self(F, fn):
            d = out.setdefault(o.name, {})
            for k, n in found.items():
                d[k] = d.get(k, 0) + n
    return out


def analyze_list_ops(ctx, rules):
    import json, os
    F = ctx.facts
    try:
        ref = json.load(open(os.path.join(os.path.dirname(__file__), "list_ops.json")))
    except (OSError, ValueError):
        for rule in rules:
            ctx.missing(rule, "rules/list_ops.json (tools/gen_list_ops)")
        return
    cur = list_ops(F)
    for rule in rules:
        area = AREAS[rule]
        n = 0
        for oname, kinds in sorted(cur.items()):
            if not re.search(area, oname) or re.search(IRRELEVANT, oname):
                continue
            r = ref.get(oname, ref.get(re.sub(r"<'\w+>", "<'_>", oname), {}))
            for kind, k in sorted(kinds.items()):
                n += 1
                allowed = r.get(kind, 0)
                ok = k <= allowed
                # a function that already puts its list in order may do so in other words (`extend + sort + dedup` for a push-if-absent
                # loop that was followed by a sort): more order operations are accepted where there was one
                if not ok and kind == "order" and allowed > 0:
                    ok = True
                # `v.retain(p)` on a copy is the in-place form of `iter().filter(p).collect()`: it may stand where a filter the
                # inventory knows (BASELINE / UNDERSTOOD) stood and no longer stands
                if not ok and kind == "shorten":
                    rows_f = [1 for rx_, ad_, _ in BASELINE + UNDERSTOOD if ad_ in ("filter", "filter_map") and re.search(rx_.replace("<..>", "<'\\w+>"), oname)]
                    ofn = [f_ for f_ in F.fns.values() if f_.name == oname]
                    now_f = sum(1 for f_ in ofn + [c_ for f0 in ofn for c_ in F.closures_of(f0)] for _bb, t_ in f_.calls(r"iter::Iterator>::(filter|filter_map)(::<.*>)?$"))
                    only_retain = all(re.search(r"::(retain|retain_mut)(::<.*>)?$", M.call_name(t_)) for f_ in ofn for _bb, t_ in f_.calls(LIST_OPS[2][1]))
                    if rows_f and now_f == 0 and only_retain and k <= 1:
                        ok = True
                ctx.ob(rule, "list-ops:%s:%s" % (M.short_name(oname), kind), ok,
                       "%s: %d in-place operation(s) of kind '%s' (sort/dedup | reverse/swap/swap_remove | truncate/drain/retain), the reference tree has %d%s" % (
                           M.short_name(oname), k, kind, allowed, "" if ok else ": the order or the length of a list changes where the rules assume it does not"), "")
        ctx.sample({"rule": rule, "in_place_list_operations_in_area": n})


def analyze_exits(ctx, rules):
    import json, os
    F = ctx.facts
    try:
        ref = json.load(open(os.path.join(os.path.dirname(__file__), "loop_exits.json")))
    except (OSError, ValueError):
        for rule in rules:
            ctx.missing(rule, "rules/loop_exits.json (tools/gen_loop_exits)")
        return
    cur = loop_exits(F)
    for rule in rules:
        area = AREAS[rule]
        n = 0
        for oname, k in sorted(cur.items()):
            if not re.search(area, oname) or re.search(IRRELEVANT, oname):
                continue
            n += 1
            r = ref.get(oname, ref.get(re.sub(r"<'\w+>", "<'_>", oname), 0))
            und = [w for rx, w in EXIT_UNDERSTOOD if re.search(rx, oname)]
            if und:
                ctx.ob(rule, "loop-exits:%s" % M.short_name(oname), True, "a search, decided by the %s" % und[0], "")
                continue
            ctx.ob(rule, "loop-exits:%s" % M.short_name(oname), k <= r,
                   "the loops of %s can be left early at %d place(s), the reference tree has %d%s" % (M.short_name(oname), k, r, "" if k <= r else
                   ": an added `break` / early `return` inside a loop ends a walk before every element was visited, and no rule analyses this exit"), "")
        ctx.sample({"rule": rule, "functions_with_loops_in_area": n})
