"""Two-way self-test of the rules: every patch under /verif/mutants and /verif/seeded is applied to
a scratch copy of /repo (outside /repo and /verif, removed afterwards together with its build
output), the facts are extracted from the scratch copy and the rules of the listed properties
must report a violation (the expected rule ids are in the manifest); the unmodified tree must be
silent.  Nothing is executed: a mutant is 'caught' by the same static rules the checks use."""
import json
import os
import shutil
import subprocess
import sys
import time
from concurrent.futures import ProcessPoolExecutor

from . import framework as fw

SCRATCH_ROOT = os.path.expanduser("~/.cache/verif-scratch")
_USERS = None


def _enter_scratch():
    """Register as a user of the scratch root (shared lock on a file NEXT to it)."""
    global _USERS
    import fcntl
    os.makedirs(SCRATCH_ROOT, exist_ok=True)
    if _USERS is None:
        _USERS = open(SCRATCH_ROOT + ".users", "w")
        fcntl.flock(_USERS, fcntl.LOCK_SH)


def _leave_scratch():
    """Remove the scratch root (scratch copies + build output) when this was its last user: another self-test, probe or
    debugging run that is still working in it keeps it."""
    global _USERS
    import fcntl
    if _USERS is None:
        return
    try:
        fcntl.flock(_USERS, fcntl.LOCK_EX | fcntl.LOCK_NB)
    except OSError:
        fcntl.flock(_USERS, fcntl.LOCK_UN)
        _USERS.close()
        _USERS = None
        return
    shutil.rmtree(SCRATCH_ROOT, ignore_errors=True)
    fcntl.flock(_USERS, fcntl.LOCK_UN)
    _USERS.close()
    _USERS = None
MANIFEST = os.path.join(fw.VERIF, "mutants", "manifest.json")


def load_manifest():
    with open(MANIFEST) as fh:
        return json.load(fh)


def all_props():
    return sorted(f[1:-3] for f in os.listdir(os.path.join(fw.VERIF, "rules")) if f.startswith("pC") and f.endswith(".py"))


def run_one(job):
    name, patch, props, slot = job
    t0 = time.time()
    # the scratch copy is private to this process; the cargo target directory of a slot is shared between processes
    # (several `thorough` commands may run at the same time) and therefore taken under an advisory file lock
    scratch = os.path.join(SCRATCH_ROOT, "m-%d-%s" % (os.getpid(), name))
    shutil.rmtree(scratch, ignore_errors=True)
    os.makedirs(scratch)
    import fcntl
    lock = open(os.path.join(SCRATCH_ROOT, "target-%d.lock" % slot), "w")
    fcntl.flock(lock, fcntl.LOCK_EX)
    try:
        subprocess.run(["rsync", "-a", "--exclude", "target", "--exclude", ".git", fw.REPO + "/", scratch + "/"], check=True)
        r = subprocess.run(["patch", "-p1", "-s", "-d", scratch, "-i", patch], stdout=subprocess.PIPE, stderr=subprocess.STDOUT, text=True)
        if r.returncode != 0:
            return name, {"error": "patch does not apply: " + r.stdout[-300:]}
        cache = os.path.join(scratch, ".vcache")
        target = os.path.join(SCRATCH_ROOT, "target-%d" % slot)
        out = {}
        try:
            for prop in props:
                ctx, mod = fw.run_rules(prop, "quick", repo=scratch, cache=cache, target=target)
                if ctx is None:
                    continue
                # (recorded known findings are not alarms: exact (property, rule, key) only, as in framework.finish)
                kf = {(k_["property"], k_["rule"], k_["key"]) for k_ in fw.load_known().get("findings", [])}
                out[prop] = [(o["rule"], o["key"], o["detail"][:200]) for o in ctx.obs if not o["ok"] and (prop, o["rule"], o["key"]) not in kf]
        except Exception as e:  # compile failure etc.
            return name, {"error": "%s: %s" % (type(e).__name__, str(e)[:300])}
        return name, {"violations": out, "wall_s": round(time.time() - t0, 1)}
    finally:
        shutil.rmtree(scratch, ignore_errors=True)
        fcntl.flock(lock, fcntl.LOCK_UN)
        lock.close()


def run_for_property(prop):
    """Run every mutant that lists `prop` against the rules of `prop`; {name: 'CAUGHT'|'MISSED'|'ERROR'}."""
    man = load_manifest()
    jobs = []
    # a mutant is listed under the property it is aimed at (first entry) and under properties somebody thought might notice it
    # as well; only the first is a claim ("this check must fire"), the others are reported as information
    primary = {}
    for name, m in sorted(man["mutants"].items()):
        if prop in m.get("properties", []):
            jobs.append((name, os.path.join(fw.VERIF, m["patch"]), [prop], 0))
            primary[name] = m.get("properties", [None])[0] == prop
    if not jobs:
        return {}
    workers = min(8, len(jobs))
    jobs = [(a, b, c, i % workers) for i, (a, b, c, _) in enumerate(jobs)]
    by_slot = {}
    for j in jobs:
        by_slot.setdefault(j[3], []).append(j)
    _enter_scratch()
    out = {}
    with ProcessPoolExecutor(max_workers=workers) as ex:
        for res in ex.map(_run_slot, list(by_slot.values())):
            for name, r in res:
                if "error" in r:
                    out[name] = "ERROR: " + r["error"][:100]
                else:
                    fired = sorted({rule for rule, key, d in r["violations"].get(prop, [])})
                    out[name] = ("CAUGHT by " + ",".join(fired)) if fired else ("MISSED" if primary.get(name) else "not reported by this check (aimed at %s; listed here as possibly related)" % man["mutants"][name]["properties"][0])
    _leave_scratch()
    return out


def refactors(argv):
    """Behaviour-preserving edits (mutants/refactors.json): every check must stay silent."""
    with open(os.path.join(fw.VERIF, "mutants", "refactors.json")) as fh:
        rman = json.load(fh)["refactors"]
    only = set(a for a in argv if not a.startswith("-"))
    props = all_props()
    jobs = []
    for name, m in sorted(rman.items()):
        if only and name not in only:
            continue
        jobs.append((name, os.path.join(fw.VERIF, m["patch"]), props, 0))
    workers = min(8, max(1, len(jobs)))
    jobs = [(a, b, c, i % workers) for i, (a, b, c, _) in enumerate(jobs)]
    by_slot = {}
    for j in jobs:
        by_slot.setdefault(j[3], []).append(j)
    _enter_scratch()
    rc = 0
    quiet = 0
    with ProcessPoolExecutor(max_workers=workers) as ex:
        for res in ex.map(_run_slot, list(by_slot.values())):
            for name, r in res:
                if "error" in r:
                    print("ERROR  %-40s %s" % (name, r["error"]))
                    rc = 1
                    continue
                alarms = [(prop, rule, key, d) for prop, vs in r["violations"].items() for rule, key, d in vs]
                if alarms:
                    rc = 1
                    print("FALSE-ALARM %-36s %d" % (name, len(alarms)))
                    for prop, rule, key, d in alarms[:12]:
                        print("          %s %s %s: %s" % (prop, rule, key, d[:160]))
                else:
                    quiet += 1
                    print("SILENT %-40s [%.0fs]" % (name, r["wall_s"]))
    print("refactors: %d/%d silent" % (quiet, len(jobs)))
    _leave_scratch()
    return rc


def main(argv):
    if argv and argv[0] == "refactors":
        return refactors(argv[1:])
    man = load_manifest()
    only = set(a for a in argv if not a.startswith("-"))
    verbose = "-v" in argv
    jobs = []
    props_all = all_props()
    for n, (name, m) in enumerate(sorted(man["mutants"].items())):
        if only and name not in only and not (set(m.get("properties", [])) & only):
            continue
        patch = os.path.join(fw.VERIF, m["patch"])
        props = props_all if m.get("all_properties") or "--all" in argv else m["properties"]
        jobs.append((name, patch, props, 0))
    workers = min(8, max(1, len(jobs)))
    jobs = [(a, b, c, i % workers) for i, (a, b, c, _) in enumerate(jobs)]
    _enter_scratch()
    results = {}
    # jobs sharing a slot share a cargo target dir: run slots in parallel, jobs of a slot serially
    by_slot = {}
    for j in jobs:
        by_slot.setdefault(j[3], []).append(j)

    def run_slot(js):
        return [run_one(j) for j in js]

    with ProcessPoolExecutor(max_workers=workers) as ex:
        for res in ex.map(_run_slot, list(by_slot.values())):
            for name, r in res:
                results[name] = r
    rc = 0
    caught = 0
    for name in sorted(results):
        r = results[name]
        m = man["mutants"][name]
        if "error" in r:
            print("ERROR  %-40s %s" % (name, r["error"]))
            rc = 1
            continue
        fired = {(prop, rule) for prop, vs in r["violations"].items() for rule, key, d in vs}
        exp = [tuple(e) for e in m.get("expect", [])]
        missing = [e for e in exp if e not in fired]
        anyfire = bool(fired)
        status = "CAUGHT" if anyfire and not missing else ("PARTIAL" if anyfire else "MISSED")
        if status != "CAUGHT":
            rc = 1
        else:
            caught += 1
        print("%-7s %-40s fired=%s%s [%.0fs]" % (status, name, sorted(fired), (" missing=%s" % missing) if missing else "", r["wall_s"]))
        if verbose:
            for prop, vs in r["violations"].items():
                for rule, key, d in vs:
                    print("          %s %s %s: %s" % (prop, rule, key, d))
    print("selftest: %d/%d mutants caught" % (caught, len(results)))
    _leave_scratch()
    return rc


def _run_slot(js):
    return [run_one(j) for j in js]
