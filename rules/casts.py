"""A6 — integer cast audit (C17.a/b, C01.h, C03.d)."""
import re

from . import mirlib as M

WIDTH = {"u8": 8, "i8": 8, "u16": 16, "i16": 16, "u32": 32, "i32": 32, "u64": 64, "i64": 64, "usize": 64, "isize": 64,
         "u128": 128, "i128": 128, "bool": 1, "char": 32}


def alias_width(F, name):
    for a in F.j["aliases"]:
        if a["path"].endswith("::" + name):
            return WIDTH.get(a["ty"]["s"]), a["ty"]["s"]
    return None, None


def role_of(fn, op):
    """Classify what an integer operand counts, from its provenance."""
    pr = M.Prov(fn, max_depth=12)
    e = pr.operand(op)
    # the number inside a TerminalID *is* a user's token type (TerminalIDBase = usize), wherever it is read
    def reads_terminal_id(o, depth=0):
        p = o.get("p") if o.get("k") in ("copy", "move") else None
        if p is None:
            return False
        if any(x["k"] == "field" and str(x.get("adt", "")).endswith("ids::TerminalID") for x in p["pj"]):
            return True
        if not p["pj"] and depth < 3:
            d = fn.single_def(p["l"])
            if d is not None and d["kind"] == "assign":
                st = fn.blocks[d["bb"]]["stmts"][d["idx"]]
                if st["rv"]["k"] == "use":
                    return reads_terminal_id(st["rv"]["op"], depth + 1)
        return False
    if reads_terminal_id(op):
        return "user-token-type", e
    names = " ".join(x[1] for x in M.walk_expr(e) if x[0] == "call")
    names += " " + " ".join(str(x[3]) for x in M.walk_expr(e) if x[0] == "call")
    leafs = M.expr_leaf_names(e)
    if re.search(r"Pattern::terminal_id|Nfa::terminal_id|token_type|Match::token_type", names) or ".token_type" in leafs:
        return "user-token-type", e
    if re.search(r"::len$|::len |position|enumerate|highest_state_number", names) or re.search(r"\blen\b", names):
        return "count-or-index", e
    for x in M.walk_expr(e):
        if x[0] == "arg" and x[2] in ("offset", "id", "group_id", "state", "index"):
            return "count-or-index", e
        if x[0] in ("var", "phi", "cycle", "mutated") and len(x) > 2 and x[-1] in ("id", "group_id", "state", "index", "i"):
            return "count-or-index", e
    # a counter (starts at a constant, only ever incremented by a constant) counts something, whatever it is called
    for x in M.walk_expr(e):
        if x[0] == "phi" and isinstance(x[1], (list, tuple)) and len(x[1]) == 2:
            kinds = set()
            for a in x[1]:
                if a[0] == "const":
                    kinds.add("init")
                elif a[0] == "binop" and a[1] in ("Add", "AddWithOverflow") and a[2][0] == "cycle" and a[3][0] == "const":
                    kinds.add("step")
                elif a[0] == "field" and a[1][0] == "binop" and a[1][1] in ("Add", "AddWithOverflow") and a[1][2][0] == "cycle" and a[1][3][0] == "const":
                    kinds.add("step")
            if kinds == {"init", "step"}:
                return "count-or-index", e
    for x in M.walk_expr(e):
        if x[0] == "arg":
            return "parameter:%s" % x[2], e
    return "other", e


ID_PLUMBING = [
    # (function name regex with the id type as group 1, accepted printed results (& * removed); the engine prints the id
    #  conversions of the crate (new / id / as_usize / From) as the identity, so `Id(self.0 + rhs)` may also print `(self.0 + rhs)`)
    (r"^internal::ids::(\w+)::new$", r"^(\1\()?index\)?$", None),
    (r"^internal::ids::(\w+)::id$", r"^self(\.0)?$", None),
    (r"^internal::ids::(\w+)::as_usize$", r"^\(?self(\.0)?( as usize)?\)?$", None),
    (r"^<internal::ids::(\w+) as std::convert::From<\w+>>::from$", r"^(\1\()?index\)?$", None),
    (r"^<internal::ids::(\w+) as std::ops::Add<\w+>>::add$", r"^(\1\()?\(self(\.0)? \+ rhs\)\)?$", None),
    (r"^<internal::ids::(\w+) as std::ops::AddAssign<\w+>>::add_assign$", r"^\('unit',\)$", r"^(\w+\()?\(self(\.0)? \+ rhs\)\)?$"),
    (r"^internal::ids::<impl std::ops::Index(?:Mut)?<internal::ids::(\w+)> for (?:\[T\]|std::vec::Vec<T>)>::index(?:_mut)?$", r"^(self|Vec::as_(mut_)?slice\(self\)|slice::as_(mut_)?slice\(self\))\.\(?index(\.0)?( as usize)?\)?$", None),
]


def id_plumbing(ctx, rule):
    """The id newtypes are plain numbers: constructors store the number, getters return it, `+` adds, indexing uses it as it
    is (the macro in ids.rs writes these by hand for every id type; the derived comparison impls are C02.n)."""
    from . import symex as S
    from .common import run_fn, ret_paths, BaseModel
    F = ctx.facts
    n = 0
    for fn in sorted(F.fns.values(), key=lambda f: f.name):
        for rx, want_ret, want_write in ID_PLUMBING:
            m = re.match(rx, fn.name)
            if not m:
                continue
            n += 1
            ex, ps = run_fn(fn, F, BaseModel())
            rp = ret_paths(ps)
            # (`usize::try_from(self.0)` + `unreachable!()` on Err instead of `self.0 as usize`: an integer conversion that succeeds
            # yields the same number; the failing arm is a panic site of the inventory, not a second result)
            rets = [re.sub(r"\((?:[\w<>]+::)*try_from\(([^()]*)\) as Ok\)\.0", r"\1", re.sub(r"[&*]", "", S.fstr(p.end[1]))) for p in rp]
            wrx = re.compile(want_ret.replace("\\1", re.escape(m.group(1))))
            others = [p for p in ps if p not in rp]
            conv_fail = all(p.end and p.end[0] == "diverge" and any(re.search(r"try_from\(", S.fstr(c)) for c, o in p.conds) for p in others)
            ok = len(rp) == 1 and conv_fail and wrx.match(rets[0]) is not None
            ws = [re.sub(r"[&*]", "", S.fstr(e[4])) for p in ps for e in p.events if e[0] == "write" and e[2][0] != "local"]
            if want_write is None:
                ok = ok and not ws
            else:
                ok = ok and len(ws) == 1 and re.match(want_write, ws[0]) is not None
            ctx.ob(rule, "id-plumbing:%s" % M.short_name(fn.name), ok, "returns %s, writes %s" % (rets, ws or "nothing"), fn.loc())
    ctx.floor(rule, "hand-written functions of the id newtypes", n, 30)


def size_thresholds(ctx, rule):
    """C17.c: the library has no size-dependent behaviour switch — no comparison of a value with an integer constant >= 64
    outside compiler-generated code (the reference tree has none; the constants it compares with are 0, 1, 2 and char codes in
    predicates).  "Large automata behave like small ones" cannot hold for code that changes its algorithm above a threshold
    (seed C17k: `if self.terminal_ids.len() > 1024 { bisect } else { scan }`)."""
    F = ctx.facts
    n = 0
    for fn in sorted(F.fns.values(), key=lambda f: f.name):
        if fn.j.get("exp") or re.search(r"internal::match_function::|scanner_impl_rx::", fn.name):
            continue       # (character predicates compare code points with constants by nature)
        for bb, i, s in fn.assigns():
            rv = s["rv"]
            if rv["k"] != "binop" or rv["op"] not in ("Lt", "Le", "Gt", "Ge", "Eq", "Ne"):
                continue
            n += 1
            for o in (rv["a"], rv["b"]):
                if o.get("k") != "const":
                    continue
                txt = str(o.get("s", "")) or str(o.get("val", ""))
                if "SizedTypeProperties" in txt or "::SIZE" in txt:
                    continue
                m = re.match(r"^(?:const )?(\d+)_(usize|u32|u64|u16|u128|isize|i32|i64)$", txt) or re.match(r"^(\d+)$", str(o.get("val", "")))
                if m and int(m.group(1)) >= 64 and o.get("ty", "usize") != "char":
                    ctx.ob(rule, "no-size-threshold:%s" % M.short_name(fn.name), False,
                           "%s compares a value with the constant %s: behaviour that depends on a size threshold" % (M.short_name(fn.name), m.group(1)), fn.loc(bb, i))
    ctx.ob(rule, "no-size-threshold", True, "%d comparisons inspected" % n, "")
    ctx.floor(rule, "integer comparisons in the library", n, 50)


def analyze(ctx, want):
    F = ctx.facts
    if "C17.c" in want and not getattr(ctx, "_size_thr", False):
        ctx._size_thr = True
        size_thresholds(ctx, "C17.c")
    if "C17.a" in want and not getattr(ctx, "_id_plumbing", False):
        ctx._id_plumbing = True
        id_plumbing(ctx, "C17.a")

    def ob(rule, key, ok, detail, loc=""):
        if rule in want:
            ctx.ob(rule, key, ok, detail, loc)

    sid_w, sid_t = alias_width(F, "StateIDBase")
    grp_w, grp_t = alias_width(F, "StateGroupIDBase")
    ter_w, ter_t = alias_width(F, "TerminalIDBase")
    cc_w, cc_t = alias_width(F, "CharClassIDBase")
    if sid_w is None or grp_w is None or ter_w is None:
        ctx.missing("C17.a", "id base type aliases (StateIDBase/StateGroupIDBase/TerminalIDBase)")
        return
    ob("C17.a", "group-id-width>=state-id-width", grp_w >= sid_w,
       "StateGroupIDBase = %s (%d bit), StateIDBase = %s (%d bit): a partition can have as many groups as the automaton has states" % (grp_t, grp_w, sid_t, sid_w), "scnr/src/internal/ids.rs")
    ob("C03.d", "group-id-width>=state-id-width", grp_w >= sid_w,
       "StateGroupIDBase = %s (%d bit), StateIDBase = %s (%d bit): group ids must be injective" % (grp_t, grp_w, sid_t, sid_w), "scnr/src/internal/ids.rs")
    ob("C01.h", "terminal-id-width>=token-type-width", ter_w >= 64,
       "TerminalIDBase = %s (%d bit), token types are usize: a narrower terminal id reports token types modulo 2^%d" % (ter_t, ter_w, ter_w), "scnr/src/internal/ids.rs")
    ctx.sample({"rule": "C17.a", "widths": {"StateIDBase": sid_t, "StateGroupIDBase": grp_t, "TerminalIDBase": ter_t, "CharClassIDBase": cc_t}})
    n = 0
    narrowing = []
    for fn in sorted(F.fns.values(), key=lambda f: f.name):
        if fn.j.get("exp") and "impl_id" not in (fn.j.get("exp_outer") or ""):
            if "derive" in (fn.j.get("exp_outer") or fn.j.get("exp") or ""):
                continue
        for bb, i, s in fn.assigns():
            rv = s["rv"]
            if rv["k"] != "cast" or rv["ck"] != "IntToInt":
                continue
            if s.get("exp_outer", "").startswith("#[derive"):
                continue
            fw_, tw = WIDTH.get(rv["from"]), WIDTH.get(rv["to"])
            n += 1
            if fw_ is None or tw is None:
                ob("C17.a", "cast:%s:%s->%s" % (M.short_name(fn.name), rv["from"], rv["to"]), False, "cast between unknown integer types", fn.loc(bb, i))
                continue
            if tw >= fw_:
                continue
            role, e = role_of(fn, rv["op"])
            narrowing.append((M.short_name(fn.name), rv["from"], rv["to"], role, fn.loc(bb, i)))
            key = "cast:%s:%s->%s:%s" % (M.short_name(fn.name), rv["from"], rv["to"], role)
            if role == "user-token-type":
                ob("C01.h", key, False, "a user supplied token type is narrowed from %s to %s (%s): token types >= 2^%d are reported truncated" % (rv["from"], rv["to"], M.expr_str(e)[:80], tw), fn.loc(bb, i))
                ob("C17.a", key, True, "token type cast (reported under C01.h)", fn.loc(bb, i))
                continue
            ok = tw >= sid_w and role in ("count-or-index",) or (tw >= sid_w and role.startswith("parameter:"))
            ob("C17.a", key, ok,
               "%s as %s on a %s (%s): indices that count automaton states or groups must not pass through a type narrower than the state id (%d bit)%s" % (
                   rv["from"], rv["to"], role, M.expr_str(e)[:80], sid_w, "" if not ok else "; accepted under the memory-bound assumption (< 2^32 states/classes)"), fn.loc(bb, i))
            ob("C03.d", key, ok, "%s as %s in the minimizer/construction" % (rv["from"], rv["to"]), fn.loc(bb, i)) if "minimizer" in fn.name else None
    if "C17.a" in want:
        ctx.floor("C17.a", "integer casts audited", n, 10)
        ctx.sample({"rule": "C17.a", "narrowing_casts": [list(x) for x in narrowing]})
        ctx.assume("fewer than 2^32 automaton states / character classes: each state costs > 24 bytes plus a BTreeSet entry in state_map, i.e. > 100 GB before the bound is reached (usize -> u32 casts on counts are accepted under this assumption and listed in the evidence)")
