from . import sharing
LEVEL = "other"
EXPLANATION = ("Cache transparency by structure: the key type is the complete Vec<ScannerMode> whose Hash/PartialEq/Eq (and those of "
               "Pattern, Lookahead, TerminalID, ScannerModeID) are derived and read every field; path-sensitive abstract interpretation of "
               "ScannerCache::get shows hit => clone of the entry for the requested key, failed compile => no insert, successful compile "
               "=> insert(key from the same modes, that result); entries are never mutated; the cached and uncached constructors have "
               "equal call structure; both build functions go through the cache with the builder's own modes.")
RULES = {"C13.a", "C13.b", "C13.c", "C13.d", "C13.e", "C13.f"}


def check(ctx):
    sharing.analyze(ctx, RULES)
