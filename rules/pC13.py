from . import sharing
LEVEL = "other"
EXPLANATION = ("Cache transparency by structure: the key type is the complete Vec<ScannerMode> whose Hash/PartialEq/Eq (and those of "
               "Pattern, Lookahead, TerminalID, ScannerModeID) are derived and read every field; path-sensitive abstract interpretation of "
               "ScannerCache::get shows hit => clone of the entry for the requested key, failed compile => no insert, successful compile "
               "=> insert(key from the same modes, that result); entries are never mutated; the cached and uncached constructors have "
               "equal call structure; both build functions go through the cache with the builder's own modes. A failing build must fail with "
               "an Err, not a panic (the lock would be poisoned): build-path panic inventory C15.h.")
RULES = {"C13.a", "C13.b", "C13.c", "C13.d", "C13.e", "C13.f"}


def check(ctx):
    from .common import compiled_scanner_is_frozen
    compiled_scanner_is_frozen(ctx, "C02.m")   # nothing edits a compiled scanner after the pipeline produced it (closed writer sets)
    # (C14.d: the lock discipline — a failing build that blocks on the lock it already holds never returns its error and
    # stops every later build)
    # (C12.a: a hit hands out a *clone* of the entry; that is a private copy only if the compiled scanner's Clone impls are the
    # derived ones and no interior-mutable cell is reachable from it — an `Arc<AtomicUsize>` field is shared by every clone)
    sharing.analyze(ctx, RULES | {"C14.d", "C12.a"})
    # 'a build that fails returns an error without affecting later builds': the compilation runs under the cache's write
    # lock, so a panic there (instead of an Err) poisons the lock and every later build panics: the build-path panic
    # inventory (with the partition invariants its reasons cite) and the build path's error discipline belong here as well
    from . import panics
    panics.analyze(ctx, {"C15.h"})
    from . import error_rules
    error_rules.analyze(ctx, "C15.i")     # a failing build returns its error: none is discarded on the way
