from . import cursor
LEVEL = "other"
EXPLANATION = ("Offset-kind analysis (units-of-measure discipline over byte offsets: Abs = offset into the haystack, Rel = "
               "relative to the last reset, Base = the reset offset, Len) computed by abstract interpretation of the MIR of "
               "set_offset/advance_to/advance_beyond_match/next_match/peek_n: public positions are Abs, cursor positions Rel, "
               "comparisons need equal kinds, Rel+Base=Abs exactly once; reset is total and writes only cursor fields; the "
               "stored offset equals the base of the new cursor and is clamped. Token-stream equality with a fresh scan of "
               "input[o..] is not decided separately (it follows from these clauses plus C04.c).")
RULES = {"C10.a", "C10.b", "C10.c", "C01.e", "C04.c", "C09.a"}


def check(ctx):
    ctx.assume("offsets passed to set_offset/with_offset lie on character boundaries (property quantifier)")
    # (C11.a: nothing but the cursor fields survives from one call to the next, so resetting the cursor resets everything a scan
    # depends on — a memo of the scanner, an automaton or a lookahead keyed by a *relative* position is stale after a reset)
    cursor.analyze(ctx, RULES | {"C11.d", "C11.b", "C11.a"})   # advance_to(end of a peeked match): the peeked spans must be the coming ones, also after a reset
    # (C06.e: offsets count from the start of the caller's input: the iterator is created over that very string)
    from . import pC06
    pC06.fresh_iterator_rules(ctx)
    pC06.mode_forward_rules(ctx)    # (C06.g: only set_offset / with_offset reposition: the mode operations of the wrappers do not touch the cursor)
    from .common import cache_foundation
    cache_foundation(ctx)
