"""C02.d / C02.e — the ε-closure construction (From<MultiPatternNfa>, From<Nfa>) and the
multi-pattern renumbering, checked as siblings with the same obligations."""
import re

from . import mirlib as M
from . import symex as S
from .common import LogModel, run_fn, ret_paths, variant_of, argval, argstr, search_table, is_eq_of

ADAPTERS = r"Iterator>::(skip|take|filter|step_by|rev|skip_while|take_while|chain|zip)\b"


def is_accepting_push(callee):
    """push onto the list of (state, terminal) pairs — a tuple, or a small struct the rules do not know (taken as a tuple)"""
    m = re.search(r"Vec::<(.*)>::push$", callee)
    return bool(m) and (re.match(r"^\(.*StateSetID, usize\)$", m.group(1)) is not None or S.is_unknown_struct(m.group(1)))


def is_map_size(v):
    """The value is the size of the id map itself — through casts and the id newtype only, not a value computed from it
    (`len() - 1` gives the second closure the id of the start state)."""
    n = 0
    while n < 8 and (v[0] == "cast" or (v[0] == "adt" and str(v[1]).startswith("internal::ids::") and len(v[3]) == 1)
                     or (v[0] == "app" and re.search(r"internal::ids::\w+::new$|From<\w+>>::from$|Into<.*>>::into$", str(v[1])) and len(v[2]) == 1)):
        v = v[2] if v[0] == "cast" else (v[3][0] if v[0] == "adt" else v[2][0])
        n += 1
    return v[0] == "app" and re.search(r"HashMap::<.*>::len$", str(v[1])) is not None


def analyze(ctx, want):
    F = ctx.facts

    def ob(rule, key, ok, detail, loc=""):
        if rule in want:
            ctx.ob(rule, key, ok, detail, loc)

    ctx.trust("textbook theorem: the ε-closure (subset-style) construction preserves the accepted labels when every closure is explored, every match transition of every member is copied to the closure of its target, and a closure is accepting iff it contains an end state")

    for pat, src, tag in ((r"CompiledDfa as std::convert::From<internal::multi_pattern_nfa::MultiPatternNfa>>::from$", "mp_nfa", "multi"),
                          (r"CompiledDfa as std::convert::From<internal::nfa::Nfa>>::from$", "nfa", "single")):
        fn = F.fn(pat)
        ctx.analysed_fn(fn)
        # (any/find are read as terms here; the entry API as the two cases it stands for; a work list kept as "the ids from
        # `processed` up to the size of the map" — instead of a queue — is analysed with the counter as a symbol)
        ex, paths = run_fn(fn, F, LogModel(), max_paths=6000, desugar=r"Entry::<.*>::or_insert_with|iter::Iterator>::for_each", inline=r"ids::StateSetID::new$", worklist_counters=True)
        counter_form = bool(ex.index_loops) and not list(fn.calls(r"VecDeque::<.*>::(push_back|pop_front)$"))

        def is_counter(v):
            # the id made of the work-list position: StateSetID::new(index@bbH as _)
            while v[0] in ("cast",) or (v[0] == "adt" and str(v[1]).startswith("internal::ids::") and len(v[3]) == 1):
                v = v[2] if v[0] == "cast" else v[3][0]
            return v[0] == "sym" and str(v[1]).startswith("index@bb")
        if ex.truncated:
            ctx.missing("C02.d", "path enumeration of %s truncated" % fn.name)
            continue
        # --- d1 seed
        seeded = False
        for p in paths:
            ins = p.calls(r"HashMap::<.*>::insert$")
            pb = p.calls(r"VecDeque::<.*>::push_back$")
            ec = p.calls(r"(MultiPatternNfa|Nfa)::epsilon_closure$")
            if ins and (pb or counter_form) and ec:
                k = argval(ins[0], 1)
                start_arg = ec[0][3][1]
                ok_start = start_arg == ("int", 0) or S.fstr(start_arg) in ("nfa.start_state",)
                ok_key = S.mentions(k, lambda x: x == ec[0][4])
                # (counter form: the work list starts at position 0 — that is what made the counter a symbol, see find_index_loops)
                ok_id = argval(ins[0], 2) == ("int", 0) and (argval(pb[0], 1) == ("int", 0) if pb else counter_form)
                seeded = ok_start and ok_key and ok_id
                break
        ob("C02.d", "%s:work-list-seeded-with-the-start-closure-as-state-0" % tag, seeded, "state_map.insert(closure(start), 0); queue.push_back(0)", fn.loc())
        # --- d2 loop exit only when the queue is empty
        exits = [p for p in paths if p.end[0] == "return"]
        ok_exit = bool(exits)
        for p in exits:
            pf = [(c, o) for c, o in p.conds if c[0] == "discr" and "pop_front" in S.fstr(c)]
            if counter_form:
                # position < number of known closures is false: every known closure was processed
                gd = [(c, o) for c, o in p.conds if c[0] == "binop" and c[1] == "Lt" and is_counter(c[2]) and re.search(r"HashMap::<.*>::len$|::len$", str(c[3][1]) if c[3][0] == "app" else "")]
                ok_exit = ok_exit and bool(gd) and gd[-1][1] is False and len(p.conds) == len(gd)
                continue
            ok_exit = ok_exit and bool(pf) and pf[-1][1] == 0 and len(p.conds) == len(pf)
        ob("C02.d", "%s:exploration-runs-until-the-queue-is-empty" % tag, ok_exit, "%d exit path(s); each leaves the loop only on pop_front() == None" % len(exits), fn.loc())
        # --- d3..d5 inner loop body
        body = 0
        acc_cases = set()
        analysed_push_bbs = set()
        id_cases = set()
        for p in paths:
            ti = p.calls(r"HashSet::<.*>::insert$")
            gm = p.calls(r"(MultiPatternNfa|Nfa)::get_match_transitions(::<|$)")
            ecs = p.calls(r"(MultiPatternNfa|Nfa)::epsilon_closure$")
            ent = p.calls(r"HashMap::<.*>::entry$")
            if not ent:
                # `match map.get(&closure) { Some(id) => *id, None => { let id = ..len(); map.insert(closure.clone(), id); .. } }`:
                # the lookup is the `get`; on its None side the same key must be inserted
                gets_ = [e for e in p.calls(r"HashMap::<.*>::get(::<.*>)?$") if ecs and S.mentions(argval(e, 1), lambda x: x == ecs[-1][4])]
                if gets_:
                    g_ = gets_[-1]
                    kv_ = ex.known_variant(p, g_[4])
                    ins_ = [e for e in p.events[p.events.index(g_):] if e[0] == "call" and re.search(r"HashMap::<.*>::insert$", e[2]) and S.mentions(argval(e, 1), lambda x: x == ecs[-1][4])]
                    if kv_ == "Some" or (kv_ == "None" and len(ins_) == 1):
                        ent = [g_]
            oi = p.calls(r"Entry::<.*>::or_insert_with::")
            if not gm:
                continue
            if p.end[0] == "cut" and not ti:
                # the path that leaves the inner loop (iterator exhausted) — fine
                nx = [e for e in p.events if e[0] == "call" and re.search(r"Iterator>::next$", e[2])]
                continue
            if not ti:
                continue
            body += 1
            # current closure -> match transitions of ALL its members
            ga = argval(gm[0], 1)
            ok_gm = S.mentions(ga, lambda x: x[0] == "app" and re.search(r"BTreeSet::<.*>::iter$", x[1]) is not None) and not S.mentions(ga, lambda x: x[0] == "app" and re.search(ADAPTERS, x[1]) is not None)
            ob("C02.d", "%s:transitions-of-every-member-of-the-closure" % tag, ok_gm, "get_match_transitions(%s)" % S.fstr(ga)[:120], fn.loc(gm[0][1]))
            item = None
            for e in p.events:
                if e[0] == "call" and re.search(r"Iterator>::next$", e[2]) and "IntoIter<(" in e[2]:
                    pass
            # target closure
            tc = ecs[-1] if ecs else None
            tgt = tc[3][1] if tc else None
            ok_t = tgt is not None and re.search(r"item@bb\d+\.1$", S.fstr(tgt)) is not None
            ob("C02.d", "%s:closure-of-the-transition-target" % tag, ok_t, "epsilon_closure(%s)" % (S.fstr(tgt) if tgt else None), fn.loc())
            tup = argval(ti[0], 1)
            ok_ins = tup[0] == "tuple" and len(tup[1]) == 3
            to = None
            if ok_ins:
                frm, cc, to = tup[1]
                ok_from = "pop_front" in S.fstr(frm) or (counter_form and is_counter(frm))
                ok_cc = tgt is not None and S.fstr(cc) == S.fstr(tgt)[:-2] + ".0"
                # the id of the target closure: the one stored for it (known closure), or a fresh one that is enqueued and
                # numbered by the current size of the map (entry().or_insert_with(..), a match on the Entry, ...)
                i_ent = p.events.index(ent[0]) if ent else 0
                pbs = [e for e in p.events[i_ent:] if e[0] == "call" and re.search(r"VecDeque::<.*>::push_back$", e[2])]
                newins = [e for e in p.events[i_ent:] if e[0] == "entry-insert"]
                if counter_form and newins:
                    # counter form: a new closure needs no enqueueing — it gets the next id (the size of the map), and ids up to
                    # the size of the map are what the outer loop works through
                    id_cases.add("new")
                    x = newins[-1][3]
                    x = ex.deref_val(p, x) if x[0] == "ref" else x
                    sized = is_map_size(x)

                    def bare(v):
                        while v[0] in ("cast",) or (v[0] == "adt" and str(v[1]).startswith("internal::ids::") and len(v[3]) == 1):
                            v = v[2] if v[0] == "cast" else v[3][0]
                        return v
                    ok_new = len(newins) == 1 and sized and (to == x or bare(to) == bare(x) or S.mentions(to, lambda y: y == x or y == bare(x)))
                    ob("C02.d", "%s:new-state-enqueued-and-numbered-by-the-map-size" % tag, ok_new, "new closure stored with id %s; transition target id %s" % (S.fstr(x)[:60], S.fstr(to)[:60]), fn.loc())
                    ok_to = ok_new
                elif pbs:
                    id_cases.add("new")
                    x = argval(pbs[-1], 1)
                    sized = is_map_size(x)
                    def bare(v):
                        while v[0] in ("cast",) or (v[0] == "adt" and str(v[1]).startswith("internal::ids::") and len(v[3]) == 1):
                            v = v[2] if v[0] == "cast" else v[3][0]
                        return v
                    ok_new = len(pbs) == 1 and sized and (to == x or bare(to) == bare(x) or S.mentions(to, lambda y: y == x or y == bare(x)))
                    ob("C02.d", "%s:new-state-enqueued-and-numbered-by-the-map-size" % tag, ok_new, "push_back(%s); transition target id %s" % (S.fstr(x)[:60], S.fstr(to)[:60]), fn.loc())
                    ok_to = ok_new
                else:
                    id_cases.add("known")
                    ok_to = bool(ent) and S.mentions(to, lambda y: y == ent[0][4])
                ok_ins = ok_from and ok_cc and ok_to
            ob("C02.d", "%s:transition-(current, class, id-of-target-closure)-recorded" % tag, bool(ok_ins), "transitions.insert(%s)" % S.fstr(tup)[:160], fn.loc(ti[0][1]))
            # id lookup keyed by the target closure
            ok_ent = bool(ent) and tc is not None and S.mentions(argval(ent[0], 1), lambda x: x == tc[4])
            ob("C02.d", "%s:state-id-looked-up-by-the-target-closure" % tag, ok_ent, "state_map.entry(%s)" % (S.fstr(argval(ent[0], 1))[:80] if ent else None), fn.loc())
            # acceptance
            if tag == "multi":
                anyc = [(c, o) for c, o in p.conds if c[0] == "app" and re.search(r"Iterator>::any::", c[1])]
                allc = [(c, o) for c, o in p.conds if c[0] == "app" and re.search(r"Iterator>::all::", c[1])]
                pushes = [e for e in p.events if e[0] == "call" and is_accepting_push(e[2])]
                analysed_push_bbs.update(e[1] for e in pushes if e[6] == fn.name)
                if allc:
                    ob("C02.d", "multi:accepting-iff-some-member-is-an-end-state", False, "acceptance is decided with all() over the closure", fn.loc())
                if anyc:
                    c, o = anyc[-1]
                    over = S.fstr(c[2][0])
                    ok_over = tc is not None and S.mentions(c, lambda x: x == tc[4])
                    ob("C02.d", "multi:acceptance-tested-on-the-target-closure", ok_over, "any over %s" % over[:100], fn.loc())
                    if o is True:
                        cont = [(cc_, oo) for cc_, oo in p.conds if cc_[0] == "app" and "contains" in cc_[1] and "accepting" not in ""]
                        dup = cont[-1][1] if cont else None
                        if dup is False or dup is None:
                            acc_cases.add("accepting")
                            ok = len(pushes) == 1
                            if ok:
                                pv = argval(pushes[0], 1)
                                fnf = p.calls(r"MultiPatternNfa::find_nfa$")
                                ok = pv[0] == "tuple" and to is not None and pv[1][0] == to and "Nfa::terminal_id" in S.fstr(pv[1][1]) and bool(fnf) and S.fstr(fnf[0][3][1]) == S.fstr(tgt) and S.mentions(pv[1][1], lambda x: x == fnf[0][4])
                            ob("C02.d", "multi:accepting-state-labelled-with-the-terminal-of-the-owning-nfa", ok, "accepting_states.push(%s)" % (S.fstr(argval(pushes[0], 1))[:140] if pushes else None), fn.loc())
                        else:
                            acc_cases.add("already")
                            ob("C02.d", "multi:no-duplicate-accepting-entry", not pushes, "already recorded: %d pushes" % len(pushes), fn.loc())
                    else:
                        acc_cases.add("non-accepting")
                        ob("C02.d", "multi:non-accepting-closure-not-labelled", not pushes, "%d pushes for a closure without end state" % len(pushes), fn.loc())
            else:
                cont = [(c, o) for c, o in p.conds if c[0] == "app" and re.search(r"BTreeSet::<.*>::contains", c[1])]
                pushes = [e for e in p.events if e[0] == "call" and is_accepting_push(e[2])]
                analysed_push_bbs.update(e[1] for e in pushes if e[6] == fn.name)
                if cont:
                    c, o = cont[0]
                    ok_end = "nfa.end_state" in S.fstr(c) and tc is not None and S.mentions(c, lambda x: x == tc[4])
                    ob("C02.d", "single:acceptance-is-membership-of-the-end-state", ok_end, "test %s" % S.fstr(c)[:120], fn.loc())
                    if o is True:
                        dup = [(cc_, oo) for cc_, oo in p.conds if cc_[0] == "app" and re.search(r"<impl \[.*\]>::contains$", cc_[1])]
                        if dup and dup[-1][1] is True:
                            acc_cases.add("already")
                        else:
                            acc_cases.add("accepting")
                            ok = len(pushes) == 1 and to is not None and S.mentions(argval(pushes[0], 1), lambda x: x == to) and "terminal_id" in S.fstr(argval(pushes[0], 1))
                            ob("C02.d", "single:accepting-state-labelled-with-the-pattern-terminal", ok, "push(%s)" % (S.fstr(argval(pushes[0], 1))[:120] if pushes else None), fn.loc())
                    else:
                        acc_cases.add("non-accepting")
                        ob("C02.d", "single:non-accepting-closure-not-labelled", not pushes, "%d pushes" % len(pushes), fn.loc())
        if "C02.d" in want:
            ctx.floor("C02.d", "%s: inner-loop body paths" % tag, body, 2)
        ob("C02.d", "%s:acceptance-cases-complete" % tag, {"accepting", "non-accepting"} <= acc_cases, "cases %s" % sorted(acc_cases), fn.loc())
        # closed set: every place that records an accepting state is one of those analysed above — the closure of a transition's
        # target.  (The start state is never recorded: the simulation reports nothing before a character is read, and the DOT
        # export draws state 0 as the start state only — seed C18k.)
        sites_ = sorted(bb_ for bb_, t_ in fn.calls() if is_accepting_push(M.call_name(t_)))
        extra_ = [bb_ for bb_ in sites_ if bb_ not in analysed_push_bbs]
        ob("C02.d", "%s:accepting-states-are-recorded-for-transition-targets-only" % tag, not extra_,
           "%d place(s) record an accepting state, %d outside the per-target analysis%s" % (len(sites_), len(extra_), (" (%s)" % ", ".join(fn.loc(b_) for b_ in extra_)) if extra_ else ""), fn.loc(extra_[0]) if extra_ else fn.loc())
        # --- d4 both cases of the id lookup occur (a fresh closure gets a new id and is enqueued; a known one keeps its id)
        ob("C02.d", "%s:known-and-new-closures-handled" % tag, id_cases == {"new", "known"}, "cases %s" % sorted(id_cases), fn.loc())
        # --- d6/d7 assembly of the automaton
        asm_ok = {"states": False, "trans": False, "ends": False}
        for p in paths:
            for e in p.events:
                if e[0] == "call" and re.search(r"Vec::<.*StateData>::push$", e[2]):
                    asm_ok["states"] = True
                # ... or all at once: extend(repeat_with(StateData::new).take(state_map.len())) / resize_with
                if e[0] == "call" and re.search(r"Vec<.*StateData> as std::iter::Extend<.*>>::extend|Vec::<.*StateData>::(extend|resize_with|resize)", e[2]):
                    a_ = S.fstr(argval(e, 1)) + " " + (S.fstr(argval(e, 2)) if len(e[3]) > 2 else "")
                    if re.search(r"HashMap::len\(", a_) and "StateData::new" in (a_ + str(e[3])):
                        asm_ok["states"] = True
                if e[0] == "call" and re.search(r"Vec::<\(.*CharClassID, .*StateSetID\)>::push$", e[2]):
                    v = argval(e, 1)
                    tgt = S.fstr(e[3][0])
                    m = re.search(r"(item@bb\d+)", S.fstr(v))
                    asm_ok["trans"] = v[0] == "tuple" and m is not None and S.fstr(v[1][0]) == m.group(1) + ".1" and S.fstr(v[1][1]) == m.group(1) + ".2" and (m.group(1) + ".0") in tgt
            for e in p.events:
                if e[0] == "write" and e[3] and e[4][0] == "tuple" and len(e[4][1]) == 2 and e[4][1][0] == ("bool", True):
                    idx = [st for st in e[3] if st[0] == "i"]
                    m = re.search(r"(item@bb\d+)", S.fstr(e[4]))
                    asm_ok["ends"] = bool(idx) and m is not None and S.fstr(idx[0][1]) == m.group(1) + ".0" and (m.group(1) + ".1") in S.fstr(e[4][1][1])
        ob("C02.d", "%s:one-state-per-closure" % tag, asm_ok["states"], "states are pushed in a loop over 0..state_map.len()", fn.loc())
        ob("C02.d", "%s:each-recorded-transition-installed-at-its-source" % tag, asm_ok["trans"], "states[from].transitions.push((cc, to)) for (from, cc, to) in transitions", fn.loc())
        ob("C02.d", "%s:accepting-flags-installed-at-their-state" % tag, asm_ok["ends"], "end_states[state] = (true, terminal) for (state, terminal) in accepting_states", fn.loc())
        # ... and only there: the table of accepting flags starts out all-false (a state nobody labelled accepts nothing)
        fills = []
        for p in paths:
            for e in p.events:
                if e[0] == "call" and re.search(r"vec::from_elem::<\(bool, .*TerminalID\)>$|Vec::<\(bool, .*TerminalID\)>::(resize|push)$|iter::repeat::<\(bool, .*TerminalID\)>$|iter::repeat_n::<\(bool, .*TerminalID\)>$", e[2]):
                    v_ = argval(e, 0) if re.search(r"from_elem|iter::repeat", e[2]) else argval(e, 2 if "resize" in e[2] else 1)
                    fills.append(v_)
            if fills:
                break
        ok_fill = bool(fills) and all(v_[0] == "tuple" and len(v_[1]) == 2 and v_[1][0] == ("bool", False) for v_ in fills)
        ob("C02.d", "%s:states-are-non-accepting-unless-labelled" % tag, ok_fill, "initial accepting flags: %s" % [S.fstr(v_)[:40] for v_ in fills][:3], fn.loc())
        its = [M.call_name(t) for bb, t in fn.calls(ADAPTERS) if not re.search(r"^<std::iter::Repeat(With|N)?<", M.call_name(t))]   # (repeat(..).take(n) builds n fresh values, it filters nothing)
        ob("C02.d", "%s:no-filter-in-the-construction" % tag, not its, "iterator adapters: %s" % its, fn.loc())
        # the result goes through the minimizer
        mz = [p for p in paths if p.calls(r"Minimizer::minimize$")]
        ob("C02.d", "%s:result-is-minimized" % tag, bool(mz), "Minimizer::minimize is applied to the constructed automaton", fn.loc())

    # ---------------------------------------------------------------- helpers of the construction
    ne = F.fn(r"internal::nfa::Nfa::epsilon_closure$")
    ctx.analysed_fn(ne)
    ex, paths = run_fn(ne, F, LogModel())
    seen = set()
    for p in paths:
        cont = [(c, o) for c, o in p.conds if c[0] == "app" and re.search(r"<impl \[.*\]>::contains$", c[1])]
        pu = p.calls(r"Vec::<.*StateID>::push$")
        if cont:
            c, o = cont[-1]
            if o is False:
                seen.add("new")
                ok = len(pu) == 1 and "EpsilonTransition::target_state" in S.fstr(argval(pu[0], 1)) or (len(pu) == 1 and "target_state" in S.fstr(argval(pu[0], 1)))
                ob("C02.d", "epsilon_closure:unseen-target-is-added", ok, "push(%s)" % (S.fstr(argval(pu[0], 1))[:80] if pu else None), ne.loc())
            else:
                seen.add("known")
                ob("C02.d", "epsilon_closure:known-target-not-added-twice", not pu, "%d pushes" % len(pu), ne.loc())
        if p.end[0] == "return":
            r = p.end[1]
            ok = S.mentions(r, lambda x: x == ("sym", "state"))
            ob("C02.d", "epsilon_closure:contains-the-state-itself", ok, "returns %s" % S.fstr(r)[:100], ne.loc())
            lt = [(c, o) for c, o in p.conds if c[0] == "binop" and c[1] == "Lt"]
            # (`while i < list.len()` or `while let Some(x) = list.get(i)`: the walk ends when the position is past the last entry)
            gt = [(c, o) for c, o in p.conds if c[0] in ("discr", "isvar") and c[1][0] == "app" and re.search(r"<impl \[.*\]>::get(::<.*>)?$", str(c[1][1]))]
            ok_end = (bool(lt) and lt[-1][1] is False and "len" in S.fstr(lt[-1][0])) or (bool(gt) and (gt[-1][1] == 0 if gt[-1][0][0] == "discr" else (gt[-1][0][2] == "None") == bool(gt[-1][1])))
            ob("C02.d", "epsilon_closure:work-list-processed-to-the-end", ok_end, "exit under %s" % [(S.fstr(c)[:60], o) for c, o in lt + gt], ne.loc())
    ob("C02.d", "epsilon_closure:both-cases", seen == {"new", "known"}, "cases %s" % sorted(seen), ne.loc())
    its = [M.call_name(t) for bb, t in ne.calls(ADAPTERS)]
    ob("C02.d", "epsilon_closure:all-epsilon-transitions-followed", not its and any(re.search(r"NfaState::epsilon_transitions$", M.call_name(t)) for bb, t in ne.calls()), "adapters %s" % its, ne.loc())

    me = F.fn(r"MultiPatternNfa::epsilon_closure$")
    ctx.analysed_fn(me)
    # (a search delegated to find_nfa is the same search: analysed in place)
    ex, paths = run_fn(me, F, LogModel(), inline=r"MultiPatternNfa::find_nfa$")

    def zero_test(p):
        # is this the path for state 0?  (`== 0`, `!= 0`, a match on the number: any spelling)
        for c, o in p.conds:
            if c[0] == "binop" and c[1] in ("Eq", "Ne") and isinstance(o, bool) and ("int", 0) in (c[2], c[3]) and "state" in S.fstr(c) and "item@" not in S.fstr(c):
                return o if c[1] == "Eq" else (not o)
            if c[0] not in ("binop", "app", "discr", "isvar", "not", "cmp") and "state" in S.fstr(c) and "item@" not in S.fstr(c):
                if o == 0 and not isinstance(o, bool):
                    return True
                if isinstance(o, tuple) and o and o[0] == "otherwise" and 0 in o[1]:
                    return False
        return None
    zero = [p for p in paths if zero_test(p) is True]
    nonzero = [p for p in paths if zero_test(p) is False]
    okz = False
    for p in zero:
        ec = p.calls(r"internal::nfa::Nfa::epsilon_closure$")
        if ec:
            okz = "Nfa::start_state" in S.fstr(ec[0][3][1]) and "item@" in S.fstr(ec[0][3][0])
    ob("C02.d", "multi-epsilon_closure:state-0-is-the-union-over-all-pattern-starts", okz, "for state 0: closure(nfa.start_state()) of every nfa", me.loc())
    its = [M.call_name(t) for bb, t in me.calls(ADAPTERS)]
    ob("C02.d", "multi-epsilon_closure:all-nfas-visited", not its, "adapters %s" % its, me.loc())
    # any other state: the closure is computed inside the NFA that contains the state (search over all NFAs, whatever its form)
    st = search_table(ex, nonzero)
    okn = bool(st["hit"]) and all("self.nfas" in x for x in st["source"])
    for r, ic, p in st["hit"]:
        sel = [c for c, o in ic if o is True and c[0] == "app" and re.search(r"Nfa::contains_state$", c[1]) and S.fstr(c[2][1]) == "state"]
        ecs = [e for e in p.calls(r"internal::nfa::Nfa::epsilon_closure$")]
        item = re.search(r"item@bb\d+", S.fstr(sel[0])) if sel else None
        okn = okn and bool(sel) and len(ecs) == 1 and item is not None and item.group(0) in S.fstr(ecs[0][3][0]) and S.fstr(ecs[0][3][1]) == "state" and S.mentions(r, lambda x: x == ecs[0][4])
    for ic, p in st["miss"]:
        okn = okn and any(o is False and c[0] == "app" and re.search(r"Nfa::contains_state$", c[1]) for c, o in ic)
    ob("C02.d", "multi-epsilon_closure:other-states-use-their-own-nfa", okn, "closure within the nfa that contains the state (hits: %s)" % [S.fstr(r)[:60] for r, _, _ in st["hit"]], me.loc())

    for pat, tag in ((r"MultiPatternNfa::get_match_transitions$", "multi"), (r"internal::nfa::Nfa::get_match_transitions$", "single")):
        gm = F.fn(pat)
        ctx.analysed_fn(gm)
        ex, paths = run_fn(gm, F, LogModel())
        n = 0
        for p in paths:
            pu = p.calls(r"Vec::<\(.*CharClassID, .*StateID\)>::push$")
            for e in pu:
                n += 1
                v = argval(e, 1)
                s_ = S.fstr(v)
                m = re.search(r"(item@bb\d+)", s_)
                ok = v[0] == "tuple" and "char_class" in S.fstr(v[1][0]) and "target_state" in S.fstr(v[1][1]) and m is not None and S.fstr(v[1][0]).count(m.group(1)) >= 1 and m.group(1) in S.fstr(v[1][1])
                ob("C02.d", "%s-get_match_transitions:pair-of-the-same-transition" % tag, ok, "push(%s)" % s_[:120], gm.loc(e[1]))
            if p.end[0] == "return":
                r = p.end[1]
                sr = S.fstr(r)
                ok = "dedup" in sr and not re.search(r"dedup_by|retain|truncate|drain", sr)
                ob("C02.d", "%s-get_match_transitions:only-exact-duplicates-removed" % tag, ok, "returns %s" % sr[:100], gm.loc())
        # the same collection written as an iterator chain: flat_map over the transitions of every state, mapped to the
        # (class, target) pair of the same transition, collected
        for c_ in F.closures_of(gm):
            ex_c, ps_c = run_fn(c_, F, LogModel())
            for q in ret_paths(ps_c):
                v = q.end[1]
                if v[0] == "tuple" and len(v[1]) == 2 and "char_class" in S.fstr(v[1][0]) and "target_state" in S.fstr(v[1][1]):
                    n += 1
                    a_ = re.sub(r"^.*?char_class\(", "", S.fstr(v[1][0]))
                    b_ = re.sub(r"^.*?target_state\(", "", S.fstr(v[1][1]))
                    ob("C02.d", "%s-get_match_transitions:pair-of-the-same-transition" % tag, a_ == b_, "pair (%s, %s)" % (S.fstr(v[1][0])[:50], S.fstr(v[1][1])[:50]), c_.loc())
        its = [M.call_name(t) for bb, t in gm.calls(ADAPTERS)]
        ob("C02.d", "%s-get_match_transitions:all-states-and-transitions-visited" % tag, n >= 1 and not its, "%d push sites; adapters %s" % (n, its), gm.loc())
    def search_rule(fn_rx, key, src_word, hit_value, miss_value, cond_ok, inline=None):
        """fn searches `src_word` for the first element with cond_ok(cond); hit_value(ret, item) / miss_value(ret)"""
        fn_ = F.fn(fn_rx)
        ctx.analysed_fn(fn_)
        ex_, ps_ = run_fn(fn_, F, LogModel(), inline=inline)
        st_ = search_table(ex_, ps_)
        ok = bool(st_["hit"]) and bool(st_["exhausted"]) and bool(st_["source"]) and all(src_word in x for x in st_["source"])
        det = []
        for r, ic, p in st_["hit"]:
            good = [c for c, o in ic if o is True and cond_ok(c)]
            item = re.search(r"item@bb\d+", S.fstr(good[0])) if good else None
            if not (good and item and hit_value(r, item.group(0))):
                ok = False
                det.append("hit returns %s under %s" % (S.fstr(r)[:50], [(S.fstr(c)[:50], o) for c, o in ic]))
        for ic, p in st_["miss"]:
            if not any(o is False and cond_ok(c) for c, o in ic):
                ok = False
                det.append("goes on to the next element under %s" % [(S.fstr(c)[:50], o) for c, o in ic])
        for r, p in st_["exhausted"]:
            if not miss_value(r):
                ok = False
                det.append("without a matching element returns %s" % S.fstr(r)[:50])
        its_ = [M.short_name(M.call_name(t)) for bb, t in fn_.calls(ADAPTERS)]
        ob("C02.d", key, ok and not its_, "; ".join(det) or "search over %s (adapters %s)" % (sorted(set(st_["source"]))[:2], its_), fn_.loc())

    is_true = lambda r, item: r == ("bool", True)
    is_false = lambda r: r == ("bool", False)
    is_some_item = lambda r, item: r[0] == "adt" and r[2] == "Some" and S.fstr(r[3][0]).lstrip("&*") == item
    is_none = lambda r: r[0] == "adt" and r[2] == "None"
    search_rule(r"MultiPatternNfa::is_accepting_state$", "is_accepting_state:some-nfa-ends-there", "self.nfas", is_true, is_false,
                lambda c: is_eq_of(c, r"item@bb\d+\)?\.end_state$|Nfa::end_state\(&?\*?item@", r"^state$"), inline=r"Nfa::end_state$")
    search_rule(r"MultiPatternNfa::find_nfa$", "find_nfa:first-nfa-containing-the-state", "self.nfas", is_some_item, is_none,
                lambda c: c[0] == "app" and re.search(r"Nfa::contains_state$", c[1]) is not None and "item@" in S.fstr(c[2][0]) and S.fstr(c[2][1]) in ("state", "state_id"))
    search_rule(r"internal::nfa::Nfa::contains_state$", "contains_state:any-state-with-that-id", "self.states", is_true, is_false,
                lambda c: is_eq_of(c, r"item@bb\d+\)?\.state$", r"^state$"), inline=r"NfaState::id$|internal::nfa::Nfa::find_state$")
    search_rule(r"internal::nfa::Nfa::find_state$", "find_state:first-state-with-that-id", "self.states", is_some_item, is_none,
                lambda c: is_eq_of(c, r"item@bb\d+\)?\.state$", r"^state$"), inline=r"NfaState::id$")

    # ---------------------------------------------------------------- C02.e renumbering
    tp = F.fn(r"MultiPatternNfa::try_from_patterns$")
    ctx.analysed_fn(tp)
    ex, paths = run_fn(tp, F, LogModel(), max_paths=20000)
    okp = 0
    ns_name = "next_state"
    for bb_, t_ in tp.calls(r"Nfa::shift_ids$"):
        # the counter is the variable handed to shift_ids as the offset — whatever it is called
        if len(t_["args"]) > 1 and t_["args"][1].get("k") in ("copy", "move") and not t_["args"][1]["p"]["pj"]:
            l_ = t_["args"][1]["p"]["l"]
            n_ = tp.names().get(l_)
            if n_ is None:
                d_ = tp.single_def(l_)
                if d_ and d_["kind"] == "assign" and d_["stmt"]["rv"]["k"] == "use" and d_["stmt"]["rv"]["op"].get("k") in ("copy", "move") and not d_["stmt"]["rv"]["op"]["p"]["pj"]:
                    n_ = tp.names().get(d_["stmt"]["rv"]["op"]["p"]["l"])
            if n_:
                ns_name = n_
    for p in paths:
        sh = p.calls(r"Nfa::shift_ids$")
        if not sh:
            continue
        okp += 1
        off = sh[0][3][1]
        hs = p.calls(r"Nfa::highest_state_number$")
        # next_state after the pattern = highest state number of the SHIFTED nfa + 1
        ns = None
        # (the counter is the variable handed to shift_ids as the offset — whatever it is called)
        if off[0] == "sym" and str(off[1]) in tp.names().values():
            ns_name = str(off[1])
        l_ns = [l for l, n in tp.names().items() if n == ns_name]
        if l_ns:
            ns = p.locals.get((ex.fid, l_ns[0]))
        lin, c = S.linear(ns) if ns is not None else ({}, None)
        ok_ns = c == 1 and len(lin) == 1 and bool(hs) and S.mentions(ns, lambda x: x == hs[0][4]) and p.events.index(hs[0]) > p.events.index(sh[0])
        ob("C02.e", "next-pattern-starts-above-the-highest-state", ok_ns, "next_state := %s (after shift_ids)" % (S.fstr(ns)[:80] if ns else None), tp.loc())
        ok_off = S.fstr(off) in (ns_name, "1") or off == ("int", 1)
        ob("C02.e", "nfa-shifted-by-next_state", ok_off, "shift_ids(%s)" % S.fstr(off), tp.loc(sh[0][1]))
        stp = [e for e in p.events if e[0] == "call" and re.search(r"Vec::<.*EpsilonTransition>::push$", e[2])]
        ok_st = len(stp) == 1 and S.mentions(argval(stp[0], 1), lambda x: x == ("field", sh[0][4], "0"))
        ob("C02.e", "start-transition-to-the-shifted-start", ok_st, "start_transitions.push(%s)" % (S.fstr(argval(stp[0], 1))[:80] if stp else None), tp.loc())
        ap = p.calls(r"MultiPatternNfa::add_pattern$")
        an = p.calls(r"MultiPatternNfa::add_nfa$")
        ok_add = len(ap) == 1 and len(an) == 1 and "item@" in S.fstr(argval(ap[0], 1)) and p.events.index(an[0]) > p.events.index(sh[0])
        ob("C02.e", "pattern-and-shifted-nfa-stored-together", ok_add, "add_pattern(%s), add_nfa after the shift" % (S.fstr(argval(ap[0], 1))[:60] if ap else None), tp.loc())
    if "C02.e" in want:
        ctx.floor("C02.e", "successful-pattern paths of try_from_patterns", okp, 1)
    # initial next_state = 1 (state 0 is the common start)
    init = None
    for bb, i, s in tp.assigns():
        if tp.names().get(s["p"]["l"]) == ns_name and not s["p"]["pj"] and s["rv"]["k"] == "use" and s["rv"]["op"]["k"] == "const":
            init = s["rv"]["op"].get("val")
    ob("C02.e", "state-0-reserved-for-the-common-start", init == 1, "initial next_state = %s" % init, tp.loc())
    hn = F.fn(r"internal::nfa::Nfa::highest_state_number$")
    ex, paths = run_fn(hn, F, LogModel())
    rs_ = [S.fstr(p.end[1]) for p in ret_paths(paths)]
    ok_max = any(re.search(r"max_by(_key)?\(|Iterator>::max\(", r) and "self.states" in r and "min" not in r for r in rs_) and all(r == "0" or (re.search(r"max", r) and "self.states" in r) for r in rs_)
    ob("C02.e", "highest_state_number-is-the-maximum-id", ok_max, "returns %s" % [r[:80] for r in rs_], hn.loc())
