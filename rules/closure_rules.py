"""C02.d / C02.e — the ε-closure construction (From<MultiPatternNfa>, From<Nfa>) and the
multi-pattern renumbering, checked as siblings with the same obligations."""
import re

from . import mirlib as M
from . import symex as S
from .common import LogModel, run_fn, ret_paths, variant_of, argval, argstr

ADAPTERS = r"Iterator>::(skip|take|filter|step_by|rev|skip_while|take_while|chain|zip)\b"


def analyze(ctx, want):
    F = ctx.facts

    def ob(rule, key, ok, detail, loc=""):
        if rule in want:
            ctx.ob(rule, key, ok, detail, loc)

    ctx.trust("textbook theorem: the ε-closure (subset-style) construction preserves the accepted labels when every closure is explored, every match transition of every member is copied to the closure of its target, and a closure is accepting iff it contains an end state")

    for pat, src, tag in ((r"CompiledDfa as std::convert::From<internal::multi_pattern_nfa::MultiPatternNfa>>::from$", "mp_nfa", "multi"),
                          (r"CompiledDfa as std::convert::From<internal::nfa::Nfa>>::from$", "nfa", "single")):
        fn = F.fn(pat)
        ctx.analysed_fn(fn)
        ex, paths = run_fn(fn, F, LogModel(), max_paths=6000)
        if ex.truncated:
            ctx.missing("C02.d", "path enumeration of %s truncated" % fn.name)
            continue
        # --- d1 seed
        seeded = False
        for p in paths:
            ins = p.calls(r"HashMap::<.*>::insert$")
            pb = p.calls(r"VecDeque::<.*>::push_back$")
            ec = p.calls(r"(MultiPatternNfa|Nfa)::epsilon_closure$")
            if ins and pb and ec:
                k = argval(ins[0], 1)
                start_arg = ec[0][3][1]
                ok_start = start_arg == ("int", 0) or S.fstr(start_arg) in ("nfa.start_state",)
                ok_key = S.mentions(k, lambda x: x == ec[0][4])
                ok_id = argval(ins[0], 2) == ("int", 0) and argval(pb[0], 1) == ("int", 0)
                seeded = ok_start and ok_key and ok_id
                break
        ob("C02.d", "%s:work-list-seeded-with-the-start-closure-as-state-0" % tag, seeded, "state_map.insert(closure(start), 0); queue.push_back(0)", fn.loc())
        # --- d2 loop exit only when the queue is empty
        exits = [p for p in paths if p.end[0] == "return"]
        ok_exit = bool(exits)
        for p in exits:
            pf = [(c, o) for c, o in p.conds if c[0] == "discr" and "pop_front" in S.fstr(c)]
            ok_exit = ok_exit and bool(pf) and pf[-1][1] == 0 and len(p.conds) == len(pf)
        ob("C02.d", "%s:exploration-runs-until-the-queue-is-empty" % tag, ok_exit, "%d exit path(s); each leaves the loop only on pop_front() == None" % len(exits), fn.loc())
        # --- d3..d5 inner loop body
        body = 0
        acc_cases = set()
        for p in paths:
            ti = p.calls(r"HashSet::<.*>::insert$")
            gm = p.calls(r"(MultiPatternNfa|Nfa)::get_match_transitions(::<|$)")
            ecs = p.calls(r"(MultiPatternNfa|Nfa)::epsilon_closure$")
            ent = p.calls(r"HashMap::<.*>::entry$")
            oi = p.calls(r"Entry::<.*>::or_insert_with::")
            if not gm:
                continue
            if p.end[0] == "cut" and not ti:
                # the path that leaves the inner loop (iterator exhausted) — fine
                nx = [e for e in p.events if e[0] == "call" and re.search(r"Iterator>::next$", e[2])]
                continue
            if not ti:
                continue
            body += 1
            # current closure -> match transitions of ALL its members
            ga = argval(gm[0], 1)
            ok_gm = S.mentions(ga, lambda x: x[0] == "app" and re.search(r"BTreeSet::<.*>::iter$", x[1]) is not None) and not S.mentions(ga, lambda x: x[0] == "app" and re.search(ADAPTERS, x[1]) is not None)
            ob("C02.d", "%s:transitions-of-every-member-of-the-closure" % tag, ok_gm, "get_match_transitions(%s)" % S.fstr(ga)[:120], fn.loc(gm[0][1]))
            item = None
            for e in p.events:
                if e[0] == "call" and re.search(r"Iterator>::next$", e[2]) and "IntoIter<(" in e[2]:
                    pass
            # target closure
            tc = ecs[-1] if ecs else None
            tgt = tc[3][1] if tc else None
            ok_t = tgt is not None and re.search(r"item@bb\d+\.1$", S.fstr(tgt)) is not None
            ob("C02.d", "%s:closure-of-the-transition-target" % tag, ok_t, "epsilon_closure(%s)" % (S.fstr(tgt) if tgt else None), fn.loc())
            tup = argval(ti[0], 1)
            ok_ins = tup[0] == "tuple" and len(tup[1]) == 3
            if ok_ins:
                frm, cc, to = tup[1]
                ok_from = "pop_front" in S.fstr(frm)
                ok_cc = tgt is not None and S.fstr(cc) == S.fstr(tgt)[:-2] + ".0"
                ok_to = bool(oi) and S.mentions(to, lambda x: x == oi[0][4])
                ok_ins = ok_from and ok_cc and ok_to
            ob("C02.d", "%s:transition-(current, class, id-of-target-closure)-recorded" % tag, bool(ok_ins), "transitions.insert(%s)" % S.fstr(tup)[:160], fn.loc(ti[0][1]))
            # id lookup keyed by the target closure
            ok_ent = bool(ent) and tc is not None and S.mentions(argval(ent[0], 1), lambda x: x == tc[4])
            ob("C02.d", "%s:state-id-looked-up-by-the-target-closure" % tag, ok_ent, "state_map.entry(%s)" % (S.fstr(argval(ent[0], 1))[:80] if ent else None), fn.loc())
            # acceptance
            if tag == "multi":
                anyc = [(c, o) for c, o in p.conds if c[0] == "app" and re.search(r"Iterator>::any::", c[1])]
                allc = [(c, o) for c, o in p.conds if c[0] == "app" and re.search(r"Iterator>::all::", c[1])]
                pushes = [e for e in p.events if e[0] == "call" and re.search(r"Vec::<\(.*StateSetID, usize\)>::push$", e[2])]
                if allc:
                    ob("C02.d", "multi:accepting-iff-some-member-is-an-end-state", False, "acceptance is decided with all() over the closure", fn.loc())
                if anyc:
                    c, o = anyc[-1]
                    over = S.fstr(c[2][0])
                    ok_over = tc is not None and S.mentions(c, lambda x: x == tc[4])
                    ob("C02.d", "multi:acceptance-tested-on-the-target-closure", ok_over, "any over %s" % over[:100], fn.loc())
                    if o is True:
                        cont = [(cc_, oo) for cc_, oo in p.conds if cc_[0] == "app" and "contains" in cc_[1] and "accepting" not in ""]
                        dup = cont[-1][1] if cont else None
                        if dup is False or dup is None:
                            acc_cases.add("accepting")
                            ok = len(pushes) == 1
                            if ok:
                                pv = argval(pushes[0], 1)
                                fnf = p.calls(r"MultiPatternNfa::find_nfa$")
                                ok = pv[0] == "tuple" and S.mentions(pv[1][0], lambda x: x == oi[0][4]) and "Nfa::terminal_id" in S.fstr(pv[1][1]) and bool(fnf) and S.fstr(fnf[0][3][1]) == S.fstr(tgt) and S.mentions(pv[1][1], lambda x: x == fnf[0][4])
                            ob("C02.d", "multi:accepting-state-labelled-with-the-terminal-of-the-owning-nfa", ok, "accepting_states.push(%s)" % (S.fstr(argval(pushes[0], 1))[:140] if pushes else None), fn.loc())
                        else:
                            acc_cases.add("already")
                            ob("C02.d", "multi:no-duplicate-accepting-entry", not pushes, "already recorded: %d pushes" % len(pushes), fn.loc())
                    else:
                        acc_cases.add("non-accepting")
                        ob("C02.d", "multi:non-accepting-closure-not-labelled", not pushes, "%d pushes for a closure without end state" % len(pushes), fn.loc())
            else:
                cont = [(c, o) for c, o in p.conds if c[0] == "app" and re.search(r"BTreeSet::<.*>::contains", c[1])]
                pushes = [e for e in p.events if e[0] == "call" and re.search(r"Vec::<\(.*StateSetID, usize\)>::push$", e[2])]
                if cont:
                    c, o = cont[0]
                    ok_end = "nfa.end_state" in S.fstr(c) and tc is not None and S.mentions(c, lambda x: x == tc[4])
                    ob("C02.d", "single:acceptance-is-membership-of-the-end-state", ok_end, "test %s" % S.fstr(c)[:120], fn.loc())
                    if o is True:
                        dup = [(cc_, oo) for cc_, oo in p.conds if cc_[0] == "app" and re.search(r"<impl \[.*\]>::contains$", cc_[1])]
                        if dup and dup[-1][1] is True:
                            acc_cases.add("already")
                        else:
                            acc_cases.add("accepting")
                            ok = len(pushes) == 1 and S.mentions(argval(pushes[0], 1), lambda x: x == oi[0][4]) and "terminal_id" in S.fstr(argval(pushes[0], 1))
                            ob("C02.d", "single:accepting-state-labelled-with-the-pattern-terminal", ok, "push(%s)" % (S.fstr(argval(pushes[0], 1))[:120] if pushes else None), fn.loc())
                    else:
                        acc_cases.add("non-accepting")
                        ob("C02.d", "single:non-accepting-closure-not-labelled", not pushes, "%d pushes" % len(pushes), fn.loc())
        if "C02.d" in want:
            ctx.floor("C02.d", "%s: inner-loop body paths" % tag, body, 2)
        ob("C02.d", "%s:acceptance-cases-complete" % tag, {"accepting", "non-accepting"} <= acc_cases, "cases %s" % sorted(acc_cases), fn.loc())
        # --- d4 new states are enqueued exactly where they are created
        cls = [c for c in F.closures_of(fn) if c.argc == 1 and "queue" in c.upvar_names().values()]
        ob("C02.d", "%s:new-closures-are-created-in-one-place" % tag, len(cls) == 1, "or_insert_with closures capturing the queue: %d" % len(cls), fn.loc())
        for c in cls:
            ex2, ps = run_fn(c, F, LogModel(), inline=r"ids::StateSetID::new$")
            for q in ret_paths(ps):
                pb = q.calls(r"VecDeque::<.*>::push_back$")
                r = q.end[1]
                up = c.upvar_names()
                cand_idx = [str(i) for i, n in up.items() if n == "new_state_id_candidate"]
                ok = len(pb) == 1 and argval(pb[0], 1) == r and bool(cand_idx) and S.mentions(r, lambda x: x[0] == "field" and x[2] == cand_idx[0] and x[1] == ("sym", "arg1"))
                ob("C02.d", "%s:new-state-enqueued-and-numbered-by-the-map-size" % tag, ok, "push_back(%s); returns %s" % (S.fstr(argval(pb[0], 1))[:60] if pb else None, S.fstr(r)[:60]), c.loc())
        cand = False
        for bb, i, s in fn.assigns():
            if fn.names().get(s["p"]["l"]) == "new_state_id_candidate":
                e = M.Prov(fn, max_depth=6).rvalue(s["rv"], 0, ())
                cand = any(re.search(r"HashMap::<.*>::len$", x[1]) for x in M.expr_calls(e))
        ob("C02.d", "%s:candidate-id-is-the-current-number-of-closures" % tag, cand, "new_state_id_candidate := state_map.len()", fn.loc())
        # --- d6/d7 assembly of the automaton
        asm_ok = {"states": False, "trans": False, "ends": False}
        for p in paths:
            for e in p.events:
                if e[0] == "call" and re.search(r"Vec::<.*StateData>::push$", e[2]):
                    asm_ok["states"] = True
                if e[0] == "call" and re.search(r"Vec::<\(.*CharClassID, .*StateSetID\)>::push$", e[2]):
                    v = argval(e, 1)
                    tgt = S.fstr(e[3][0])
                    m = re.search(r"(item@bb\d+)", S.fstr(v))
                    asm_ok["trans"] = v[0] == "tuple" and m is not None and S.fstr(v[1][0]) == m.group(1) + ".1" and S.fstr(v[1][1]) == m.group(1) + ".2" and (m.group(1) + ".0") in tgt
            for e in p.events:
                if e[0] == "write" and e[3] and e[4][0] == "tuple" and len(e[4][1]) == 2 and e[4][1][0] == ("bool", True):
                    idx = [st for st in e[3] if st[0] == "i"]
                    m = re.search(r"(item@bb\d+)", S.fstr(e[4]))
                    asm_ok["ends"] = bool(idx) and m is not None and S.fstr(idx[0][1]) == m.group(1) + ".0" and (m.group(1) + ".1") in S.fstr(e[4][1][1])
        ob("C02.d", "%s:one-state-per-closure" % tag, asm_ok["states"], "states are pushed in a loop over 0..state_map.len()", fn.loc())
        ob("C02.d", "%s:each-recorded-transition-installed-at-its-source" % tag, asm_ok["trans"], "states[from].transitions.push((cc, to)) for (from, cc, to) in transitions", fn.loc())
        ob("C02.d", "%s:accepting-flags-installed-at-their-state" % tag, asm_ok["ends"], "end_states[state] = (true, terminal) for (state, terminal) in accepting_states", fn.loc())
        its = [M.call_name(t) for bb, t in fn.calls(ADAPTERS)]
        ob("C02.d", "%s:no-filter-in-the-construction" % tag, not its, "iterator adapters: %s" % its, fn.loc())
        # the result goes through the minimizer
        mz = [p for p in paths if p.calls(r"Minimizer::minimize$")]
        ob("C02.d", "%s:result-is-minimized" % tag, bool(mz), "Minimizer::minimize is applied to the constructed automaton", fn.loc())

    # ---------------------------------------------------------------- helpers of the construction
    ne = F.fn(r"internal::nfa::Nfa::epsilon_closure$")
    ctx.analysed_fn(ne)
    ex, paths = run_fn(ne, F, LogModel())
    seen = set()
    for p in paths:
        cont = [(c, o) for c, o in p.conds if c[0] == "app" and re.search(r"<impl \[.*\]>::contains$", c[1])]
        pu = p.calls(r"Vec::<.*StateID>::push$")
        if cont:
            c, o = cont[-1]
            if o is False:
                seen.add("new")
                ok = len(pu) == 1 and "EpsilonTransition::target_state" in S.fstr(argval(pu[0], 1)) or (len(pu) == 1 and "target_state" in S.fstr(argval(pu[0], 1)))
                ob("C02.d", "epsilon_closure:unseen-target-is-added", ok, "push(%s)" % (S.fstr(argval(pu[0], 1))[:80] if pu else None), ne.loc())
            else:
                seen.add("known")
                ob("C02.d", "epsilon_closure:known-target-not-added-twice", not pu, "%d pushes" % len(pu), ne.loc())
        if p.end[0] == "return":
            r = p.end[1]
            ok = S.mentions(r, lambda x: x == ("sym", "state"))
            ob("C02.d", "epsilon_closure:contains-the-state-itself", ok, "returns %s" % S.fstr(r)[:100], ne.loc())
            lt = [(c, o) for c, o in p.conds if c[0] == "binop" and c[1] == "Lt"]
            ob("C02.d", "epsilon_closure:work-list-processed-to-the-end", bool(lt) and lt[-1][1] is False and "len" in S.fstr(lt[-1][0]), "exit under %s" % [(S.fstr(c)[:60], o) for c, o in lt], ne.loc())
    ob("C02.d", "epsilon_closure:both-cases", seen == {"new", "known"}, "cases %s" % sorted(seen), ne.loc())
    its = [M.call_name(t) for bb, t in ne.calls(ADAPTERS)]
    ob("C02.d", "epsilon_closure:all-epsilon-transitions-followed", not its and any(re.search(r"NfaState::epsilon_transitions$", M.call_name(t)) for bb, t in ne.calls()), "adapters %s" % its, ne.loc())

    me = F.fn(r"MultiPatternNfa::epsilon_closure$")
    ctx.analysed_fn(me)
    ex, paths = run_fn(me, F, LogModel())
    zero = [p for p in paths if any(c[0] == "binop" and c[1] == "Eq" and o is True for c, o in p.conds)]
    nonzero = [p for p in paths if any(c[0] == "binop" and c[1] == "Eq" and o is False for c, o in p.conds)]
    okz = False
    for p in zero:
        ec = p.calls(r"internal::nfa::Nfa::epsilon_closure$")
        if ec:
            okz = "Nfa::start_state" in S.fstr(ec[0][3][1]) and "item@" in S.fstr(ec[0][3][0])
    ob("C02.d", "multi-epsilon_closure:state-0-is-the-union-over-all-pattern-starts", okz, "for state 0: closure(nfa.start_state()) of every nfa", me.loc())
    its = [M.call_name(t) for bb, t in me.calls(ADAPTERS)]
    ob("C02.d", "multi-epsilon_closure:all-nfas-visited", not its, "adapters %s" % its, me.loc())
    okn = False
    for p in nonzero:
        if p.end[0] == "return":
            r = p.end[1]
            okn = "find" in S.fstr(r) and "self.nfas" in S.fstr(r)
    ob("C02.d", "multi-epsilon_closure:other-states-use-their-own-nfa", okn, "closure within the nfa that contains the state", me.loc())
    for c in F.closures_of(me):
        ex2, ps = run_fn(c, F, LogModel())
        for q in ret_paths(ps):
            r = q.end[1]
            s_ = S.fstr(r)
            if "contains_state" in s_:
                ob("C02.d", "multi-epsilon_closure:nfa-selected-by-containment", "state" in c.upvar_names().values(), "predicate %s" % s_[:80], c.loc())
            if "epsilon_closure" in s_:
                ob("C02.d", "multi-epsilon_closure:closure-of-the-same-state", "state" in c.upvar_names().values() and "arg1" in s_, "map %s" % s_[:80], c.loc())

    for pat, tag in ((r"MultiPatternNfa::get_match_transitions$", "multi"), (r"internal::nfa::Nfa::get_match_transitions$", "single")):
        gm = F.fn(pat)
        ctx.analysed_fn(gm)
        ex, paths = run_fn(gm, F, LogModel())
        n = 0
        for p in paths:
            pu = p.calls(r"Vec::<\(.*CharClassID, .*StateID\)>::push$")
            for e in pu:
                n += 1
                v = argval(e, 1)
                s_ = S.fstr(v)
                m = re.search(r"(item@bb\d+)", s_)
                ok = v[0] == "tuple" and "char_class" in S.fstr(v[1][0]) and "target_state" in S.fstr(v[1][1]) and m is not None and S.fstr(v[1][0]).count(m.group(1)) >= 1 and m.group(1) in S.fstr(v[1][1])
                ob("C02.d", "%s-get_match_transitions:pair-of-the-same-transition" % tag, ok, "push(%s)" % s_[:120], gm.loc(e[1]))
            if p.end[0] == "return":
                r = p.end[1]
                sr = S.fstr(r)
                ok = "dedup" in sr and not re.search(r"dedup_by|retain|truncate|drain", sr)
                ob("C02.d", "%s-get_match_transitions:only-exact-duplicates-removed" % tag, ok, "returns %s" % sr[:100], gm.loc())
        its = [M.call_name(t) for bb, t in gm.calls(ADAPTERS)]
        ob("C02.d", "%s-get_match_transitions:all-states-and-transitions-visited" % tag, n >= 1 and not its, "%d push sites; adapters %s" % (n, its), gm.loc())
    ia = F.fn(r"MultiPatternNfa::is_accepting_state$")
    ctx.analysed_fn(ia)
    ex, paths = run_fn(ia, F, LogModel())
    for p in ret_paths(paths):
        r = p.end[1]
        ok = r[0] == "app" and re.search(r"Iterator>::any::", r[1]) is not None and "self.nfas" in S.fstr(r)
        ob("C02.d", "is_accepting_state:some-nfa-ends-there", ok, "returns %s" % S.fstr(r)[:100], ia.loc())
    for c in F.closures_of(ia):
        ex2, ps = run_fn(c, F, LogModel(), inline=r"Nfa::end_state$")
        for q in ret_paths(ps):
            r = q.end[1]
            ok = r[0] == "binop" and r[1] == "Eq" and "end_state" in S.fstr(r) and "arg1" in S.fstr(r)
            ob("C02.d", "is_accepting_state:compares-the-end-state", ok, "predicate %s" % S.fstr(r)[:80], c.loc())
    fnf = F.fn(r"MultiPatternNfa::find_nfa$")
    ex, paths = run_fn(fnf, F, LogModel())
    for p in ret_paths(paths):
        r = p.end[1]
        ob("C02.d", "find_nfa:first-nfa-containing-the-state", "find" in S.fstr(r) and "self.nfas" in S.fstr(r), "returns %s" % S.fstr(r)[:80], fnf.loc())
    cs = F.fn(r"internal::nfa::Nfa::contains_state$")
    ex, paths = run_fn(cs, F, LogModel())
    for p in ret_paths(paths):
        ob("C02.d", "contains_state:any-state-with-that-id", "any" in S.fstr(p.end[1]) and "self.states" in S.fstr(p.end[1]), "returns %s" % S.fstr(p.end[1])[:80], cs.loc())
    for c in F.closures_of(cs) + F.closures_of(F.fn(r"internal::nfa::Nfa::find_state$")):
        ex2, ps = run_fn(c, F, LogModel(), inline=r"NfaState::id$")
        for q in ret_paths(ps):
            r = q.end[1]
            ok = r[0] == "binop" and r[1] == "Eq" and "state" in S.fstr(r) and "arg1" in S.fstr(r)
            ob("C02.d", "state-lookup-by-id:" + M.short_name(c.name), ok, "predicate %s" % S.fstr(r)[:80], c.loc())

    # ---------------------------------------------------------------- C02.e renumbering
    tp = F.fn(r"MultiPatternNfa::try_from_patterns$")
    ctx.analysed_fn(tp)
    ex, paths = run_fn(tp, F, LogModel(), max_paths=20000)
    okp = 0
    for p in paths:
        sh = p.calls(r"Nfa::shift_ids$")
        if not sh:
            continue
        okp += 1
        off = sh[0][3][1]
        hs = p.calls(r"Nfa::highest_state_number$")
        # next_state after the pattern = highest state number of the SHIFTED nfa + 1
        ns = None
        l_ns = [l for l, n in tp.names().items() if n == "next_state"]
        if l_ns:
            ns = p.locals.get((ex.fid, l_ns[0]))
        lin, c = S.linear(ns) if ns is not None else ({}, None)
        ok_ns = c == 1 and len(lin) == 1 and bool(hs) and S.mentions(ns, lambda x: x == hs[0][4]) and p.events.index(hs[0]) > p.events.index(sh[0])
        ob("C02.e", "next-pattern-starts-above-the-highest-state", ok_ns, "next_state := %s (after shift_ids)" % (S.fstr(ns)[:80] if ns else None), tp.loc())
        ok_off = S.fstr(off) in ("next_state", "1") or off == ("int", 1)
        ob("C02.e", "nfa-shifted-by-next_state", ok_off, "shift_ids(%s)" % S.fstr(off), tp.loc(sh[0][1]))
        stp = [e for e in p.events if e[0] == "call" and re.search(r"Vec::<.*EpsilonTransition>::push$", e[2])]
        ok_st = len(stp) == 1 and S.mentions(argval(stp[0], 1), lambda x: x == ("field", sh[0][4], "0"))
        ob("C02.e", "start-transition-to-the-shifted-start", ok_st, "start_transitions.push(%s)" % (S.fstr(argval(stp[0], 1))[:80] if stp else None), tp.loc())
        ap = p.calls(r"MultiPatternNfa::add_pattern$")
        an = p.calls(r"MultiPatternNfa::add_nfa$")
        ok_add = len(ap) == 1 and len(an) == 1 and "item@" in S.fstr(argval(ap[0], 1)) and p.events.index(an[0]) > p.events.index(sh[0])
        ob("C02.e", "pattern-and-shifted-nfa-stored-together", ok_add, "add_pattern(%s), add_nfa after the shift" % (S.fstr(argval(ap[0], 1))[:60] if ap else None), tp.loc())
    if "C02.e" in want:
        ctx.floor("C02.e", "successful-pattern paths of try_from_patterns", okp, 1)
    # initial next_state = 1 (state 0 is the common start)
    init = None
    for bb, i, s in tp.assigns():
        if tp.names().get(s["p"]["l"]) == "next_state" and not s["p"]["pj"] and s["rv"]["k"] == "use" and s["rv"]["op"]["k"] == "const":
            init = s["rv"]["op"].get("val")
    ob("C02.e", "state-0-reserved-for-the-common-start", init == 1, "initial next_state = %s" % init, tp.loc())
    hn = F.fn(r"internal::nfa::Nfa::highest_state_number$")
    ex, paths = run_fn(hn, F, LogModel())
    for p in ret_paths(paths):
        r = S.fstr(p.end[1])
        ob("C02.e", "highest_state_number-is-the-maximum-id", "max_by" in r and "self.states" in r and "min_by" not in r, "returns %s" % r[:100], hn.loc())
