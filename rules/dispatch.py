"""AST-variant dispatch of Nfa::try_from_ast (C02.c, C15.a/b/c/f): every path of the function is
enumerated (loops cut at their back edges, recursive calls abstracted as Ok(child NFA) / Err) and
the NFA term each path builds is given a regular-expression denotation through the builder
lemmas (C02.a).  The denotation, the loop ranges and the error behaviour are compared with the
semantics of the AST variant."""
import re

from . import mirlib as M
from . import symex as S
from .common import BaseModel, run_fn, ret_paths, variant_of

EPS = ("eps",)
INLINE = r"Nfa::(set_start_state|set_end_state|end_state|new)$"
BUILDERS = {"zero_or_one": "opt", "zero_or_more": "star", "one_or_more": "plus"}


def defaultish(v):
    """A value that is its type's default: `T::default()`, a field of such a value, the id 0."""
    if v[0] == "app" and re.search(r"(Default>::default|::default)$", str(v[1])) and not v[2]:
        return True
    if v[0] == "field" and defaultish(v[1]):
        return True
    if v[0] == "adt" and str(v[1]).startswith("internal::ids::") and len(v[3]) == 1 and v[3][0] == ("int", 0):
        return True
    return v == ("int", 0)


def is_fresh(t):
    """The NFA `Nfa::new()` makes (one default state, start = end = 0), whatever its pattern text: written as a struct literal,
    with struct-update syntax over `Default::default()`, and with the pattern set by set_pattern or by rebuilding the value."""
    if t[0] == "app" and t[1] == "mut:Nfa::set_pattern" and t[2]:
        return is_fresh(t[2][0])
    if t[0] == "adt" and str(t[1]).endswith("Nfa") and len(t[3]) == 4:
        st = t[3][1]
        return st[0] == "vec" and len(st[1]) == 1 and defaultish(st[1][0]) and defaultish(t[3][2]) and defaultish(t[3][3])
    if t[0] == "upd" and len(t[2]) == 1 and t[2][0][1] == "pattern":
        return is_fresh(t[1])
    return False


def child_of(t):
    """(try_from_ast(ARG, reg) as Ok).0 -> canonical child name"""
    if t[0] == "field" and t[1][0] == "downcast" and t[1][2] == "Ok" and t[1][1][0] == "app" and re.search(r"Nfa::try_from_ast$", t[1][1][1]):
        return S.vstr(t[1][1][2][0])
    return None


def den(t):
    """Regular-expression denotation of an NFA term, or ('?', text)."""
    if is_fresh(t):
        return EPS
    c = child_of(t)
    if c is not None:
        return ("sym", c)
    if t[0] == "app" and t[1].startswith("mut:Nfa::"):
        op = t[1][len("mut:Nfa::"):]
        if op in BUILDERS:
            return (BUILDERS[op], den(t[2][0]))
        if op == "concat":
            return ("cat", den(t[2][0]), den(t[2][1]))
        if op == "alternation":
            return ("alt", den(t[2][0]), den(t[2][1]))
        if op == "add_transition":
            return ("class", S.vstr(t[2][2]))
    if t[0] == "adt" and str(t[1]).endswith("nfa::Nfa"):
        # take-over by struct update: `Nfa { states, start_state, end_state, ..nfa }` with the three taken from one child
        got = {}
        for v in t[3]:
            if v[0] == "field" and v[2] in ("states", "start_state", "end_state"):
                got[v[2]] = v[1]
        if set(got) == {"states", "start_state", "end_state"} and len(set(got.values())) == 1:
            return den(list(got.values())[0])
        return ("?", S.vstr(t)[:80])
    if t[0] == "upd":
        # take-over: all of start_state, end_state, states copied from one child
        src = set()
        fields = set()
        cur = t
        while cur[0] == "upd":
            fields.add(cur[2][0][1])
            v = cur[3]
            if v[0] == "field" and v[2] == cur[2][0][1]:
                src.add(v[1])
            else:
                src.add(("?", S.vstr(v)))
            cur = cur[1]
        if fields >= {"start_state", "end_state", "states"} and len(src) == 1 and is_fresh(cur):
            return den(list(src)[0])
        return ("?", S.vstr(t)[:80])
    return ("?", S.vstr(t)[:80])


def simp(r):
    """ε·x = x"""
    if r[0] == "cat":
        a, b = simp(r[1]), simp(r[2])
        if a == EPS:
            return b
        if b == EPS:
            return a
        return ("cat", a, b)
    if r[0] in ("alt",):
        return ("alt", simp(r[1]), simp(r[2]))
    if r[0] in ("opt", "star", "plus"):
        return (r[0], simp(r[1]))
    return r


def show(r):
    k = r[0]
    if k == "eps":
        return "ε"
    if k == "sym":
        return "⟦%s⟧" % r[1]
    if k == "class":
        return "class(%s)" % r[1]
    if k == "cat":
        return "%s·%s" % (show(r[1]), show(r[2]))
    if k == "alt":
        return "(%s|%s)" % (show(r[1]), show(r[2]))
    if k in ("opt", "star", "plus"):
        return "(%s)%s" % (show(r[1]), {"opt": "?", "star": "*", "plus": "+"}[k])
    return "?%s" % (r[1:],)


def analyze(ctx, want):
    F = ctx.facts

    def ob(rule, key, ok, detail, loc=""):
        if rule in want:
            ctx.ob(rule, key, ok, detail, loc)

    def ob2(rules, key, ok, detail, loc=""):
        for r in rules:
            ob(r, key, ok, detail, loc)

    def sample(rule, obj):
        if rule in want:
            obj = dict(obj)
            obj["rule"] = rule
            ctx.sample(obj)

    fn = F.fn(r"internal::nfa::Nfa::try_from_ast$")
    ctx.analysed_fn(fn)
    # ---- C15.a exhaustive dispatch without wildcard
    top = None
    for bb in fn.rpo():
        t = fn.term(bb)
        if t["k"] == "switch":
            d = M.operand_place(t["discr"])
            df = fn.single_def(d["l"]) if d is not None else None
            if df and df["kind"] == "assign" and df["stmt"]["rv"]["k"] == "discr" and df["stmt"]["rv"].get("enum") == "regex_syntax::ast::Ast":
                top = (bb, t, df["stmt"]["rv"])
                break
    if top is None:
        ctx.missing("C15.a", "the match on Ast in Nfa::try_from_ast")
        return
    bb, t, rv = top
    variants = dict((dv, n) for n, dv in rv["variants"])
    covered = {variants[v] for v, _ in t["targets"] if v in variants}
    wildcard = not fn.is_unreachable_block(t["otherwise"])
    ob2(("C15.a", "C02.c"), "ast-dispatch-exhaustive-without-wildcard", covered == set(variants.values()) and not wildcard,
        "variants with an explicit arm: %s of %d; wildcard arm: %s" % (sorted(covered), len(variants), wildcard), fn.loc(bb))

    ex, paths = run_fn(fn, F, BaseModel(), inline=INLINE, max_paths=20000)
    if ex.truncated:
        ctx.missing("C02.c", "path enumeration of try_from_ast truncated")
        return
    nfa_local = None
    for l, n in fn.names().items():
        if n == "nfa" and fn.locals[l]["ty"].endswith("nfa::Nfa"):
            nfa_local = l if nfa_local is None else min(nfa_local, l)
    by_var = {}
    for p in paths:
        kd = [(c, o) for c, o in p.conds if c[0] == "discr" and c[1] == ("sym", "ast")]
        if not kd:
            continue
        v = dict((dv, n) for n, dv in kd[0][0][2]).get(kd[0][1])
        by_var.setdefault(v, []).append(p)
    ob("C02.c", "all-variants-analysed", set(by_var) == set(variants.values()), "variants with paths: %s" % sorted(by_var), fn.loc())

    def result(p):
        if p.end[0] == "return":
            r = p.end[1]
            if r[0] == "adt" and r[2] in ("Ok", "Err"):
                return r[2], r[3][0]
            if r[0] == "app" and re.search(r"Nfa::try_from_ast$", str(r[1])):
                # the result of the recursive call is returned as it is (tail call): Ok(child nfa) when the child converts,
                # the child's error otherwise — the same as `let n = recurse?; Ok(n)`
                return "Ok", ("field", ("downcast", r, "Ok"), "0")
            return "?", r
        return p.end[0], None

    def err_is_unsupported(e):
        return S.mentions(e, lambda x: x[0] == "adt" and x[2] == "UnsupportedFeature")

    def child_err(p):
        return [c for c, o in p.conds if c[0] == "isvar" and c[2] == "Err" and o is True and c[1][0] == "app" and re.search(r"try_from_ast$", c[1][1])]

    # ---- leaf variants
    for v in ("Literal", "Dot", "ClassUnicode", "ClassPerl", "ClassBracketed"):
        for p in by_var.get(v, []):
            kind, r = result(p)
            at = p.calls(r"Nfa::add_transition$")
            ns = p.calls(r"Nfa::new_state$")
            ok = kind == "Ok" and len(at) == 1 and len(ns) == 1
            det = "returns %s with %d add_transition / %d new_state" % (kind, len(at), len(ns))
            if ok:
                a = at[0][3]
                frm, astarg, to = a[1], a[2], a[3]
                ok_from = S.vstr(frm).endswith(".end_state") or frm == ("adt", "internal::ids::StateID", "StateID", (("int", 0),)) or "default()" in S.vstr(frm)
                ok_to = to == ns[0][4]
                # the transition is labelled with the matched node itself: `ast` (cloned — the engine treats clone as the
                # identity), or the same variant rebuilt from the same payload; NOT any value computed from it (a rewritten
                # or "simplified" class denotes another set unless somebody proves otherwise)
                bare = astarg
                n_ = 0
                while bare[0] in ("ref", "deref") and n_ < 6:
                    b2 = ex.deref_val(p, bare) if bare[0] == "ref" else bare[1]
                    if b2 == bare:
                        break
                    bare, n_ = b2, n_ + 1
                same_node = bare == ("sym", "ast")
                if not same_node and bare[0] == "adt" and bare[2] == v and len(bare[3]) == 1:
                    same_node = re.match(r"^[&*(]*\(ast as %s\)\.0\)*$" % v, S.fstr(bare[3][0])) is not None
                ok = ok_from and ok_to and same_node
                det = "add_transition(from=%s, %s, to=%s)" % (S.vstr(frm)[:50], S.vstr(astarg)[:60], S.vstr(to)[:40])
                # end state of the result is the new state
                endw = [e for e in p.events if e[0] == "write" and e[3] and e[3][-1][1] == "end_state"]
                ok = ok and any(e[4] == ns[0][4] for e in endw)
            ob("C02.c", "leaf:%s:one-transition-start-to-new-end-labelled-with-the-node" % v, ok, det, fn.loc())
            ob("C15.f", "supported:%s:always-ok" % v, kind == "Ok", "%s returns %s" % (v, kind), fn.loc())
    for p in by_var.get("Empty", []):
        kind, r = result(p)
        ob("C02.c", "leaf:Empty:fresh-nfa", kind == "Ok" and r is not None and is_fresh(r), "Empty returns %s %s" % (kind, show(den(r)) if r else ""), fn.loc())
        ob("C15.f", "supported:Empty:always-ok", kind == "Ok", "Empty returns %s" % kind, fn.loc())
    # ---- rejecting variants
    for v in ("Flags", "Assertion"):
        ps = by_var.get(v, [])
        oks = [p for p in ps if result(p)[0] != "Err"]
        ok = bool(ps) and not oks and all(err_is_unsupported(result(p)[1]) for p in ps)
        ob("C15.b", "rejected:%s:no-ok-path" % v, ok, "%d path(s), %d not returning Err(UnsupportedFeature)" % (len(ps), len(oks)), fn.loc())

    # ---- Repetition
    reps = by_var.get("Repetition", [])
    CH = None
    kinds_seen = {}
    for p in reps:
        kind, r = result(p)
        rec = p.calls(r"Nfa::try_from_ast$")
        ok_rec = len(rec) == 1 and S.vstr(rec[0][3][0]) == "(ast as Repetition).0.ast"
        ob2(("C02.c", "C15.c"), "repetition:recurses-on-its-operand", ok_rec, "recursive call on %s" % ([S.vstr(x[3][0]) for x in rec]), fn.loc())
        if child_err(p):
            ob("C15.c", "repetition:child-error-propagates", kind == "Err", "child Err -> %s" % kind, fn.loc())
            continue
        greedy = [(c, o) for c, o in p.conds if c[0] == "field" and c[2] == "greedy"]
        if not greedy:
            ob("C15.b", "repetition:greedy-tested", False, "a path does not test the greedy flag", fn.loc())
            continue
        if greedy[-1][1] is False:
            ob("C15.b", "rejected:non-greedy-repetition", kind == "Err" and err_is_unsupported(r), "non-greedy -> %s" % kind, fn.loc())
            continue
        kd = [(c, o) for c, o in p.conds if c[0] == "discr" and "op.kind" in S.vstr(c)]
        if not kd:
            ob("C02.c", "repetition:kind-tested", False, "a greedy path does not dispatch on the operator kind", fn.loc())
            continue
        names = [dict((dv, n) for n, dv in c[2]).get(o) for c, o in kd]
        key = "/".join(str(n) for n in names)
        kinds_seen.setdefault(key, []).append(p)
    C = ("sym", "(ast as Repetition).0.ast")
    simple = {"ZeroOrOne": ("opt", C), "ZeroOrMore": ("star", C), "OneOrMore": ("plus", C)}
    for k, exp in simple.items():
        ps = kinds_seen.get(k, [])
        ok = len(ps) >= 1
        det = "no path"
        for p in ps:
            kind, r = result(p)
            d = simp(den(r)) if r is not None else None
            ok = ok and kind == "Ok" and d == exp
            det = "%s builds %s (expected %s)" % (k, show(d) if d else kind, show(exp))
        ob("C02.c", "repetition:%s" % k, ok, det, fn.loc())
        ob("C15.f", "supported:greedy-%s:ok" % k, ok, det, fn.loc())

    ret_paths_ = []       # [(denotation, path)] of the Ok results of the kind analysed last

    def sign_of(p, pay):
        """what the path knows about the count `pay` (a u32): "pos" (> 0), "zero", or None"""
        for c, o in p.conds:
            if c[0] == "binop" and len(c) == 4 and isinstance(o, bool):
                a_, b_, op = c[2], c[3], c[1]
                if b_ == ("int", 0) and norm_path(tpath(a_)) == norm_path(pay):
                    if (op in ("Gt", "Ne") and o) or (op in ("Eq", "Le") and not o):
                        return "pos"
                    if (op in ("Gt", "Ne") and not o) or (op in ("Eq", "Le") and o):
                        return "zero"
                if a_ == ("int", 0) and norm_path(tpath(b_)) == norm_path(pay):
                    if (op in ("Lt", "Ne") and o) or (op in ("Eq", "Ge") and not o):
                        return "pos"
                    if (op in ("Lt", "Ne") and not o) or (op in ("Eq", "Ge") and o):
                        return "zero"
        return None

    def norm_path(s_):
        return re.sub(r"[()&* ]", "", s_)

    def loop_facts(ps):
        """[(range lo, range hi, denotation of nfa at the cut)] and [denotation of Ok results]"""
        cuts, rets = [], []
        del ret_paths_[:]
        for p in ps:
            kind, r = result(p)
            if p.end[0] == "cut":
                nx = [e for e in p.events if e[0] == "call" and re.search(r"Range<u32> as std::iter::Iterator>::next$", e[2])]
                rng = None
                if nx:
                    val = nx[-1][7][0] if len(nx[-1]) > 7 else None
                    n = 0
                    while val is not None and val[0] == "ref" and n < 4:
                        val = val[3] if len(val) > 3 else None
                        n += 1
                    rng = val
                nv = p.locals.get((ex.fid, nfa_local))
                cuts.append((rng, simp(den(nv)) if nv else None, p))
            elif kind == "Ok":
                rets.append(simp(den(r)))
                ret_paths_.append((simp(den(r)), p))
            elif kind == "Err":
                rets.append(("err",))
        return cuts, rets

    def tpath(t):
        """'ast/Repetition/0/op/kind/Range/0/Exactly/0' for a projection chain on the parameter."""
        steps = []
        n = 0
        while n < 40:
            n += 1
            if t[0] == "field":
                steps.append(str(t[2]))
                t = t[1]
            elif t[0] == "downcast":
                steps.append(str(t[2]))
                t = t[1]
            elif t[0] == "deref":
                t = t[1]
            elif t[0] == "ref" and not t[1][2]:
                t = t[1][1]
            elif t[0] == "cast":
                t = t[2]
            elif t[0] == "sym":
                steps.append(t[1])
                break
            elif t[0] == "int":
                return str(t[1])
            else:
                return "?" + S.vstr(t)[:40]
        return "/".join(reversed(steps))

    def rng_str(r):
        if r is None or r[0] != "adt":
            return "?"
        return "%s..%s" % (tpath(r[3][0]), tpath(r[3][1]))

    def payload(variant, idx):
        return "ast/Repetition/0/op/kind/Range/0/%s/%d" % (variant, idx)

    expected_loops = {
        "Range/Exactly": ([("0", payload("Exactly", 0), C)], EPS),
        "Range/AtLeast": ([("0", payload("AtLeast", 0), C)], ("star", C)),
        "Range/Bounded": ([("0", payload("Bounded", 0), C), (payload("Bounded", 0), payload("Bounded", 1), ("opt", C))], EPS),
    }
    for k, (loops, tail) in expected_loops.items():
        ps = kinds_seen.get(k, [])
        cuts, rets = loop_facts(ps)
        got = sorted((rng_str(r) if r else "?", show(d) if d else "?") for r, d, _ in cuts)
        want_l = sorted(("%s..%s" % (lo, hi), show(x)) for lo, hi, x in loops)

        def norm(s):
            return re.sub(r"[()&* ]", "", s)
        ok_loops = [(norm(a), b) for a, b in got] == [(norm(a), b) for a, b in want_l]
        ok_tail = rets == [simp(tail)] or (len(rets) == 1 and rets[0] == simp(tail))
        short = k.split("/")[1]
        if k == "Range/Exactly" and not (ok_loops and ok_tail):
            # the last repetition peeled off (it takes the operand by value, the others a copy): `for _ in 1..n { .. }` and one
            # more factor exactly when n > 0 — max(0, n - 1) + [n > 0] = n factors for every n
            pay = payload("Exactly", 0)
            peeled = [(norm(a), b) for a, b in got] == [(norm("1..%s" % pay), show(C))]
            tails = sorted((sign_of(p_, pay) or "?", show(d_)) for d_, p_ in ret_paths_)
            if peeled and tails == sorted([("pos", show(simp(C))), ("zero", show(simp(EPS)))]) and ("err",) not in rets:
                ok_loops = ok_tail = True
                want_l = got
        ob("C02.c", "repetition:%s:loops" % short, ok_loops,
           "loops (range, nfa after one iteration from ε): %s; expected %s" % (got, want_l), fn.loc())
        ob("C02.c", "repetition:%s:after-the-loops" % short, ok_tail,
           "result with all loops skipped: %s; expected %s" % ([show(x) if x[0] != "err" else "Err" for x in rets], show(simp(tail))), fn.loc())
        ob("C15.f", "supported:greedy-%s:ok" % short, ok_tail and ("err",) not in rets, "results %s" % [show(x) if x[0] != "err" else "Err" for x in rets], fn.loc())
        sample("C02.c", {"variant": k, "loops": got, "tail": [show(x) if x[0] != "err" else "Err" for x in rets]})
    ob("C02.c", "repetition:all-kinds", set(kinds_seen) == set(simple) | set(expected_loops), "kinds analysed: %s" % sorted(kinds_seen), fn.loc())

    # ---- Group
    for p in by_var.get("Group", []):
        kind, r = result(p)
        rec = p.calls(r"Nfa::try_from_ast$")
        if p.end and p.end[0] == "cut":
            continue        # the flag scan goes on with the next flag item: not a result of the arm
        flagged = [(c, o) for c, o in p.conds if c[0] == "app" and re.search(r"Iterator>::any::", c[1])]
        # `any` analysed as the loop it abbreviates: its call event carries the constant outcome
        anyc = [e for e in p.calls(r"Iterator>::any::") if len(e) > 8 and e[8] == "desugared"]
        is_flagged = (flagged and flagged[-1][1] is True) or any(e[4] == ("bool", True) for e in anyc)
        if is_flagged:
            ob("C15.b", "rejected:flags-in-non-capturing-group", kind == "Err" and err_is_unsupported(r) and not rec, "flagged group -> %s (recursive calls: %d)" % (kind, len(rec)), fn.loc())
            continue
        ok_rec = len(rec) == 1 and S.vstr(rec[0][3][0]) == "(ast as Group).0.ast"
        ob2(("C02.c", "C15.c"), "group:recurses-on-its-content", ok_rec, "recursive call on %s" % [S.vstr(x[3][0]) for x in rec], fn.loc())
        if child_err(p):
            ob("C15.c", "group:child-error-propagates", kind == "Err", "child Err -> %s" % kind, fn.loc())
        else:
            d = simp(den(r)) if r is not None else None
            ob("C02.c", "group:is-its-content", kind == "Ok" and d == ("sym", "(ast as Group).0.ast"), "group builds %s" % (show(d) if d else kind), fn.loc())
            ob("C15.f", "supported:Group:ok", kind == "Ok", "group returns %s" % kind, fn.loc())
    # the flag test inspects the group's own flag items for FlagsItemKind::Flag
    cl = [c for c in F.closures_of(fn)]
    for c in cl:
        ex2, ps = run_fn(c, F, BaseModel())
        outcomes = set()
        for q in ps:
            if q.end[0] == "return":
                kd = [(cc, o) for cc, o in q.conds if cc[0] == "discr"]
                nm = dict((dv, n) for n, dv in kd[0][0][2]).get(kd[0][1]) if kd and not isinstance(kd[0][1], tuple) else "other"
                outcomes.add((nm, S.vstr(q.end[1])))
        ob("C15.b", "group:flag-predicate-detects-Flag-items", ("Flag", "True") in outcomes and all(v == "False" for n, v in outcomes if n != "Flag"), "predicate outcomes: %s" % sorted(outcomes), c.loc())

    # ---- Alternation / Concat
    for v, op in (("Alternation", "alt"), ("Concat", "cat")):
        ps = list(by_var.get(v, []))
        if v == "Alternation":
            # "the first alternative seeds the NFA, the others are alternated" may be decided by a flag that is carried from one
            # iteration to the next (`if mem::take(&mut is_first)`) instead of the element's index: then the first iteration
            # only shows the seeding.  Such paths are followed over the back edge once, into the second iteration.
            extra = []
            for p in ps:
                if p.end[0] != "cut" or len(p.end) < 3:
                    continue
                if any(c[0] == "binop" and c[1] == "Eq" and ("int", 0) in (c[2], c[3]) and "item@" in S.vstr(c) for c, o in p.conds):
                    continue
                q0 = S.Path()
                q0.locals, q0.heap, q0.assume, q0.conds, q0.events = dict(p.locals), dict(p.heap), dict(p.assume), list(p.conds), list(p.events)
                try:
                    conts = ex.run(p.end[2], q0)
                except Exception:
                    conts = []
                extra.extend(q for q in conts if q.end and q.end[0] in ("cut", "return") and len(q.calls(r"Nfa::try_from_ast$")) >= 2)
            ps.extend(extra[:200])
        item = None
        seen = set()
        for p in ps:
            kind, r = result(p)
            rec = p.calls(r"Nfa::try_from_ast$")
            nx = [e for e in p.events if e[0] == "call" and re.search(r"Iterator>::next$", e[2])]
            if nx:
                itv = nx[0][7][0] if len(nx[0]) > 7 else None
                n_ = 0
                while itv is not None and itv[0] == "ref" and len(itv) > 3 and n_ < 4:
                    itv = itv[3]
                    n_ += 1
                its = S.vstr(itv) if itv else S.vstr(nx[0][3][0])
                src_ok = itv is not None and ("asts" in S.step_names(itv) or S.mentions(itv, lambda x: x[0] == "field" and x[2] == "asts")) and not S.mentions(itv, lambda x: x[0] == "app" and re.search(r"Iterator>::(skip|take|rev|filter|step_by|skip_while|take_while)", x[1]) is not None)
                ob2(("C02.c", "C15.c"), "%s:iterates-over-all-alternatives" % v.lower(), src_ok, "iterator %s" % its[:100], fn.loc())
            if not rec:
                # loop skipped
                if kind == "Ok":
                    seen.add("exit")
                    ob("C02.c", "%s:empty-list-is-ε" % v.lower(), r is not None and simp(den(r)) == EPS, "no child -> %s" % (show(simp(den(r))) if r else kind), fn.loc())
                continue
            child = S.vstr(rec[0][3][0])
            if child_err(p):
                ob("C15.c", "%s:child-error-propagates" % v.lower(), kind == "Err", "child Err -> %s" % kind, fn.loc())
                seen.add("err")
                continue
            def has_asts(b):
                return re.search(r"\.asts\b", S.vstr(b)) is not None

            def first_of_list(x):
                # the first element of the list taken on its own: `asts.split_first()` -> (first, rest), `asts.first()`, `asts[0]`
                n_ = 0
                while x[0] in ("ref", "deref") and n_ < 6:
                    x = (ex.deref_val(p, x) if x[0] == "ref" else x[1])
                    n_ += 1
                if x[0] == "app" and re.search(r"clone::Clone>::clone$", str(x[1])) and x[2]:
                    return first_of_list(x[2][0])
                if x[0] == "field" and x[2] == "0" and x[1][0] == "field" and x[1][2] == "0" and x[1][1][0] == "downcast" and x[1][1][2] == "Some":
                    b = x[1][1][1]
                    return b[0] == "app" and re.search(r"<impl \[.*\]>::split_first$", str(b[1])) is not None and has_asts(b)
                if x[0] == "field" and x[2] == "0" and x[1][0] == "downcast" and x[1][2] == "Some":
                    b = x[1][1]
                    return b[0] == "app" and re.search(r"<impl \[.*\]>::first$", str(b[1])) is not None and has_asts(b)
                if x[0] == "index" and x[2] == ("int", 0):
                    return has_asts(x[1])
                return False
            ok_child = "item@" in child or first_of_list(rec[0][3][0])
            ob2(("C02.c", "C15.c"), "%s:recurses-on-the-current-element" % v.lower(), ok_child, "recursive call on %s" % child, fn.loc())
            nxs = [e for e in p.events if e[0] == "call" and re.search(r"Iterator>::next$", e[2])]
            exhausted_last = bool(nxs) and any(k_[0][0] == "sym" and str(k_[0][1]).startswith("__exhausted__") and v_ == ("bool", True) for k_, v_ in p.heap.items())
            at_end = p.end[0] == "cut" or (kind == "Ok" and exhausted_last)
            if at_end:
                nv = p.locals.get((ex.fid, nfa_local)) if p.end[0] == "cut" else r
                d = simp(den(nv)) if nv else None
                first = [(c, o) for c, o in p.conds if c[0] == "binop" and c[1] == "Eq" and ("int", 0) in (c[2], c[3]) and "item@" in S.vstr(c)]
                CHd = ("sym", child)
                if v == "Alternation":
                    # the alternatives seen on this path, alternated in order, and nothing else: in particular no ε disjunct
                    # (folding into the fresh NFA would accept the empty string).  An ε in front stands for "the alternatives
                    # so far" only on a path that established that this is not the first one (index != 0).
                    def flat(x):
                        return flat(x[1]) + flat(x[2]) if x is not None and x[0] == "alt" else [x]
                    chain = flat(d)
                    kids = [("sym", S.vstr(x[3][0])) for x in rec]
                    not_first = bool(first) and first[-1][1] is False
                    if chain == kids:
                        seen.add("first" if len(kids) == 1 else "later")
                        if first:
                            idx_ok = re.search(r"item@bb\d+\.0$", S.vstr(first[-1][0][2])) is not None or re.search(r"item@bb\d+\.0$", S.vstr(first[-1][0][3])) is not None
                            ob("C02.c", "alternation:first-alternative-seeds-the-nfa", first[-1][1] is True and idx_ok, "first alternative (index test %s): nfa = %s" % (S.vstr(first[-1][0]), show(d) if d else None), fn.loc())
                        else:
                            ob("C02.c", "alternation:first-alternative-seeds-the-nfa", True, "nfa = %s" % (show(d) if d else None), fn.loc())
                    elif chain == [EPS] + kids and not_first:
                        seen.add("later")
                        ob("C02.c", "alternation:later-alternatives-are-alternated", True, "later alternative: nfa = %s (acc shown as ε)" % (show(d) if d else None), fn.loc())
                    else:
                        seen.add("fold")
                        ob("C02.c", "alternation:fold-has-a-proper-seed", False,
                           "after the alternatives %s the nfa is %s — it must be exactly their alternation (the first alternative seeds it; folding into the fresh ε NFA adds the empty string)" % ([show(k) for k in kids], show(d) if d else None), fn.loc())
                else:
                    seen.add("body")
                    ob("C02.c", "concat:elements-are-concatenated", d == CHd, "after one element: nfa = %s (ε·x = x)" % (show(d) if d else None), fn.loc())
            elif kind == "Ok":
                ob("C02.c", "%s:returns-inside-the-loop" % v.lower(), False, "returns from inside the loop", fn.loc())
        need = {"exit", "err", "first", "later"} if v == "Alternation" else {"exit", "err", "body"}
        ob("C02.c", "%s:all-cases-analysed" % v.lower(), need <= seen, "cases: %s" % sorted(seen), fn.loc())
        ob("C15.f", "supported:%s:ok-unless-a-child-fails" % v, "exit" in seen, "cases: %s" % sorted(seen), fn.loc())

    # ---- C15.f error origins inside try_from_ast: only the four rejecting sites
    origins = []
    for p in paths:
        kind, r = result(p)
        if kind == "Err" and not child_err(p):
            kd = [(c, o) for c, o in p.conds if c[0] == "discr" and c[1] == ("sym", "ast")]
            v = dict((dv, n) for n, dv in kd[0][0][2]).get(kd[0][1]) if kd else "?"
            origins.append(v)
    allowed = {"Flags", "Assertion", "Repetition", "Group"}
    ob("C15.f", "error-origins-only-in-rejecting-arms", set(origins) <= allowed, "arms that create an error themselves: %s" % sorted(set(origins)), fn.loc())
    sample("C15.f", {"error_origin_arms": sorted(set(origins))})
