from . import kernel, cursor
LEVEL = "other"
EXPLANATION = ("Value-shape rules (match end = index + len_utf8(c) of the char just read, match start = first index, so spans are "
               "non-empty and on char boundaries), cursor advanced beyond every match with the unshifted end, loop variants of "
               "next_match / advance_to / the simulation loop (every retry consumed one char; the simulation stops when no state "
               "is active), closed writer set of the cursor, and a panic-site inventory of scan path and build path in which each "
               "reachable site is discharged by a typestate argument or matched against a justified table.")
RULES = {"C07.a", "C07.b", "C07.c", "C05.d"}


def check(ctx):
    ctx.assume("valid configuration: at least one mode, transitions to existing modes, set_mode with an existing mode (property quantifier)")
    kernel.analyze(ctx, RULES | {"C12.d", "C05.a"})   # (C05.a, C10.c below: premises the panic table cites for the unwraps of find_from and the slices at the offset)
    # the premise of the unwrap in priority_of: the search over terminal_ids finds every label, whatever their order
    from .pC01 import priority_rules
    priority_rules(ctx)
    # cursor coupling (C09.a) and reset totality (C10.b) are also progress conditions: a stale last_position
    # makes advance_to refuse to move
    # (C11.b: the loop of peek_n has the same variant as next_match's — a failed attempt consumes one char of the private cursor
    # or ends the loop; "all sequences of iterator calls" includes peeks, and a peek that does not return is no progress)
    # (C11.a: an attempt writes nothing a later call reads — a result remembered across calls is replayed at a position it was
    # not computed for, and its span need not fit the text there)
    # (C09.b: the sorted, duplicate-free insertion into the line table is what the debug_assert! of merge_line_offsets relies on —
    # rules/panics.py justifies that site with it, so it is decided here as well: a duplicate entry panics the next scan step)
    cursor.analyze(ctx, RULES | {"C09.a", "C10.b", "C10.a", "C01.e", "C11.b", "C11.a", "C09.b", "C10.c"})   # C01.e: reported span = attempt span shifted once by the offset (non-empty, in bounds)
    # (C06.i: every mode the caller adds is compiled, at the position it was added — the precondition "transitions go to
    # existing modes" is stated in the caller's numbering; a builder that drops, merges or reorders modes makes a valid
    # configuration index past the end of the compiled list)
    from . import pC06
    pC06.mode_order_rules(ctx)
    pC06.data_api_rules(ctx, "C01.e")      # spans reach the user as computed (Match / Span constructors store their arguments)
    from . import panics
    panics.analyze(ctx, {"C07.d", "C07.e"})
    # (C06.e: the iterator scans the caller's own input — a haystack that was trimmed, copied or re-encoded on the way gives spans that do not fit the string the caller holds)
    from . import pC06
    pC06.fresh_iterator_rules(ctx)
    pC06.mode_forward_rules(ctx)    # (C06.g: a set_mode of a wrapper switches the mode and does nothing else — a cursor moved on the side takes spans backwards)
    from .common import cache_foundation, language_foundation
    language_foundation(ctx)
    cache_foundation(ctx)
