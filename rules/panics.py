"""A7 — panic-site inventory.  Every `Assert` terminator and every call of the panic family in
a function reachable (resolved call graph incl. closures, dyn Fn targets and std blanket impls)
from the public scan / build / dot-export entry points must be justified by the table below:
(function, site kind) -> (justified count, invariant class, reason).  A site that is not
covered — a new unwrap, index, arithmetic overflow check, panic! — is a violation
("unjustified panic site"); disappearing sites are fine (closed set, alarms on additions)."""
import re
from collections import Counter

from . import mirlib as M

PANIC_CALL = re.compile(
    r"(Option::<.*>::(unwrap|expect)$|Result::<.*>::(unwrap|expect|unwrap_err|expect_err)$|core::panicking::|std::rt::begin_panic"
    r"|panic_fmt|ops::Index(Mut)?<.*>>::index(_mut)?$|<impl \[.*\]>::(split_at|split_at_mut|copy_from_slice|swap)$"
    r"|Vec::<.*>::(insert|remove|swap_remove|drain|split_off)$|<impl str>::split_at$|unreachable_display|assert_failed"
    r"|RefCell<.*>::borrow|VecDeque::<.*>::(insert|remove|swap)|char::from_u32_unchecked|unwrap_unchecked)")

PTR_CHECKS = ("MisalignedPointerDereference", "NullPointerDereference")

ROOTS = {
    "scan": r"^(find_matches::FindMatches::|<find_matches::FindMatches<'.+> as (std::iter::Iterator|position::PositionProvider|scanner::ScannerModeSwitcher)>::"
            r"|<with_positions::WithPositions<I> as |with_positions::(WithPositions|MatchExtIterator)|scanner::Scanner::find_iter$"
            r"|<scanner::Scanner as scanner::ScannerModeSwitcher>::)",
    "build": r"^(scanner_builder::(ScannerBuilder|SimpleScannerBuilder)::|<scanner::Scanner as std::convert::TryFrom<|scanner_mode::ScannerMode::(new|name)$"
             r"|pattern::(Pattern|Lookahead)::)",
    "dot": r"^scanner::Scanner::(generate_compiled_automata_as_dot|log_compiled_automata_as_dot)$",
}

# invariant classes
TS = "option-typestate"
ID = "id-in-range"
AR = "offset-arith"
PRE = "precondition"
DBG = "debug-only"
EL = "element-present"
LOCK = "lock-not-poisoned"

W_OFF = "byte offsets of a str are <= isize::MAX; sums of an index, a char length, a lookahead length or the reset offset stay within the haystack length"
W_SID = "state ids stored in the automaton are produced only by the construction/renumbering code and are < states.len() == end_states.len() (C02.d, C03.f)"
W_MODE = "scanner_modes[current_mode]: current_mode is 0, a transition target or the argument of set_mode; valid configuration (>= 1 mode, transitions to existing modes, set_mode with an existing mode) is the property's precondition"
W_SLICE = "input[offset..] / input[..offset]: offset <= len by the clamp (C10.c), on a char boundary by the documented precondition of set_offset"
W_ID32 = "state ids + offset stay below 2^32: memory-bounded assumption (C17.b)"

TABLE = [
    # ---- scan path
    (r"CompiledDfa::find_from$", "assert:Overflow", 3, AR, W_OFF),
    (r"CompiledDfa::find_from$", "call:index", 5, ID, W_SID + "; the start state 0 exists because every automaton has at least one state"),
    (r"CompiledDfa::find_from$", "call:unwrap", 2, TS, "runs only when the terminal id is Some; end and type are written together as Some (C05.a/C05.d) and the start is set before any candidate (C07.a)"),
    (r"CompiledDfa::pattern$", "call:index", 1, EL, "patterns is a one-element vector; called with 0 (dot export) or inside the message of a failing debug_assert"),
    (r"CompiledDfa::priority_of$", "call:unwrap", 1, EL, "the argument is an accepting label of this automaton; labels and terminal_ids are filled from the same pattern list and the minimizer copies labels (C02.d, C03.g)"),
    (r"FindMatchesImpl::<'h>::advance_beyond_match$", "assert:Overflow", 1, AR, W_OFF),
    (r"FindMatchesImpl::<'h>::advance_char_indices_beyond_match$", "assert:Overflow", 1, AR, W_OFF),
    (r"FindMatchesImpl::<'h>::advance_to$", "assert:Overflow", 4, AR, W_OFF),
    (r"FindMatchesImpl::<'h>::merge_line_offsets$", "call:Vec::insert", 1, EL, "insert position is the Err(i) of a binary search of the same vector, i <= len (C09.b)"),
    (r"FindMatchesImpl::<'h>::merge_line_offsets$", "debug_assert", 1, DBG, "line_offsets stays strictly ascending: search-directed insertion, no duplicates (C09.b)"),
    (r"FindMatchesImpl::<'h>::merge_line_offsets$", "assert:BoundsCheck", 2, EL, "windows(2) yields slices of length 2"),
    (r"FindMatchesImpl::<'h>::next_match$", "assert:Overflow", 1, AR, W_OFF),
    (r"FindMatchesImpl::<'h>::next_match$", "call:str-index", 1, PRE, W_SLICE),
    (r"FindMatchesImpl::<'h>::offset$", "assert:Overflow", 1, AR, W_OFF),
    (r"FindMatchesImpl::<'h>::peek_n$", "call:str-index", 1, PRE, W_SLICE),
    (r"FindMatchesImpl::<'h>::position$", "assert:Overflow", 4, AR, "i + 1 and (offset - line start) + 1 on positions of a haystack; Err(i) has i >= 1 because line_offsets[0] == 0"),
    (r"FindMatchesImpl::<'h>::position$", "call:index", 2, EL, "Ok(i) < len; Err(i) - 1 with i >= 1 because line_offsets[0] == 0 (C09.b)"),
    (r"FindMatchesImpl::<'h>::set_offset$", "call:str-index", 3, PRE, W_SLICE),
    (r"ScannerImpl::execute_possible_mode_switch$", "call:index", 1, PRE, W_MODE),
    (r"ScannerImpl::has_transition$", "call:index", 1, PRE, W_MODE),
    (r"ScannerImpl::peek_from$", "call:index", 1, PRE, W_MODE),
    (r"ScannerImpl::peek_from$", "debug_assert", 1, DBG, "matches are never empty: end = index + len_utf8(c) > start (C07.a)"),
    (r"match_type::Match::add_offset$", "assert:Overflow", 2, AR, W_OFF),
    (r"position::Position::new$", "debug_assert", 2, DBG, "line is i+1 or Err(i) >= 1, column is ... + 1"),
    # ---- build path
    (r"CompiledDfa as std::convert::From<internal::multi_pattern_nfa::MultiPatternNfa>>::from$", "call:unwrap", 1, EL, "targets of transitions are states of one of the NFAs"),
    (r"CompiledDfa as std::convert::From<internal::multi_pattern_nfa::MultiPatternNfa>>::from$", "call:unwrap", 1, EL, "every queued set id was inserted into state_map before it was queued"),
    (r"CompiledDfa as std::convert::From<internal::multi_pattern_nfa::MultiPatternNfa>>::from$", "call:index", 2, ID, "set ids are < state_map.len() == states.len()"),
    (r"CompiledDfa as std::convert::From<internal::nfa::Nfa>>::from$", "call:unwrap", 1, EL, "every queued set id was inserted into state_map before it was queued"),
    (r"CompiledDfa as std::convert::From<internal::nfa::Nfa>>::from$", "call:index", 2, ID, "set ids are < state_map.len() == states.len()"),
    (r"Minimizer::add_representative_state$", "call:unwrap", 1, EL, "groups of a partition are non-empty (C03.b)"),
    (r"Minimizer::add_representative_state$", "call:index", 2, ID, W_SID),
    (r"Minimizer::add_representative_state$", "call:index", 2, ID, "group ids are < partition.len() == states.len() of the new automaton"),
    (r"Minimizer::build_transitions_to_partition_group$", "call:unwrap", 1, EL, "every state is in some group: the partition covers all states (C03.a/b)"),
    (r"Minimizer::calculate_initial_partition$", "assert:Overflow", 2, AR, "number of terminals + 1, index + 1"),
    (r"Minimizer::calculate_initial_partition$", "call:unwrap", 1, EL, "terminal_map holds every accepting label (built from the same end_states)"),
    (r"Minimizer::calculate_initial_partition$", "call:index", 2, ID, W_SID),
    (r"Minimizer::calculate_initial_partition$", "call:index", 2, ID, "index + 1 <= number of terminals, vector has number of terminals + 1 groups"),
    (r"Minimizer::merge_transitions$", "call:unwrap", 1, EL, "group.len() > 1 on this path"),
    (r"Minimizer::merge_transitions$", "debug_assert", 1, DBG, "groups of a partition are non-empty (C03.b)"),
    (r"Minimizer::merge_transitions_of_state$", "call:unwrap", 2, EL, "get_mut(pos) with pos returned by position() on the same vector"),
    (r"Minimizer::merge_transitions_of_state$", "call:Vec::remove", 1, EL, "pos returned by position() on the same vector"),
    (r"Minimizer::merge_transitions_of_state$", "call:index", 1, EL, "rep_pos < pos (the representative is the smallest id of its group and the vector is ordered by id), so the removal does not shift it"),
    (r"Minimizer::minimize$", "call:unwrap", 3, EL, "get_mut of a key that entry(..).or_default() inserted in the statement before"),
    (r"Minimizer::renumber_states_in_transitions$", "call:panicking::panic_fmt", 1, EL, "every state is in some group: the partition covers all states (C03.a/b)"),
    (r"Minimizer::update_transitions$", "call:index", 1, ID, "renumbered ids are group indices < partition.len() == states.len()"),
    (r"Minimizer::update_transitions$", "call:index", 1, ID, "renumbered ids are group indices < partition.len() == states.len()"),
    (r"MultiPatternNfa::get_match_transitions$", "call:panicking::panic_fmt", 3, EL, "states of closures were created by try_from_patterns and belong to one of the NFAs"),
    (r"MultiPatternNfa::try_from_patterns$", "assert:Overflow", 1, AR, W_ID32),
    (r"MultiPatternNfa::try_from_patterns$", "call:unwrap", 1, TS, "inside the Err arm of the match on the same result"),
    (r"Nfa::add_epsilon_transition$", "assert:Overflow", 1, AR, "sum of two small vector lengths"),
    (r"Nfa::add_epsilon_transition$", "call:index", 2, ID, "from is a state of this NFA (result of new_state or its start/end)"),
    (r"Nfa::add_epsilon_transition$", "call:index", 1, ID, "from is a state of this NFA (result of new_state or its start/end)"),
    (r"Nfa::add_epsilon_transition$", "debug_assert", 1, DBG, "Thompson states have at most two out-edges: an end state has none until one builder adds at most two (C02.a)"),
    (r"Nfa::add_transition$", "assert:Overflow", 1, AR, "sum of two small vector lengths"),
    (r"Nfa::add_transition$", "call:index", 2, ID, "from is the fresh NFA's only state"),
    (r"Nfa::add_transition$", "call:index", 1, ID, "from is the fresh NFA's only state"),
    (r"Nfa::add_transition$", "debug_assert", 1, DBG, "a fresh state gets one transition"),
    (r"Nfa::append$", "debug_assert", 1, DBG, "shift_ids(self.states.len()) keeps id == index (C02.b)"),
    (r"Nfa::epsilon_closure$", "assert:Overflow", 1, AR, "loop counter below a vector length"),
    (r"Nfa::epsilon_closure$", "call:index", 1, EL, "i < closure.len() by the loop condition"),
    (r"Nfa::epsilon_closure$", "call:panicking::panic_fmt", 1, EL, "targets of epsilon transitions are states of this NFA (shift_ids offsets every id, C02.b)"),
    (r"Nfa::get_match_transitions$", "call:index", 1, ID, "states of a closure are states of this NFA and id == index (C02.b)"),
    (r"Nfa::is_empty$", "call:index", 1, EL, "states[0] behind states.len() == 1 (short-circuit &&)"),
    (r"Nfa::shift_ids$", "assert:Overflow", 2, AR, W_ID32),
    (r"NfaState::offset$", "assert:Overflow", 3, AR, W_ID32),
    (r"ScannerCache::get$", "call:unwrap", 1, EL, "the recursive get after the insert takes the hit branch, which only returns Ok (C13.b/c)"),
    (r"scanner_builder::ScannerBuilder::build$", "call:unwrap", 1, LOCK, "SCANNER_CACHE.write(): poisoned only by a panic under the guard, i.e. iff this inventory is not clean"),
    (r"scanner_builder::SimpleScannerBuilder::build$", "call:unwrap", 1, LOCK, "SCANNER_CACHE.write(): poisoned only by a panic under the guard, i.e. iff this inventory is not clean"),
    (r"scanner_mode::ScannerMode::new$", "debug_assert", 1, PRE, "transitions sorted by token type: precondition stated by the property's quantifier and the documentation"),
    (r"scanner_mode::ScannerMode::new$", "assert:BoundsCheck", 2, EL, "windows(2) yields slices of length 2"),
    # ---- dot export
    (r"ScannerImpl::generate_compiled_automata_as_dot$", "call:unwrap", 1, PRE, "target_folder.to_str(): non-UTF-8 paths only (C18.d lists it)"),
    (r"dot::render_compiled_dfa$", "call:index", 2, ID, "end_states[id] with id in 0..states.len() and end_states.len() == states.len() (every constructor builds both with the same length)"),
]


def norm_kind(fn, bb, t):
    if t["k"] == "assert":
        m = re.split(r"[ {(]", t["msg"])[0]
        return "assert:" + m
    n = M.call_name(t)
    r = t.get("resolved_path") or ""
    if t.get("exp_outer") == "debug_assert!":
        return "debug_assert"
    if PANIC_CALL.search(n) or PANIC_CALL.search(r):
        k = "call:" + M.short_name(r or n)
        # classes of equivalent sites (swapping position().unwrap() for binary_search().unwrap(), or an
        # id-typed index for a usize index, does not change what has to be justified)
        if re.search(r"(Option|Result)::(unwrap|expect|unwrap_err|expect_err)$", k):
            return "call:unwrap"
        if re.search(r"call:(ids::)?index(_mut)?$", k):
            return "call:index"
        if k == "call:" + "traits::index" or re.search(r"call:(str::)?split_at$|call:<impl str>::split_at$", k):
            return "call:str-index"       # slicing a str at byte positions: `&s[a..b]`, `s.split_at(k)` (same char-boundary / bounds obligation)
        return k
    return None




def guarded_subtractions(F, fn):
    """Blocks of `a - b` overflow assertions that every path reaches only after having established a >= b by a comparison
    of the same two values (`if end <= start { 0 } else { end - start }`): discharged, they cannot fire."""
    cache = F.__dict__.setdefault("_guarded_subtractions", {})   # per fact base: the same function key names different bodies in different trees
    if fn.key in cache:
        return cache[fn.key]
    res = set()
    has = False
    for bb in fn.reachable():
        t = fn.term(bb)
        if t["k"] == "assert" and "Overflow" in t["msg"] and any(st["k"] == "assign" and st["rv"]["k"] == "binop" and st["rv"]["op"] == "SubWithOverflow" for st in fn.blocks[bb]["stmts"]):
            has = True
    if has:
        try:
            from .common import run_fn, LogModel, ordering_of
            from .cursor import GETTERS
            ex, paths = run_fn(fn, F, LogModel(), max_paths=3000, desugar=None, inline=GETTERS)
            seen = {}
            for p in paths:
                for e in p.events:
                    if e[0] == "assert" and len(e) > 4 and e[4] and e[4][0] == "SubWithOverflow" and e[1] in fn.reachable():
                        a_, b_ = e[4][1], e[4][2]
                        idx = p.events.index(e)
                        conds = p.conds
                        o = ordering_of(conds, lambda x: x == a_, lambda x: x == b_)
                        seen.setdefault(e[1], []).append(o <= {"E", "G"})
            if not ex.truncated:
                res = {bb for bb, v in seen.items() if v and all(v)}
        except Exception:
            res = set()
    cache[fn.key] = res
    return res


def guarded_indexings(F, fn):
    """Blocks of `v[i]` (Index::index calls) that every path reaches only after having established i < v.len() by a comparison
    of that index with the length of that collection (`(i < v.len()).then(|| v[i])`, `if i < v.len() { v[i] }`)."""
    cache = F.__dict__.setdefault("_guarded_indexings", {})
    if fn.key in cache:
        return cache[fn.key]
    res = set()
    cand = [bb for bb in fn.reachable() if fn.term(bb)["k"] == "call" and re.search(r"ops::Index<usize>>::index$", M.call_name(fn.term(bb)))]
    if cand:
        try:
            from .common import run_fn, LogModel, ordering_of
            runner = fn
            if fn.kind == "Closure":
                # the guard of an access inside a closure is in the function the closure is written in
                base_name = re.sub(r"(::\{closure#\d+\})+$", "", fn.name)
                par = [f_ for f_ in F.fns.values() if f_.name == base_name and f_.kind != "Closure"]
                runner = par[0] if par else fn
            ex, paths = run_fn(runner, F, LogModel(), max_paths=3000)
            seen = {}
            for p in paths:
                for e in p.events:
                    if e[0] == "call" and e[1] in cand and len(e) > 7 and e[6] == fn.name and re.search(r"ops::Index<usize>>::index$", e[2]):
                        v_ = ex.deref_val(p, e[7][0]) if e[7][0][0] == "ref" else e[7][0]
                        i_ = e[7][1]
                        coll = S_fstr(v_)

                        def is_len(x, coll=coll):
                            return x[0] == "app" and re.search(r"(^|::)len$", str(x[1])) is not None and len(x[2]) == 1 and S_fstr(x[2][0]).lstrip("&*") == coll.lstrip("&*")
                        o = ordering_of(p.conds, lambda x, i_=i_: x == i_, is_len)
                        seen.setdefault(e[1], []).append(o == {"L"})
            if not ex.truncated:
                res = {bb for bb, v in seen.items() if v and all(v)}
        except Exception:
            res = set()
    cache[fn.key] = res
    return res


def S_fstr(v):
    from . import symex as S_
    return S_.fstr(v)


def index_loop_sites(fn):
    """Panic sites discharged by the shape of a counting loop over a collection (symex.find_index_loops: `i` starts at 0,
    the body runs only under `i < v.len()`, `i += 1` once per iteration, v is not changed in the loop): `v[i]` is in bounds
    and `i + 1` cannot overflow (i < len <= isize::MAX)."""
    from . import symex as S_
    res = set()
    try:
        ils = dict(S_.find_index_loops(fn, worklists=True))     # (work-list counters too: their `+ 1` is under `i < len` as well)
        loops = fn.natural_loops()
    except Exception:
        return res
    for h, il in ils.items():
        body = loops.get(h, set())
        i = il["counter"]

        def is_counter(o):
            if o.get("k") not in ("copy", "move") or o["p"]["pj"]:
                return False
            if o["p"]["l"] == i:
                return True
            d = fn.single_def(o["p"]["l"])
            return bool(d and d["kind"] == "assign" and d["bb"] in body and d["stmt"]["rv"]["k"] == "use" and d["stmt"]["rv"]["op"].get("k") in ("copy", "move") and d["stmt"]["rv"]["op"]["p"]["l"] == i and not d["stmt"]["rv"]["op"]["p"]["pj"])
        for bb in body:
            t = fn.term(bb)
            if t["k"] == "assert" and "Overflow" in t["msg"]:
                if any(st["k"] == "assign" and st["rv"]["k"] == "binop" and st["rv"]["op"] == "AddWithOverflow" and is_counter(st["rv"]["a"]) and st["rv"]["b"].get("k") == "const" for st in fn.blocks[bb]["stmts"]):
                    res.add(bb)
            if il.get("worklist"):
                continue        # (the collection changes inside the loop: only the counter's increment is discharged)
            if t["k"] == "call" and re.search(r"ops::Index<usize>>::index$", M.call_name(t)) and len(t["args"]) == 2 and is_counter(t["args"][1]):
                a0 = t["args"][0]
                d0 = fn.single_def(a0["p"]["l"]) if a0.get("k") in ("copy", "move") and not a0["p"]["pj"] else None
                if d0 and d0["kind"] == "assign" and d0["stmt"]["rv"]["k"] == "ref" and d0["stmt"]["rv"]["p"]["l"] == il["coll"]["l"] and [e.get("k") for e in d0["stmt"]["rv"]["p"]["pj"]] == [e.get("k") for e in il["coll"]["pj"]] and [e.get("i") for e in d0["stmt"]["rv"]["p"]["pj"]] == [e.get("i") for e in il["coll"]["pj"]]:
                    res.add(bb)
            if t["k"] == "assert" and "BoundsCheck" in t["msg"] and t["cond"].get("k") in ("copy", "move"):
                # array/slice indexing v[i] compiled to a bounds check `i < len`
                dc = fn.single_def(t["cond"]["p"]["l"])
                if dc and dc["kind"] == "assign" and dc["stmt"]["rv"]["k"] == "binop" and dc["stmt"]["rv"]["op"] == "Lt" and is_counter(dc["stmt"]["rv"]["a"]):
                    res.add(bb)
    return res


def bool_index_sites(fn):
    """Bounds checks of `TABLE[usize::from(flag)]` on a table of at least two entries: the index is 0 or 1."""
    res = set()
    for bb in fn.reachable():
        t = fn.term(bb)
        if t["k"] == "assert" and "BoundsCheck" in t["msg"] and t["cond"].get("k") in ("copy", "move"):
            dc = fn.single_def(t["cond"]["p"]["l"])
            if not (dc and dc["kind"] == "assign" and dc["stmt"]["rv"]["k"] == "binop" and dc["stmt"]["rv"]["op"] == "Lt"):
                continue
            a, b = dc["stmt"]["rv"]["a"], dc["stmt"]["rv"]["b"]
            big = b.get("k") == "const" and re.match(r"^(\d+)_usize$", str(b.get("s", ""))) and int(re.match(r"^(\d+)", str(b["s"])).group(1)) >= 2
            if not big or a.get("k") not in ("copy", "move"):
                continue
            l = a["p"]["l"]
            n_ = 0
            while n_ < 4:
                n_ += 1
                d = fn.single_def(l)
                if d is None:
                    break
                if d["kind"] == "call":
                    if re.search(r"<usize as std::convert::From<bool>>::from$", M.call_name(d["term"])):
                        res.add(bb)
                    break
                if d["kind"] == "assign" and d["stmt"]["rv"]["k"] == "use" and d["stmt"]["rv"]["op"].get("k") in ("copy", "move") and not d["stmt"]["rv"]["op"]["p"]["pj"]:
                    l = d["stmt"]["rv"]["op"]["p"]["l"]
                    continue
                if d["kind"] == "assign" and d["stmt"]["rv"]["k"] == "cast" and d["stmt"]["rv"]["from"] == "bool":
                    res.add(bb)
                break
    return res


def const_arith_sites(fn):
    """Overflow checks of an operation on two constants (named constants added up, `BASE + 1`): the compiler evaluates them, a
    failing one would be a compile error (`arithmetic_overflow` is deny-by-default)."""
    out = set()
    for bb in fn.reachable():
        t = fn.term(bb)
        if t["k"] != "assert" or t.get("msg") != "Overflow":
            continue
        c = t.get("cond", {}).get("p", {})
        for st in reversed(fn.blocks[bb]["stmts"]):
            if st["k"] == "assign" and st["p"]["l"] == c.get("l") and not st["p"]["pj"]:
                rv = st["rv"]
                if rv["k"] == "binop" and str(rv.get("op", "")).endswith("WithOverflow") and rv["a"]["k"] == "const" and rv["b"]["k"] == "const":
                    out.add(bb)
                break
    return out


def counter_arith_sites(fn):
    """Overflow checks on a loop counter discharged by the shape of the loop: `let mut i = C; while i < X { .. i - c ..; i += 1 }` —
    the counter has one definition outside the loop (a constant C) and one inside (`i = i + 1`, in a block every trip passes);
    every trip passes the guard `i < X` first.  Then `i + 1` cannot overflow (i < X <= usize::MAX) and `i - c` with a constant
    c <= C cannot underflow (the counter never falls below C)."""
    out = set()
    try:
        loops = fn.natural_loops()
        defs = fn.defs()
        backs = fn.back_edges()
    except Exception:
        return out

    def cval(o):
        if o.get("k") != "const":
            return None
        m = re.match(r"^(\d+)", str(o.get("val", o.get("s", ""))).replace("const ", ""))
        return int(m.group(1)) if m else None

    def copies_of(i, body):
        res = {i}
        for l, ds in defs.items():
            if len(ds) == 1 and ds[0]["kind"] == "assign" and ds[0]["bb"] in body:
                rv = ds[0]["stmt"]["rv"]
                if rv["k"] == "use" and rv["op"].get("k") in ("copy", "move") and rv["op"]["p"]["l"] == i and not rv["op"]["p"]["pj"]:
                    res.add(l)
        return res
    for h, body in loops.items():
        srcs = [a for a, b in backs if b == h]
        for i, ds in defs.items():
            if i >= len(fn.locals) or fn.locals[i]["ty"] != "usize" or len(ds) != 2 or any(d["kind"] != "assign" or d["partial"] for d in ds):
                continue
            ins = [d for d in ds if d["bb"] in body]
            outs = [d for d in ds if d["bb"] not in body]
            if len(ins) != 1 or len(outs) != 1:
                continue
            rv0 = outs[0]["stmt"]["rv"]
            c0 = cval(rv0["op"]) if rv0["k"] == "use" else None
            if c0 is None:
                continue
            rv = ins[0]["stmt"]["rv"]
            inc_bb = None
            if rv["k"] == "use" and rv["op"].get("k") in ("copy", "move") and len(rv["op"]["p"]["pj"]) == 1 and rv["op"]["p"]["pj"][0].get("i") == 0:
                d2 = fn.single_def(rv["op"]["p"]["l"])
                if d2 and d2["kind"] == "assign" and d2["stmt"]["rv"]["k"] == "binop" and d2["stmt"]["rv"]["op"] == "AddWithOverflow":
                    a, b = d2["stmt"]["rv"]["a"], d2["stmt"]["rv"]["b"]
                    if a.get("k") in ("copy", "move") and a["p"]["l"] == i and not a["p"]["pj"] and cval(b) == 1:
                        inc_bb = d2["bb"]
            if inc_bb is None or not all(fn.dominates(ins[0]["bb"], s_) for s_ in srcs):
                continue
            cps = copies_of(i, body)
            guard = None
            for g in sorted(body):
                t = fn.term(g)
                if t["k"] != "switch" or t.get("discr_ty") != "bool" or t["discr"].get("k") not in ("copy", "move") or t["discr"]["p"]["pj"]:
                    continue
                dd = fn.single_def(t["discr"]["p"]["l"])
                if not (dd and dd["kind"] == "assign" and dd["stmt"]["rv"]["k"] == "binop" and dd["stmt"]["rv"]["op"] == "Lt"):
                    continue
                a = dd["stmt"]["rv"]["a"]
                if a.get("k") not in ("copy", "move") or a["p"]["pj"] or a["p"]["l"] not in cps:
                    continue
                false_t = [tb for v_, tb in t["targets"] if v_ == 0]
                if not false_t or false_t[0] in body or t["otherwise"] not in body:
                    continue
                if all(fn.dominates(g, x) for x in body if x != h and not fn.dominates(x, g)):
                    guard = g
                    break
            if guard is None:
                continue
            for bb in body:
                t = fn.term(bb)
                if t["k"] != "assert" or t.get("msg") != "Overflow" or not fn.dominates(guard, bb):
                    continue
                for st in fn.blocks[bb]["stmts"]:
                    if st["k"] == "assign" and st["rv"]["k"] == "binop":
                        rvb = st["rv"]
                        a, b = rvb["a"], rvb["b"]
                        if a.get("k") in ("copy", "move") and not a["p"]["pj"] and a["p"]["l"] in cps:
                            if rvb["op"] == "AddWithOverflow" and cval(b) == 1 and bb == inc_bb:
                                out.add(bb)
                            if rvb["op"] == "SubWithOverflow" and cval(b) is not None and cval(b) <= c0:
                                out.add(bb)
    return out


def sites(fn):
    out = []
    guarded = guarded_subtractions(fn.facts, fn) if hasattr(fn, "facts") and fn.facts is not None else set()
    guarded = set(guarded) | index_loop_sites(fn) | bool_index_sites(fn) | const_arith_sites(fn) | counter_arith_sites(fn)
    if hasattr(fn, "facts") and fn.facts is not None:
        guarded |= guarded_indexings(fn.facts, fn)
    for bb in sorted(fn.reachable()):
        if bb in guarded:
            continue
        t = fn.term(bb)
        if t["k"] not in ("assert", "call"):
            continue
        k = norm_kind(fn, bb, t)
        if k is None:
            continue
        if t["k"] == "call" and k == "debug_assert" and not (PANIC_CALL.search(M.call_name(t)) or PANIC_CALL.search(t.get("resolved_path") or "")):
            continue
        out.append((k, bb, t))
    return out


def owner_names(F, fn):
    """Names under which the panic sites of `fn` are accounted: a closure is accounted at the function it is written in
    (moving an expression into or out of a closure does not change what has to be justified); a helper the rules do not
    know by name (introduced later) is accounted at the known functions that call it."""
    from .common import owners
    from . import symex as S
    name = re.sub(r"(::\{closure#\d+\})+$", "", fn.name)
    base = fn
    if name != fn.name:
        cand = [f for f in F.fns.values() if f.name == name]
        if cand:
            base = cand[0]
    if S.is_unknown_helper(base):
        from .common import helper_is_body_of
        bo_ = helper_is_body_of(F, base)
        if bo_:
            return sorted({k_.name for k_ in bo_})      # the body of a known function moved into a helper: accounted there
        os_ = sorted({re.sub(r"(::\{closure#\d+\})+$", "", o.name) for o, _ in owners(F, base)})
        return os_          # [] for a helper nobody calls
    return [name]


def inventory(F):
    """{group: {owner fn name: Counter(kind)}} for user-written functions reachable from the roots."""
    inv = {}
    for group, rx in ROOTS.items():
        roots = [f for f in F.fns.values() if re.search(rx, f.name) and f.kind != "Closure"]
        reach = F.reachable_fns(roots)
        g = {}
        for k in sorted(reach):
            fn = F.fns[k]
            if fn.j.get("exp"):
                continue  # compiler/macro generated bodies (derives, impl_id!): their sites are counted at the caller
            st = sites(fn)
            if not st:
                continue
            for owner in owner_names(F, fn):
                c, locs, _ = g.setdefault(owner, (Counter(), {}, fn))
                for kind, bb, t in st:
                    c[kind] += 1
                    locs.setdefault(kind, []).append(fn.loc(bb))
        inv[group] = (g, len(roots), len(reach))
    return inv


def analyze(ctx, want):
    F = ctx.facts
    inv = inventory(F)
    groups = []
    if "C07.d" in want:
        groups.append(("scan", "C07.d"))
    if "C07.e" in want or "C15.h" in want:
        groups.append(("build", "C15.h" if "C15.h" in want else "C07.e"))
    if "C18.d" in want:
        groups.append(("dot", "C18.d"))
    if any(g_ == "build" for g_, _ in groups) and not getattr(ctx, "_panic_premises", False):
        # the reasons given for the minimizer's sites ("every state is in some group", "groups are non-empty") are the
        # partition invariants: they are premises of this inventory, decided here as well
        ctx._panic_premises = True
        from . import minimizer_rules
        minimizer_rules.analyze(ctx, {"C03.a", "C03.b", "C03.e"})
        # ... and the recursion depth of the conversions is bounded by the parser's nest limit (no stack overflow): the parser
        # configuration and the text pipeline are premises as well
        from . import pC15
        pC15.parse_pipeline(ctx, "C02.k")
        # ... and the reasons given for the sites of the NFA layer ("id == index", "targets are states of this NFA", "the NFA
        # that contains a state is found") are the numbering / closure rules: a build that panics there panics under the cache
        # lock and poisons it for every thread
        from . import nfa_rules, closure_rules
        nfa_rules.analyze(ctx, {"C02.a", "C02.b"})
        closure_rules.analyze(ctx, {"C02.d"})
    if any(g_ == "scan" for g_, _ in groups) and not getattr(ctx, "_panic_premises_scan", False):
        # the reasons given for the scan path's sites are rules of the kernel, the cursor and the construction: "end and type are
        # written together" (C05.a/d), "the start is set before any candidate" (C07.a), "offset <= len by the clamp" (C10.c), "the
        # line table stays strictly ascending" (C09.b), "labels and terminal_ids come from the same pattern list and the
        # minimizer copies labels" (C02.d, C03.g) — decided wherever this inventory is used
        ctx._panic_premises_scan = True
        from . import kernel, cursor, closure_rules, minimizer_rules
        kernel.analyze(ctx, {"C05.a", "C05.d", "C07.a"})
        cursor.analyze(ctx, {"C09.b", "C10.c"})
        closure_rules.analyze(ctx, {"C02.d"})
        minimizer_rules.analyze(ctx, {"C03.g"})
    if any(g_ == "dot" for g_, _ in groups) and not getattr(ctx, "_panic_premises_dot", False):
        # "state ids are < states.len() == end_states.len()" (C02.d, C03.f/g)
        ctx._panic_premises_dot = True
        from . import closure_rules, minimizer_rules
        closure_rules.analyze(ctx, {"C02.d"})
        minimizer_rules.analyze(ctx, {"C03.f", "C03.g"})
    for group, rule in groups:
        g, nroots, nreach = inv[group]
        ctx.floor(rule, "%s-path entry points" % group, nroots, {"scan": 10, "build": 8, "dot": 1}[group])
        ctx.floor(rule, "%s-path reachable functions" % group, nreach, {"scan": 40, "build": 100, "dot": 5}[group])
        total = 0
        classes = Counter()

        def type_of_fn(nm):
            # the impl / module a function belongs to: moving an expression between methods of one type keeps the account
            if nm.startswith("<"):
                m_ = re.match(r"^(<.*? as .*?>)::", nm)
                return m_.group(1) if m_ else nm
            return nm.rsplit("::", 1)[0]

        def merge_kind(k):
            # classes of equivalent sites: `v[i]` / `.get(i).unwrap()` / `.unwrap()` ("access that presumes presence"), and
            # `debug_assert!(c)` / `if cfg!(debug_assertions) && !c { panic!() }` / `unwrap_or_else(|| panic!())` ("explicit panic
            # on a condition the table justifies as impossible"): rewriting one member of a class into another does not change
            # what has to be justified
            if k in ("call:unwrap", "call:index", "assert:BoundsCheck"):      # (`v[i]` on a slice / array is a BoundsCheck assert, on a Vec an Index::index call)
                return "call:access"
            if k == "debug_assert" or re.match(r"call:panicking::(panic|panic_fmt|panic_display|panic_explicit|panic_nounwind)$", k):
                return "call:explicit"
            return k
        from . import symex as S_
        voc = S_.vocabulary()
        grp_allowed = Counter()
        # (only functions that own sites on THIS path in the reference tree, rules/panic_groups.json: a site of the same
        # type that was reachable from other entry points only is a new way for this path to panic)
        import json, os
        try:
            members = set(json.load(open(os.path.join(os.path.dirname(__file__), "panic_groups.json")))[group])
        except (OSError, KeyError, ValueError):
            members = set()
            ctx.missing(rule, "rules/panic_groups.json (tools/gen_panic_groups)")
        for r in TABLE:
            for vn in sorted(voc & members):
                if re.search(r[0], vn):
                    grp_allowed[(type_of_fn(vn), merge_kind(r[1]))] += r[2]
                    break
        grp_actual = Counter()
        for name, (c0, locs0, fn) in g.items():
            for kind, n in c0.items():
                if kind.split(":")[-1] in PTR_CHECKS:
                    continue
                grp_actual[(type_of_fn(name), merge_kind(kind))] += n
        for name, (c0, locs0, fn) in sorted(g.items()):
            # `v[i]`, `v.get(i).unwrap()`, `opt.unwrap()`: one class of site ("access that presumes presence"); rewriting one
            # into the other does not change what has to be justified, so they are counted together per function
            c = Counter()
            locs = {}
            for kind, n in c0.items():
                k2 = merge_kind(kind)
                c[k2] += n
                locs.setdefault(k2, []).extend(locs0[kind])
            for kind, n in sorted(c.items()):
                total += n
                if kind.split(":")[-1] in PTR_CHECKS:
                    classes["ptr-check"] += n
                    ctx.ob(rule, "site:%s:%s" % (M.short_name(name), kind), True,
                           "%d compiler-inserted debug check(s) on a pointer derived from a live Box/Arc/reference" % n, locs[kind][0])
                    continue
                rows = [r for r in TABLE if re.search(r[0], name) and merge_kind(r[1]) == kind]
                allowed = sum(r[2] for r in rows)
                ok = n <= allowed
                moved = False
                if not ok:
                    # more sites than this function had: were they moved here from another method of the same type
                    # (a helper inlined, two methods merged)?  Then the type's account is unchanged.
                    gk = (type_of_fn(name), kind)
                    if grp_actual[gk] <= grp_allowed[gk] and grp_allowed[gk] > 0:
                        ok = moved = True
                swapped = False
                if not ok and kind == "call:explicit":
                    # `x.unwrap()` / `v[i]` written as `match x { Some(v) => v, None => unreachable!() }`: the explicit panic stands
                    # where an access that presumes presence stood — what has to be justified is the same condition.  Explicit
                    # sites may use the allowance the function's accesses leave unused.
                    acc_allowed = sum(r[2] for r in TABLE if re.search(r[0], name) and merge_kind(r[1]) == "call:access")
                    if n <= allowed + max(0, acc_allowed - c.get("call:access", 0)):
                        ok = swapped = True
                        rows = rows or [r for r in TABLE if re.search(r[0], name) and merge_kind(r[1]) == "call:access"]
                why = rows[0][4] if rows else ""
                if swapped:
                    why = "explicit panic in place of an access that presumes presence (%d access site(s) justified, %d present): %s" % (acc_allowed, c.get("call:access", 0), why)
                if moved:
                    why = "sites moved between methods of %s: %d site(s) of this kind in the type, %d justified in rules/panics.py" % (M.short_name(gk[0]), grp_actual[gk], grp_allowed[gk])
                cls = rows[0][3] if rows else "unjustified"
                classes[cls if ok else "unjustified"] += n
                if ok:
                    ctx.ob(rule, "site:%s:%s" % (M.short_name(name), kind), True,
                           "%d site(s), justified [%s]: %s" % (n, cls, why), locs[kind][0])
                else:
                    ctx.ob(rule, "site:%s:%s" % (M.short_name(name), kind), False,
                           "%d panic site(s) of kind %s reachable from the %s entry points, %d justified%s — unjustified panic site at %s" % (
                               n, kind, group, allowed, (" [" + why + "]") if why else "", ", ".join(locs[kind])), locs[kind][-1])
        ctx.sample({"rule": rule, "group": group, "entry_points": nroots, "reachable_functions": nreach, "sites": total, "by_class": dict(classes)})
        ctx.assume("panic inventory (%s path): the invariant classes precondition / offset-arith / id-in-range are assumptions stated per site in rules/panics.py; element-present and option-typestate sites are linked to the rule that checks them" % group)
