"""Ownership / sharing / cache / thread-safety rules (C12, C13, C14): deep type-structure walk
(A5), statics and unsafe audit, lock discipline, cache transparency."""
import re

from . import mirlib as M
from . import symex as S
from .common import BaseModel, run_fn, ret_paths, variant_of, field_writers, aggregates_of, callers_of, is_derived

# ---- A5 tables -------------------------------------------------------------------------------
CONTAINERS = {  # external ADTs that are descended through (some of) their type arguments
    "std::vec::Vec": [0], "std::boxed::Box": [0], "std::option::Option": [0], "std::sync::Arc": [0],
    "std::collections::HashMap": [0, 1], "std::collections::BTreeMap": [0, 1], "std::collections::BTreeSet": [0],
    "std::collections::VecDeque": [0], "std::collections::HashSet": [0], "std::result::Result": [0, 1],
    "std::marker::PhantomData": [], "std::ops::Range": [0], "std::ops::RangeInclusive": [0], "std::ops::RangeFrom": [0],
    "std::ops::RangeTo": [0], "std::ops::RangeToInclusive": [0],
}
LEAF_OK = re.compile(r"^(std::string::String|std::str::CharIndices|std::str::Chars|regex_syntax::ast::.*|rustc_hash::FxBuildHasher|"
                     r"std::alloc::Global|std::path::PathBuf|std::time::Instant)$")
DENY = re.compile(r"(UnsafeCell|::Cell$|RefCell|OnceCell|Mutex|RwLock|Atomic|OnceLock|LazyLock|LazyCell|std::rc::Rc|std::rc::Weak|std::sync::Weak|mpsc::|Condvar|Barrier|thread::)")
SHARED_HANDLES = {"std::sync::Arc"}


def build_delegation(F):
    """{name of a build function: detail} for a build function that does not touch the cache itself but hands a builder holding
    exactly its own mode(s) to the other build function and returns what that returns
    (`ScannerBuilder::new().add_scanner_mode(self.scanner_mode).build()`)."""
    cached = F.__dict__.get("_build_delegation")
    if cached is not None:
        return cached
    out = {}
    pats = {"simple": r"scanner_builder::SimpleScannerBuilder::build$", "multi": r"scanner_builder::ScannerBuilder::build$"}
    try:
        from .cursor import Model as VecModel
        for me, other in (("simple", "multi"), ("multi", "simple")):
            fn, ofn = F.fn(pats[me]), F.fn(pats[other])
            if any("SCANNER_CACHE" in str(t.get("callee_path", "")) for _, t in fn.calls()):
                continue
            ex, paths = run_fn(fn, F, VecModel(), inline=r"scanner_builder::(ScannerBuilder|SimpleScannerBuilder)::(new|add_scanner_mode|add_scanner_modes)$|ScannerBuilder as std::default::Default>::default$", max_paths=300)
            rps = ret_paths(paths)
            if ex.truncated or not rps or len(rps) != len([p for p in paths if p.end[0] != "dead"]):
                continue
            ok = True
            det = ""
            for p in rps:
                cs = [e for e in p.events if e[0] == "call" and (e[5].get("resolved") == ofn.key or e[5].get("callee") == ofn.key)]
                if len(cs) != 1 or p.end[1] != cs[0][4] or p.calls(r"ScannerCache::get$"):
                    ok = False
                    break
                recv = cs[0][7][0] if len(cs[0]) > 7 else cs[0][3][0]
                recv = ex.deref_val(p, recv) if recv[0] == "ref" else recv
                own = [("field", ("sym", "self"), "scanner_mode"), ("field", ("sym", "self"), "scanner_modes")]
                modes = recv[3][0] if recv[0] == "adt" and recv[3] else None

                def vec_of(t_, depth=0):
                    # the elements of a vector value built by new() + push(..): [..] or None
                    if t_ is None or depth > 6:
                        return None
                    if t_[0] == "vec":
                        return list(t_[1])
                    if t_[0] == "app" and re.search(r"Vec::<.*>::(new|with_capacity)$|Vec::(new|with_capacity)$|Default>::default$", str(t_[1])):
                        return []
                    if t_[0] == "app" and re.search(r"^mut:.*Vec::<.*>::push$|^mut:.*Vec::push$", str(t_[1])) and len(t_[2]) == 2:
                        b_ = vec_of(t_[2][0], depth + 1)
                        return None if b_ is None else b_ + [t_[2][1]]
                    return None
                vl = vec_of(modes)
                if vl is not None:
                    modes = ("vec", tuple(vl))
                if modes is not None and modes[0] == "vec" and len(modes[1]) == 1 and modes[1][0] in own:
                    det = "%s(builder holding [%s])" % (M.short_name(ofn.name), S.fstr(modes[1][0]))
                elif modes is not None and modes in own:
                    det = "%s(builder holding %s)" % (M.short_name(ofn.name), S.fstr(modes))
                else:
                    ok = False
                    break
            if ok and det:
                out[fn.name] = det
    except Exception:
        out = {}
    F.__dict__["_build_delegation"] = out
    return out


def walk_type(F, t, path, out, seen, closures_for_dyn):
    """Collect findings: out['deny'] / out['unknown'] / out['shared'] / out['visited']."""
    k = t["k"]
    here = path + [t["s"]]
    if k == "prim":
        return
    if k == "adt":
        p = t["path"]
        if DENY.search(p):
            out["deny"].append((p, " -> ".join(here)))
            return
        if t.get("local"):
            if p in seen:
                return
            seen.add(p)
            out["visited"].add(p)
            a = F.adts.get(p)
            if a is None:
                out["unknown"].append((p, " -> ".join(here)))
                return
            for v in a["variants"]:
                for f in v["fields"]:
                    walk_type(F, f["ty"], here + ["." + f["name"]], out, seen, closures_for_dyn)
            return
        if p in CONTAINERS:
            if p in SHARED_HANDLES:
                out["shared"].append((t["s"], " -> ".join(here)))
            for i in CONTAINERS[p]:
                if i < len(t["args"]):
                    walk_type(F, t["args"][i], here, out, seen, closures_for_dyn)
            return
        if LEAF_OK.match(p):
            return
        out["unknown"].append((p, " -> ".join(here)))
        return
    if k == "ref":
        if t["mut"]:
            out["deny"].append(("&mut", " -> ".join(here)))
        else:
            out["shared"].append((t["s"], " -> ".join(here)))
        walk_type(F, t["ty"], here, out, seen, closures_for_dyn)
        return
    if k == "ptr":
        out["deny"].append(("raw pointer", " -> ".join(here)))
        return
    if k in ("slice", "array"):
        walk_type(F, t["ty"], here, out, seen, closures_for_dyn)
        return
    if k == "tuple":
        for x in t["tys"]:
            walk_type(F, x, here, out, seen, closures_for_dyn)
        return
    if k == "dyn":
        key = "dyn:" + t["s"]
        if key in seen:
            return
        seen.add(key)
        if not any(tr.startswith("std::ops::Fn") for tr in t.get("traits", [])):
            out["unknown"].append((t["s"], " -> ".join(here)))
            return
        out["dyn"].append(t["s"])
        for c in closures_for_dyn(t["s"]):
            out["closures"].add(c["key"])
            for u in c["upvars"]:
                walk_type(F, u, here + ["closure " + c["key"].split("::")[-2] + "::" + c["key"].split("::")[-1]], out, seen, closures_for_dyn)
        return
    if k == "closure":
        for u in t.get("upvars", []):
            walk_type(F, u, here, out, seen, closures_for_dyn)
        return
    if k == "str" or t["s"] == "str":
        return
    if k in ("fndef", "fnptr"):
        return
    if k == "param":
        out["unknown"].append(("type parameter " + t["s"], " -> ".join(here)))
        return
    out["unknown"].append((t["s"], " -> ".join(here)))


def dyn_closures(F):
    """dyn Fn(<args>) -> bool + ...  => closures of the crate with exactly these parameter types."""
    def f(dyn_s):
        m = re.search(r"Fn\((.*?)\)\s*->\s*(\w+)", dyn_s)
        if not m:
            return []
        want = [M.norm_ty(x) for x in m.group(1).split(",") if x.strip()]
        out = []
        for c in F.j["closures"]:
            got = [M.norm_ty(x) for x in c.get("inputs", [])]
            if got == want and c.get("output") == m.group(2):
                out.append(c)
        return out
    return f


def analyze(ctx, want):
    F = ctx.facts

    def ob(rule, key, ok, detail, loc=""):
        if rule in want:
            ctx.ob(rule, key, ok, detail, loc)

    def sample(rule, obj):
        if rule in want:
            obj = dict(obj)
            obj["rule"] = rule
            ctx.sample(obj)

    ctx.trust("rustc's type checker, trait solver (Send/Sync/Freeze answers) and borrow checker; std containers (Vec, Box, Arc, HashMap, String) own or share their contents as documented")
    dc = dyn_closures(F)

    # ============================================================== determinism of hash iteration (C14.f)
    # "every thread observes exactly the results of the same calls made sequentially": a std HashMap / HashSet with the default
    # hasher (RandomState) is seeded per instance, so the order in which it is walked differs between threads and between runs;
    # the crate's maps use the seedless Fx hasher.  Closed set: no walk over a randomly seeded table anywhere in the library.
    if "C14.f" in want:
        n_walks = 0
        WALK = r"(::|>)(iter|iter_mut|into_iter|keys|values|values_mut|into_keys|into_values|drain|retain|extract_if)(::<.*>)?$"
        for fn in sorted(F.fns.values(), key=lambda f: f.name):
            if is_derived(fn):
                continue
            for bb, t in fn.calls():
                if t.get("exp_outer") in ("trace!", "debug!", "info!", "warn!", "error!"):
                    continue
                nm = M.call_name(t)
                m = re.search(r"std::collections::(HashMap|HashSet)(::)?<", nm)
                if not m or not re.search(WALK, nm):
                    continue
                n_walks += 1
                seedless = re.search(r"FxBuildHasher|BuildHasherDefault<", nm) is not None
                ob("C14.f", "hash-table-walk-is-seedless:%s" % M.short_name(fn.name), seedless,
                   "%s walks %s%s" % (M.short_name(fn.name), M.short_name(nm)[:80], "" if seedless else " — a table with the default (randomly seeded) hasher: its order differs between threads and runs"), fn.loc(bb))
        ctx.floor("C14.f", "walks over hash tables", n_walks, 2)

    # ============================================================== A5 walk (C12.a/b, C14.a/e)
    roots = ["scanner::Scanner", "internal::scanner_impl::ScannerImpl", "find_matches::FindMatches", "internal::find_matches_impl::FindMatchesImpl",
             "scanner_builder::ScannerBuilder", "scanner_builder::SimpleScannerBuilder"]
    for r in roots:
        a = F.adts.get(r)
        if a is None:
            ctx.missing("C12.a", "type " + r)
            continue
        out = {"deny": [], "unknown": [], "shared": [], "visited": set(), "dyn": [], "closures": set()}
        walk_type(F, {"k": "adt", "path": r, "local": True, "args": [], "s": r}, [], out, set(), dc)
        short = r.split("::")[-1]
        for rule in ("C12.a", "C14.e"):
            ob(rule, "no-interior-mutability-reachable:" + short, not out["deny"],
               "interior-mutability / single-thread / raw-pointer types reachable from %s: %s" % (short, out["deny"][:4]), a["file"])
            ob(rule, "no-unknown-type-reachable:" + short, not out["unknown"],
               "types in neither the container nor the plain-data table reachable from %s: %s (fail closed)" % (short, out["unknown"][:4]), a["file"])
        tr = a.get("traits") or {}
        ob("C12.a", "freeze:" + short, tr.get("Freeze") is True, "%s: Freeze = %s (trait solver)" % (short, tr.get("Freeze")), a["file"])
        if r in ("scanner::Scanner", "internal::scanner_impl::ScannerImpl", "scanner_builder::ScannerBuilder", "scanner_builder::SimpleScannerBuilder"):
            ob("C14.a", "send+sync:" + short, tr.get("Send") is True and tr.get("Sync") is True, "%s: Send = %s, Sync = %s (trait solver)" % (short, tr.get("Send"), tr.get("Sync")), a["file"])
        else:
            ob("C14.a", "send:" + short, tr.get("Send") is True, "%s: Send = %s (trait solver)" % (short, tr.get("Send")), a["file"])
        sample("C12.a", {"root": short, "types_visited": len(out["visited"]), "shared_handles": sorted({s_ for s_, _ in out["shared"]})[:8],
                         "dyn_resolved_to_closures": len(out["closures"])})
        if r == "internal::scanner_impl::ScannerImpl":
            if "C12.b" in want:
                ctx.floor("C12.b", "closures behind the dyn Fn handles of ScannerImpl", len(out["closures"]), 20)
            # C12.b every such closure: Send+Sync (solver), upvars Freeze
            for ck in sorted(out["closures"]):
                c = F.closures[ck]
                t = c.get("traits", {})
                fr = all(u.get("freeze", True) for u in c["upvars"])
                ob("C12.b", "closure-hides-no-state:" + ck.split("internal::")[-1], t.get("Send") and t.get("Sync") and fr and c["ckind"] == "Fn",
                   "closure kind %s, Send=%s Sync=%s, upvars %s" % (c["ckind"], t.get("Send"), t.get("Sync"), [u["s"][:50] for u in c["upvars"]]), c["file"])
    # Clone of the compiled scanner is derived (deep for owned data, Arc::clone for shared parts)
    for tname in ("internal::scanner_impl::ScannerImpl", "internal::compiled_scanner_mode::CompiledScannerMode", "internal::compiled_dfa::CompiledDfa",
                  "internal::compiled_lookahead::CompiledLookahead", "internal::compiled_dfa::StateData"):
        ims = [i for i in F.impls if i["of_trait"] and i["trait"] == "std::clone::Clone" and i["self"]["s"] == tname]
        faithful = None
        if len(ims) == 1 and not ims[0]["derived"]:
            # a hand-written Clone is accepted when it is the derive written out: one return path whose value is the same
            # struct with every field cloned from the same field of `self`, in order (nothing defaulted, shared or recomputed)
            body = [f_ for f_ in F.fns.values() if re.search(r"<%s as std::clone::Clone>::clone$" % re.escape(tname), f_.name)]
            a_ = F.adts.get(tname)
            fields_ = [f_["name"] for f_ in a_["variants"][0]["fields"]] if a_ and len(a_.get("variants", [])) == 1 else None
            if len(body) == 1 and fields_:
                try:
                    ex_c, ps_c = run_fn(body[0], F, BaseModel(), max_paths=200)
                    rp_c = ret_paths(ps_c)
                    def from_self(v_, name_):
                        s_ = re.sub(r"[&*()]", "", S.fstr(v_))
                        return s_ == "self." + name_
                    faithful = len(ps_c) == 1 and len(rp_c) == 1 and (
                        re.sub(r"[&*()]", "", S.fstr(rp_c[0].end[1])) == "self" or
                        (rp_c[0].end[1][0] == "adt" and str(rp_c[0].end[1][1]) == tname and len(rp_c[0].end[1][3]) == len(fields_)
                         and all(from_self(v_, n_) for v_, n_ in zip(rp_c[0].end[1][3], fields_))))
                except Exception:
                    faithful = False
        ob("C12.a", "clone-derived:" + tname.split("::")[-1], len(ims) == 1 and (ims[0]["derived"] or faithful is True),
           "Clone impls for %s: %s" % (tname, [(i["derived"]) for i in ims]), ims[0]["file"] if ims else "")

    # ============================================================== statics / back doors (C12.c)
    st = F.statics
    user_statics = [s for s in st]
    ob("C12.c", "no-static-mut", not [s for s in user_statics if s["mut"]], "static mut items: %s" % [s["path"] for s in user_statics if s["mut"]], "")
    im = [s for s in user_statics if not s["freeze"]]
    ob("C12.c", "interior-mutable-statics-closed-set", [s["path"].split("::")[-1] for s in im] in ([], ["SCANNER_CACHE"]),
       "statics with interior mutability: %s (closed set: SCANNER_CACHE)" % [s["path"] for s in im], im[0]["file"] if im else "")
    users = {}
    for fn in F.fns.values():
        for bb, i, s in fn.assigns():
            rv = s["rv"]
            ops = M.rvalue_operands(rv)
            for o in ops:
                if o.get("static"):
                    users.setdefault(o["static_path"], set()).add(fn.name)
    from .common import owners as _owners
    for sp in list(users):
        # a helper the rules do not know by name touches the static on behalf of its callers
        eff = set()
        for f_ in users[sp]:
            fobj = [x for x in F.fns.values() if x.name == f_]
            if fobj and S.is_unknown_helper(fobj[0]):
                eff |= {o.name for o, _ in _owners(F, fobj[0])}
            else:
                eff.add(f_)
        users[sp] = eff
    for sp, fs in sorted(users.items()):
        for f_ in sorted(fs):
            ok = re.search(r"scanner_builder::(ScannerBuilder|SimpleScannerBuilder)::build$", f_) is not None
            for rule in ("C12.c", "C14.d"):
                ob(rule, "static-user:%s<-%s" % (sp.split("::")[-1], M.short_name(f_)), ok, "%s is referenced from %s%s" % (sp, f_, "" if ok else " (only the two build functions may touch the cache)"), "")
    dele = build_delegation(F)
    for bn, dd in sorted(dele.items()):
        ob("C14.d", "static-user:SCANNER_CACHE<-%s" % M.short_name(bn), True, "reaches the cache only through the other build function: %s" % dd, "")
    if "C14.d" in want:
        ctx.floor("C14.d", "functions referencing SCANNER_CACHE", sum(len(v) for v in users.values()) + len(dele), 2)
    backdoor = re.compile(r"Arc::<.*>::(get_mut|make_mut|get_mut_unchecked|from_raw|into_raw|as_ptr|try_unwrap)|mem::transmute|ptr::(write|read|copy)|slice::from_raw_parts|Box::<.*>::(leak|from_raw|into_raw)")
    for fn in F.fns.values():
        if is_derived(fn):
            continue
        for bb, t in fn.calls():
            n = M.call_name(t)
            if backdoor.search(n):
                # accounted at the known function(s) on whose behalf the call runs (a helper extracted from ScannerCache::get
                # is still ScannerCache::get's code)
                from .common import owners as owners_
                onames = sorted(set(o.name for o, _ in owners_(F, fn))) or [fn.name]
                for on in onames:
                    ok = re.search(r"ScannerCache::get$", on) is not None and re.search(r"Arc::<.*>::as_ptr$", n) is not None
                    for rule in ("C12.c", "C14.c"):
                        ob(rule, "backdoor:%s:%s" % (M.short_name(on), M.short_name(n)), ok, "%s calls %s%s" % (fn.name if on == fn.name else "%s (on behalf of %s)" % (fn.name, on), n, "" if ok else " (not in the audited list)"), fn.loc(bb))

    # ============================================================== unsafe audit (C14.b/c)
    uimpls = [i for i in F.impls if i["of_trait"] and (i["unsafe"] or re.search(r"marker::(Send|Sync)$", i["trait"]))]
    for i in uimpls:
        ok = i["derived"] and i["trait"] == "std::clone::TrivialClone"
        ob("C14.b", "unsafe-impl:%s:%s" % (i["trait"].split("::")[-1], i["self"]["s"].split("::")[-1]), ok,
           "%simpl %s for %s%s" % ("unsafe " if i["unsafe"] else "", i["trait"], i["self"]["s"], " (emitted by #[derive(Clone, Copy)])" if ok else " — hand-made promise"), i["file"])
    ob("C14.b", "no-hand-made-send-sync", not [i for i in uimpls if re.search(r"marker::(Send|Sync)$", i["trait"])], "Send/Sync impls: %s" % [(i["trait"], i["self"]["s"]) for i in uimpls if "marker" in i["trait"]], "")
    ufns = [f for f in F.fns.values() if f.j.get("unsafe") and not is_derived(f)]
    # an `unsafe fn` the rules do not know by name, called only on behalf of audited functions, is that function's unsafe
    # block moved into a helper: its operations are held against the same list (below, where the block is audited)
    helper_ufns = {}
    for f in list(ufns):
        if S.is_unknown_helper(f):
            from .common import owners as owners__
            on_ = sorted(set(o.name for o, _ in owners__(F, f)))
            if on_:
                helper_ufns[f.name] = (f, on_)
                ufns.remove(f)
    ob("C14.c", "no-unsafe-fn", not ufns, "unsafe fns: %s" % [f.name for f in ufns], "")
    ub = [u for u in F.unsafe_blocks if u["user"] and not u["from_expansion"]]
    allowed_unsafe = {
        r"create_match_char_class(::\{closure#\d+\})?$": (r"(get_unchecked|MatchFunction::call|CharClassID::as_usize|Deref>::deref)", "index by a registered class id: in bounds by C02.f + C08.e"),
        r"ScannerCache::get$": (r"(Arc::<.*>::as_ptr|clone::Clone>::clone)", "read-only deref of a pointer obtained from a &Arc borrowed from the cache in the same function"),
    }
    if "C14.c" in want:
        # anti-vacuity: as many blocks as the library source spells `unsafe {` (removing a block lowers both numbers)
        import os
        from . import framework as fw_
        n_src = 0
        src_root = os.path.join(getattr(ctx, "repo", None) or fw_.REPO, "scnr", "src")
        for root_, _dirs, files_ in os.walk(src_root):
            for f_ in files_:
                if not f_.endswith(".rs"):
                    continue
                try:
                    txt = open(os.path.join(root_, f_), encoding="utf-8", errors="replace").read()
                except OSError:
                    continue
                txt = txt.split("#[cfg(test)]")[0]
                txt = re.sub(r"/\*.*?\*/", " ", txt, flags=re.S)
                txt = re.sub(r"//[^\n]*", " ", txt)
                txt = re.sub(r'"(\\.|[^"\\])*"', '""', txt)
                n_src += len(re.findall(r"\bunsafe\s*\{", txt))
        ctx.floor("C14.c", "user unsafe blocks (one per `unsafe {` of the library source)", len(ub), n_src)
    for u in ub:
        fn = F.fns.get(u["fn"])
        name = fn.name if fn else u["fn"]
        # keyed by the known function the block runs on behalf of: the function it is written in (closure numbering is not part
        # of the identity), or — for a helper introduced later — the known functions that call the helper
        from .common import owners as owners_
        onames = sorted(set(o.name for o, _ in owners_(F, fn))) if fn else []
        onames = onames or [re.sub(r"(::\{closure#\d+\})+$", "", name)]
        rows = [(rx, v) for rx, v in allowed_unsafe.items() if all(re.search(rx, on) for on in onames)]
        name = onames[0]
        if not rows:
            ob("C14.c", "unsafe-block:" + M.short_name(name), False, "unsafe block in %s is not in the audited list" % name, "%s:%d" % (u["file"], u["ln"]))
            continue
        rx, (ops_rx, why) = rows[0]
        inside = []
        for bb in fn.reachable():
            t = fn.term(bb)
            if t["k"] == "call" and (u["ln"], u["col"]) <= (t["ln"], t["col"]) and (t["eln"], t["ecol"]) <= (u["eln"], u["ecol"]):
                inside.append(M.call_name(t))
            for s in fn.blocks[bb]["stmts"]:
                if s["k"] == "assign" and (u["ln"], u["col"]) <= (s["ln"], s["col"]) <= (u["eln"], u["ecol"]):
                    p = s["p"]
                    if any(e["k"] == "deref" for e in p["pj"]) and "*const" in fn.locals[p["l"]]["ty"] + "":
                        inside.append("write through raw pointer")
        # a call of an unsafe helper stands for the helper's own operations
        expanded = []
        for c in inside:
            if c in helper_ufns:
                expanded.extend(M.call_name(t_) for b_, t_ in helper_ufns[c][0].calls())
            else:
                expanded.append(c)
        inside = expanded
        bad = [c for c in inside if not re.search(ops_rx, c)]
        ob("C14.c", "unsafe-block:" + M.short_name(name), not bad,
           "operations inside the unsafe block: %s; unexpected: %s [%s]" % ([M.short_name(c) for c in inside], [M.short_name(c) for c in bad], why), "%s:%d" % (u["file"], u["ln"]))
    for hn, (hf, on_) in sorted(helper_ufns.items()):
        rows_ = [(rx, v) for rx, v in allowed_unsafe.items() if all(re.search(rx, o_) for o_ in on_)]
        ops_ = [M.call_name(t_) for b_, t_ in hf.calls()]
        bad_ = [c for c in ops_ if not rows_ or not re.search(rows_[0][1][0], c)]
        ob("C14.c", "unsafe-helper:" + M.short_name(hn), bool(rows_) and not bad_, "unsafe fn %s (on behalf of %s): operations %s; unexpected: %s" % (hn, [M.short_name(o_) for o_ in on_], [M.short_name(c) for c in ops_], [M.short_name(c) for c in bad_]), hf.loc())
    # the unsafe index: ids are only minted by the registry, the class table only grows, the closure is created last
    # who turns a number into a class id: the constructor and the conversions/arithmetic the id macro generates are plumbing
    # (ids.rs); what matters is who uses them outside ids.rs
    MINT = r"internal::ids::CharClassID::new$|<internal::ids::CharClassID as std::(convert::From<\w+>>::from|ops::Add<\w+>>::add|ops::AddAssign<\w+>>::add_assign)$"
    for c in callers_of(F, MINT):
        fn = c[0]
        if fn.file.endswith("internal/ids.rs"):
            continue
        ok = re.search(r"CharacterClassRegistry::add_character_class$", fn.name) is not None
        ob("C02.f", "class-id-minted-by:" + M.short_name(fn.name), ok, "CharClassID::new called in %s" % fn.name, fn.loc(c[1]))
        ob("C14.c", "class-id-minted-by:" + M.short_name(fn.name), ok, "CharClassID::new called in %s" % fn.name, fn.loc(c[1]))
    for c in callers_of(F, r"<internal::ids::CharClassID as std::convert::From<u\d+>>::from$|<u\d+ as std::convert::Into<internal::ids::CharClassID>>::into$"):
        ob("C02.f", "class-id-from-raw-number:" + M.short_name(c[0].name), False, "a CharClassID is made from a raw number in %s" % c[0].name, c[0].loc(c[1]))
        ob("C14.c", "class-id-from-raw-number:" + M.short_name(c[0].name), False, "a CharClassID is made from a raw number in %s" % c[0].name, c[0].loc(c[1]))
    ws = field_writers(F, "CharacterClassRegistry", "character_classes")
    for w in sorted(ws):
        ok = re.search(r"CharacterClassRegistry::add_character_class$", w) is not None
        ob("C02.f", "class-table-writer:" + M.short_name(w), ok, "%s writes CharacterClassRegistry.character_classes" % w, "")
        ob("C14.c", "class-table-writer:" + M.short_name(w), ok, "%s writes CharacterClassRegistry.character_classes" % w, "")
    ac = F.fn(r"CharacterClassRegistry::add_character_class$")
    muts = [M.call_name(t) for bb, t in ac.calls(r"Vec::<.*CharacterClass>::")]
    badm = [m for m in muts if not re.search(r"::(push|len|iter)$", m)]
    ob("C02.f", "class-table-only-grows", not badm, "Vec operations on the class table: %s" % [M.short_name(m) for m in muts], ac.loc())
    ob("C14.c", "class-table-only-grows", not badm, "Vec operations on the class table: %s" % [M.short_name(m) for m in muts], ac.loc())
    ex, paths = run_fn(ac, F, BaseModel(), inline=r"ids::CharClassID::new$|CharacterClass::(new|ast)$")
    from .common import search_table, is_eq_of

    def uncast(t):
        while t[0] == "cast":
            t = t[2]
        return t
    st = search_table(ex, paths)
    ob("C02.f", "known-classes-searched-in-the-whole-table", bool(st["source"]) and all("self.character_classes" in x for x in st["source"]) and not [1 for bb, t in ac.calls(r"Iterator>::(rev|skip|take|filter|step_by|skip_while|take_while|chain)\b")],
       "search over %s" % sorted(set(st["source"])), ac.loc())
    # a known class: the id is exactly the position at which an equal class was found (no arithmetic on it)
    for r, ic, p in st["hit"]:
        good = [c for c, o in ic if o is True and is_eq_of(c, r"item@bb\d+(\.1)?\)?\.ast(\.0)?$", r"^(?!.*item@).*\bast\b|^character_class$")]
        r0 = uncast(r)
        ok = False
        if good:
            n_ = re.search(r"item@bb(\d+)", S.fstr(good[0])).group(1)
            enumerated = ".1" in re.search(r"item@bb\d+(\.1)?", S.fstr(good[0])).group(0)
            ok = r0 == ("sym", "index@bb" + n_) or (enumerated and S.fstr(r0) in ("item@bb%s.0" % n_, "(item@bb%s).0" % n_))
        ob("C02.f", "known-class-id-is-its-position", ok, "known class gets id %s under %s" % (S.vstr(r)[:60], [(S.fstr(c)[:60], o) for c, o in ic]), ac.loc())
    for ic, p in st["miss"]:
        ok = any(o is False and is_eq_of(c, r"item@bb\d+(\.1)?\)?\.ast(\.0)?$", r"^(?!.*item@).*\bast\b|^character_class$") for c, o in ic)
        ob("C02.f", "search-continues-only-past-different-classes", ok, "next element under %s" % [(S.fstr(c)[:60], o) for c, o in ic], ac.loc())
    if "C02.f" in want:
        ctx.floor("C02.f", "paths of add_character_class that find a known class", len(st["hit"]), 1)
    # a new class: the id is exactly the length of the table before the push (= the index the class is stored at), and
    # the stored class carries the same id
    n_new = 0
    for r, p in st["exhausted"]:
        pushes = p.calls(r"Vec::<.*CharacterClass>::push$")
        r0 = uncast(r)
        n_new += 1
        is_len = r0[0] == "app" and re.search(r"Vec::<.*CharacterClass>::len$", r0[1]) is not None and "self.character_classes" in S.fstr(r0[2][0])
        pv = pushes[0][3][1] if pushes else None
        same_id = pv is not None and pv[0] == "adt" and len(pv[3]) >= 1 and uncast(pv[3][0]) == r0
        ok = is_len and same_id and len(pushes) == 1
        ob("C02.f", "new-class-id-is-its-index", ok, "new class gets id %s, stored class has id %s, pushed %d time(s)" % (S.vstr(r), S.vstr(pv[3][0]) if pv is not None and pv[0] == "adt" and pv[3] else "?", len(pushes)), ac.loc())
    if "C02.f" in want:
        ctx.floor("C02.f", "paths of add_character_class that register a new class", n_new, 1)
    # dedup equality: equal ids must imply equal predicates (ComparableAst::eq compares exactly what the predicate is built from)
    ce = F.fn(r"ComparableAst as std::cmp::PartialEq>::eq$")
    ctx.analysed_fn(ce)
    ex, paths = run_fn(ce, F, BaseModel())
    rows = {}
    rows_raw = {}
    for p in ret_paths(paths):
        ds = [(c, o) for c, o in p.conds if c[0] == "discr"]
        if not ds:
            continue
        def vname(c, o):
            nm = dict((dv, n) for n, dv in c[2])
            return nm.get(o) if not isinstance(o, tuple) else "other"
        a = vname(*ds[0])
        b = vname(*ds[1]) if len(ds) > 1 else None
        r = p.end[1]
        extra = [(S.fstr(c), o) for c, o in p.conds if c[0] != "discr"]
        rows.setdefault((a, b), []).append((extra, r))
        rows_raw.setdefault((a, b), []).append(([(c, o) for c, o in p.conds if c[0] != "discr"], r))
    def same_variant_rows(v):
        return rows.get((v, v), [])
    # Equality of two class nodes of the same kind decides whether a class id is reused (C02: the id on a
    # transition must stand for the pattern's own class).  Sound iff eq==true implies the same set of chars:
    # every accepting path must have compared either the whole node (printed or derived ==, spans may
    # over-distinguish, which is harmless) or every field that carries meaning.  Field tables are those of the
    # pinned regex-syntax ast (an external crate a /repo change cannot alter); `span` never carries meaning and
    # Literal.kind only records how the char was written.
    MEANING = {"ClassUnicode": {"negated", "kind"}, "ClassPerl": {"negated", "kind"}, "ClassBracketed": {"negated", "kind"}, "Literal": {"c"}}
    def wrapper_prints_whole_node():
        """Does `<ComparableAst as Display>::fmt` print a function of the whole wrapped node (`self.0`, no deeper projection)?
        Then comparing the printed wrappers compares the whole nodes."""
        dfs = [f for f in F.fns.values() if re.search(r"ComparableAst as std::fmt::Display>::fmt$", f.name)]
        if len(dfs) != 1:
            return False
        exd, psd = run_fn(dfs[0], F, BaseModel())
        rps = ret_paths(psd)
        if not rps or exd.truncated or len(rps) != len(psd):
            return False
        node = ("field", ("sym", "self"), "0")
        for q in rps:
            sub = list(S.subterms(q.end[1]))
            if node not in sub and not any(x[0] == "ref" and x[1][0] == "loc" and x[1][1] == ("sym", "self") and [st_[1] for st_ in x[1][2]] == ["0"] for x in sub):
                return False
            INJ = r"fmt::Formatter(::<.*?>)?::(write_fmt|write_str|pad)$|fmt::Arguments(::<.*?>)?::new\w*(::<.*>)?$|fmt::rt::Argument(::<.*?>)?::new_(display|debug)(::<.*>)?$|<impl str>::escape_(default|debug|unicode)$|fmt::(Display|Debug)>::fmt$"
            for x in sub:
                if x[0] == "app" and S.mentions(x, lambda y: y == node or (y[0] == "ref" and y[1][0] == "loc" and y[1][1] == ("sym", "self"))) and not re.search(INJ, str(x[1])):
                    return False      # the node passes through a function that is not known to keep different nodes apart
                if x[0] in ("field", "downcast", "index") and x[1] == node:
                    return False
                if x[0] == "ref" and x[1][0] == "loc" and x[1][1] == ("sym", "self") and len(x[1][2]) > 1:
                    return False
            if any(c for c, o in q.conds if "self" in S.fstr(c)):
                return False
        return True

    def eq_atom(t, v):
        """-> set of fields compared, {'*'} for the whole node, or None if t is not a self/other equality"""
        l = r = None
        if t[0] == "binop" and t[1] == "Eq":
            l, r = t[2], t[3]
        elif t[0] == "app" and re.search(r"(PartialEq(<[^>]*>)?>::eq|iter::Iterator>::eq(::<.*>)?)$", str(t[1])) and len(t[2]) == 2:
            l, r = t[2]          # (`a.chars().eq(b.chars())` / `a.escape_default().eq(b.escape_default())`: equality of the two sequences)
        if l is None:
            return None
        ls, rs_ = S.fstr(l), S.fstr(r)
        if t[0] == "binop" and {ls.lstrip("&*"), rs_.lstrip("&*")} == {"self", "other"} and wrapper_prints_whole_node():
            # the printed wrappers are compared (`self.to_string() == other.to_string()`), and the wrapper prints its whole node
            return {"*"}
        if "other.0" in ls and "self.0" in rs_:
            ls, rs_ = rs_, ls
        if "self.0" not in ls or "other.0" not in rs_ or ls.replace("self.0", "X") != rs_.replace("other.0", "X"):
            return None
        fs = set(re.findall(r"as %s\)\.0\.(\w+)" % v, ls))
        return fs or {"*"}
    for v, need in MEANING.items():
        rs = same_variant_rows(v)
        bad = []
        for extra_c, r in [(p_c, p_r) for p_c, p_r in rows_raw.get((v, v), [])]:
            if r == ("bool", False):
                continue
            got = set()
            for c, o in extra_c:
                a_ = eq_atom(c, v)
                if a_ and o is True:
                    got |= a_
            if r != ("bool", True):
                a_ = eq_atom(r, v)
                if a_ is None:
                    bad.append("result %s is not an equality of the two nodes" % S.fstr(r)[:80])
                    continue
                got |= a_
            if "*" not in got and not need <= got:
                bad.append("may answer 'equal' after comparing only %s (meaning is carried by %s)" % (sorted(got), sorted(need)))
        ob("C02.f", "class-dedup-equality:%s-equal-only-if-same-meaning" % v, bool(rs) and not bad, "; ".join(bad) or "%d path(s)" % len(rs), ce.loc())
    for v in ("Dot", "Empty"):
        rs = same_variant_rows(v)
        if rs:
            ob("C02.f", "class-dedup-equality:%s" % v, all(r == ("bool", True) for _, r in rs), "eq := %s" % [S.fstr(r) for _, r in rs], ce.loc())
    mixed = [(k, [S.fstr(r) for _, r in v_]) for k, v_ in rows.items() if k[0] != k[1] or k[0] == "other"]
    ob("C02.f", "class-dedup-equality:different-kinds-never-equal", bool(mixed) and all(all(x == "False" for x in vs) for _, vs in mixed), "mixed-kind rows: %s" % mixed[:6], ce.loc())
    # the registry dedups with exactly this equality on the class's ast
    for c in F.closures_of(ac):
        ex2, ps = run_fn(c, F, BaseModel(), inline=r"CharacterClass::ast$")     # (`cc.ast()` is read as the field it returns)
        for q in ret_paths(ps):
            r = q.end[1]
            s_ = S.fstr(r)
            ok = ("ComparableAst as std::cmp::PartialEq>::eq" in s_ or (r[0] == "binop" and r[1] == "Eq")) and ".ast" in s_ and "arg1" in s_
            ob("C02.f", "registry-dedup-uses-the-class-equality", ok, "predicate %s" % s_[:120], c.loc())

    # wherever the predicate table is created (in a constructor or in a helper the constructors share): nothing that can
    # register a class is reachable afterwards in that function
    REG_RX = r"try_from_scanner_mode|add_character_class|try_from_patterns|try_from_lookahead|try_from_ast"
    creators = [f for f in F.fns.values() if not is_derived(f) and list(f.calls(r"CharacterClassRegistry::create_match_char_class$")) and not re.search(r"ScannerImpl::create_match_char_class$", f.name)]
    served_c = {}
    for f in creators:
        cmf = list(f.calls(r"CharacterClassRegistry::create_match_char_class$"))
        after_ = f.reach_from([f.term(cmf[0][0])["target"]])
        regf = [M.call_name(t) for bb, t in f.calls(blocks=after_) if re.search(REG_RX, M.call_name(t))]
        for o_, _ in _owners(F, f):
            served_c[o_.name] = (len(cmf) == 1 and not regf, len(cmf), regf, f)
    CTOR_PATS = (r"ScannerImpl as std::convert::TryFrom<std::vec::Vec<scanner_mode::ScannerMode>>>::try_from$", r"ScannerImpl as std::convert::TryFrom<&\[scanner_mode::ScannerMode\]>>::try_from$")
    from .common import delegates_to
    for pat in CTOR_PATS:
        fn = F.fn(pat)
        ctx.analysed_fn(fn)
        sibling = F.fn([x for x in CTOR_PATS if x != pat][0])
        dg = delegates_to(F, fn, sibling)
        if dg is not None:
            # one constructor hands its modes to the other: what holds for that one holds for this one
            for rule in ("C02.f", "C14.c", "C08.e"):
                ob(rule, "predicates-created-after-last-registration:" + ("Vec" if "Vec" in pat else "slice"), True, "delegates: " + dg, fn.loc())
            ob("C02.f", "scanner-uses-predicates-of-its-own-registry:" + ("Vec" if "Vec" in pat else "slice"), True, "delegates: " + dg, fn.loc())
            continue
        ok, ncm, reg, where = served_c.get(fn.name, (False, 0, [], fn))
        cm = [1] * ncm
        for rule in ("C02.f", "C14.c", "C08.e"):
            ob(rule, "predicates-created-after-last-registration:" + ("Vec" if "Vec" in pat else "slice"), ok,
               "create_match_char_class call sites: %d (in %s); registering calls reachable after it: %s" % (ncm, M.short_name(where.name), reg if ncm else "n/a"), where.loc())
        # the same registry value is compiled into and used for the predicates and stored
        ex, paths = run_fn(fn, F, BaseModel(), max_paths=3000)
        for p in ret_paths(paths):
            r = p.end[1]
            if r[0] == "adt" and r[2] == "Ok" and r[3][0][0] == "adt":
                si = r[3][0]
                regv = si[3][0]
                mcc = si[3][2]
                ok2 = "create_match_char_class" in S.vstr(mcc)
                ob("C02.f", "scanner-uses-predicates-of-its-own-registry:" + ("Vec" if "Vec" in pat else "slice"), ok2, "match_char_class := %s" % S.vstr(mcc)[:120], fn.loc())
                ob("C06.a", "", True, "", "") if False else None

    # ============================================================== lock discipline (C14.d)
    LOCK_RX = r"RwLock::<.*>::(write|read|try_write|try_read)$|Mutex::<.*>::lock"
    lockers = [f for f in F.fns.values() if not is_derived(f) and list(f.calls(LOCK_RX))]
    # every function that takes the lock does so on behalf of one of the two build functions, and each build function gets
    # to a lock acquisition (in its own body or in a helper introduced later)
    served = set()
    for f in lockers:
        for o, _ in _owners(F, f):
            okb = re.search(r"scanner_builder::(ScannerBuilder|SimpleScannerBuilder)::build$", o.name) is not None
            served.add(o.name)
            ob("C14.d", "lock-taken-for:" + M.short_name(o.name), okb, "%s takes the cache lock (on behalf of %s)" % (M.short_name(f.name), o.name), f.loc())
    for pat in (r"scanner_builder::ScannerBuilder::build$", r"scanner_builder::SimpleScannerBuilder::build$"):
        bf = F.fn(pat)
        ctx.analysed_fn(bf)
        via = build_delegation(F).get(bf.name)
        ob("C14.d", "build-takes-the-lock:" + M.short_name(bf.name), bf.name in served or (via is not None and len(served) >= 1),
           ("through the other build function: %s" % via) if via else "lock acquired by %s" % [M.short_name(f.name) for f in lockers], bf.loc())
    for fn in lockers:
        locks = [M.call_name(t) for bb, t in fn.calls(LOCK_RX)]
        ok = len(locks) == 1 and locks[0].endswith("::write")
        ob("C14.d", "exclusive-lock-once:" + M.short_name(fn.name), ok, "lock acquisitions: %s (lookup+insert need one exclusive guard)" % [M.short_name(l) for l in locks], fn.loc())
        guards = [l for l, d in enumerate(fn.locals) if "RwLockWriteGuard" in d["ty"] and not d["ty"].startswith("&") and "Result<" not in d["ty"]]
        # the guard is dropped on every path to return and never moved into an aggregate / the return place
        dropped = True
        for l in guards:
            moved = False
            for bb, i, s in fn.assigns():
                for o in M.rvalue_operands(s["rv"]):
                    pl = M.operand_place(o)
                    if pl is not None and pl["l"] == l and not pl["pj"] and o["k"] == "move" and s["rv"]["k"] == "aggregate":
                        moved = True
            drops = [bb for bb in fn.reachable() if fn.term(bb)["k"] == "drop" and fn.term(bb)["p"]["l"] == l]
            pd = fn.postdominators()
            okd = bool(drops) and not moved
            ob("C14.d", "guard-is-a-temporary:" + M.short_name(fn.name), okd, "guard local _%d: dropped at %d site(s), moved into a value: %s" % (l, len(drops), moved), fn.loc())
        ob("C14.d", "guard-exists:" + M.short_name(fn.name), len(guards) >= 1, "%d guard locals" % len(guards), fn.loc())
        # while the guard is alive (from the block after its creation up to its drop, along every path) nothing is called that
        # can reach a lock acquisition again: std's RwLock is not re-entrant, a second write() on the same thread blocks
        # forever — holding the lock, so that every other build blocks as well.  (A guard that is the scrutinee temporary of a
        # `match` lives through all arms.)
        lock_fns = {f_.key for f_ in lockers}
        def reaches_lock(keys):
            return sorted(M.short_name(F.fns[k_].name) for k_ in F.reachable_fns(list(keys)) if k_ in lock_fns)
        for l in guards:
            defs = [bb for bb in fn.reachable() if fn.term(bb)["k"] == "call" and fn.term(bb)["dest"]["l"] == l and not fn.term(bb)["dest"]["pj"]]
            region, st_ = set(), []
            for bb in defs:
                st_.extend(fn.succ(bb))
            while st_:
                b_ = st_.pop()
                if b_ in region:
                    continue
                region.add(b_)
                t_ = fn.term(b_)
                if t_["k"] == "drop" and t_["p"]["l"] in guards and not t_["p"]["pj"]:
                    continue
                st_.extend(fn.succ(b_))
            held = []
            for b_ in sorted(region):
                if fn.term(b_)["k"] == "call":
                    r_ = reaches_lock(F.callees(fn, [b_]))
                    if r_:
                        held.append("%s -> %s (%s)" % (M.short_name(M.call_name(fn.term(b_))), r_[0], fn.loc(b_)))
            ob("C14.d", "no-lock-acquisition-while-the-guard-is-alive:" + M.short_name(fn.name), bool(defs) and not held,
               "guard local _%d alive in %d block(s); calls there that can reach a lock acquisition: %s" % (l, len(region), held or "none"), fn.loc())
    sg = F.fn(r"ScannerCache::get$")
    ctx.analysed_fn(sg)
    ob("C14.d", "cache-get-needs-exclusive-access", "&'^0.Named" in sg.j["sig"] and "mut internal::scanner_cache::ScannerCache" in sg.j["sig"], "signature: %s" % sg.j["sig"][:150], sg.loc())
    reach = F.reachable_fns([sg])
    reent = []
    for k in reach:
        g = F.fns[k]
        for bb, i, s in g.assigns():
            for o in M.rvalue_operands(s["rv"]):
                if o.get("static"):
                    reent.append(g.name)
        for bb, t in g.calls(r"RwLock::<.*>::(write|read)|Mutex::<.*>::lock|scanner_builder::.*::build$"):
            reent.append(g.name + " -> " + M.short_name(M.call_name(t)))
    ob("C14.d", "no-reentrancy-under-the-guard", not reent, "functions reachable from ScannerCache::get that touch a lock/the cache static: %s" % reent[:4], sg.loc())
    if "C14.d" in want:
        ctx.floor("C14.d", "functions reachable from ScannerCache::get", len(reach), 50)

    # ============================================================== cache transparency (C13)
    # C13.a key type and derived Hash/Eq
    ca = F.adts.get("internal::scanner_cache::ScannerCache")
    if ca is None:
        ctx.missing("C13.a", "ScannerCache")
    else:
        ft = ca["variants"][0]["fields"][0]["ty"]
        ok = ft["k"] == "adt" and ft["path"].endswith("HashMap") and ft["args"][0]["s"] == "std::vec::Vec<scanner_mode::ScannerMode>"
        ob("C13.a", "cache-key-is-the-full-mode-list", ok, "cache map type: %s" % ft["s"][:150], ca["file"])
        ok_v = ft["k"] == "adt" and ft["args"][1]["s"].startswith("std::sync::Arc<internal::scanner_impl::ScannerImpl")
        ob("C13.d", "cache-value-is-immutable-handle", ok_v, "value type %s" % (ft["args"][1]["s"] if ft["k"] == "adt" else "?"), ca["file"])
    # Equality and hash of the key types distinguish every field.  A derive does (and is recognised as such); a
    # hand-written impl is accepted when it is field-wise: every path of eq that can answer `true` compared self.f with
    # other.f for every field f, and hash feeds every field into the hasher on every path.  Comparisons of a function of
    # the whole value (e.g. its Display text) are not accepted: such renderings need not be injective.
    from .common import fieldwise_eq as _feq, fieldwise_hash as _fhash
    fieldwise_eq = lambda fn_, fields_: _feq(F, fn_, fields_)
    fieldwise_hash = lambda fn_, fields_: _fhash(F, fn_, fields_)
    for tname in ("scanner_mode::ScannerMode", "pattern::Pattern", "pattern::Lookahead", "internal::ids::TerminalID", "internal::ids::ScannerModeID"):
        a = F.adts.get(tname)
        fields = [f["name"] for f in a["variants"][0]["fields"]] if a else None
        short = tname.split("::")[-1]
        for tr in ("std::hash::Hash", "std::cmp::PartialEq", "std::cmp::Eq"):
            ims = [i for i in F.impls if i["of_trait"] and i["trait"] == tr and i["self"]["s"] == tname]
            trs = tr.split("::")[-1]
            if len(ims) != 1 or fields is None:
                ok, det = False, "%d impl(s) of %s for %s" % (len(ims), tr, tname)
            elif ims[0]["derived"] or trs == "Eq":
                ok, det = True, "derived (covers every field)" if ims[0]["derived"] else "marker impl"
            else:
                body = [f for f in F.fns.values() if re.search(r"<%s as %s>::%s$" % (re.escape(tname), re.escape(tr), "eq" if trs == "PartialEq" else "hash"), f.name)]
                if len(body) != 1:
                    ok, det = False, "hand-written impl without a unique body"
                else:
                    try:
                        ok, det = (fieldwise_eq if trs == "PartialEq" else fieldwise_hash)(body[0], fields)
                    except Exception as e_:
                        ok, det = False, "hand-written impl not understood (%s)" % type(e_).__name__
                    det = "hand-written: " + det
            for rule in ("C13.a", "C16.e"):
                ob(rule, "distinguishes-every-field:%s:%s" % (trs, short), ok, "%s for %s: %s" % (tr, tname, det), ims[0]["file"] if ims else "")
    # C13.b/c/d ScannerCache::get paths
    ex, paths = run_fn(sg, F, BaseModel())
    seen = set()
    for p in ret_paths(paths):
        g = p.calls(r"HashMap::<.*>::get::")
        ins = p.calls(r"HashMap::<.*>::insert$")
        # entry(key).or_insert(value) on the miss path is the same insertion (the key is absent there)
        ents_ = p.calls(r"HashMap::<.*>::entry$")
        for oi_ in p.calls(r"hash_map::Entry::<.*>::or_insert$"):
            en_ = [e for e in ents_ if e[4] == oi_[3][0]]
            if en_:
                # shaped like an insert call: (map, key, value)
                ins = ins + [("call", oi_[1], "HashMap::insert(via entry)", (en_[0][3][0], en_[0][3][1], oi_[3][1]), oi_[4], oi_[5], oi_[6])]
        used_entries = [e for e in ents_ if any(oi_[3][0] == e[4] for oi_ in p.calls(r"hash_map::Entry::<.*>::or_insert$"))]
        other = [e for e in p.events if e[0] == "call" and re.search(r"HashMap::<.*>::(remove|clear|get_mut|entry|retain|drain|iter_mut|values_mut|extend)|Entry::<.*>::(and_modify|or_default|or_insert_with|insert_entry)|OccupiedEntry::<.*>::(insert|get_mut|into_mut|remove)", e[2]) and e not in used_entries]
        ob("C13.d", "entries-never-mutated", not other, "map operations besides get/insert: %s" % [M.short_name(e[2]) for e in other], sg.loc())
        # the lookups of the path (get / contains_key); the first one decides hit or miss
        look = [e for e in p.events if e[0] == "call" and re.search(r"HashMap::<.*>::(get|contains_key)::", e[2])]
        if not look or len(look) > 2:
            ob("C13.c", "one-lookup", False, "%d lookups" % len(look), sg.loc())
            continue
        key_ok = all(ex.deref_val(p, e[3][1]) == ("sym", "modes") and "self.cache" in S.vstr(e[3][0]) for e in look)
        ob("C13.c", "lookup-keyed-by-the-requested-modes", key_ok, "cache lookups keyed by %s" % [S.vstr(e[3][1]) for e in look], sg.loc(look[0][1]))
        first = look[0]
        if re.search(r"::get::", first[2]):
            hit = variant_of(ex, p, first[4])
        else:
            ck = [o for c, o in p.conds if c == first[4]]
            hit = None if not ck else ("Some" if ck[-1] is True else "None")
        r = p.end[1]
        ents = [("field", ("downcast", e[4], "Some"), "0") for e in g]
        if hit == "Some":
            seen.add("hit")
            ok = r[0] == "adt" and r[2] == "Ok" and any(S.mentions(r, lambda x, ent=ent: x == ent) for ent in ents) and not ins
            cl = p.calls(r"ScannerImpl as std::clone::Clone>::clone$")
            ob("C13.c", "hit-returns-a-clone-of-the-entry", ok and len(cl) == 1, "hit returns %s (clone calls: %d, inserts: %d)" % (S.vstr(r)[:100], len(cl), len(ins)), sg.loc())
            ob("C12.f", "cache-hands-out-a-clone-not-the-handle", ok and len(cl) == 1, "hit returns %s" % S.vstr(r)[:100], sg.loc())
        elif hit == "None":
            comp = [e for e in p.events if e[0] == "call" and re.search(r"TryInto<internal::scanner_impl::ScannerImpl>>::try_into$|TryFrom<.*>>::try_from$", e[2])]
            if len(comp) != 1:
                ob("C13.b", "miss-compiles-once", False, "%d compile calls on the miss path" % len(comp), sg.loc())
                continue
            cres = comp[0][4]
            cv = variant_of(ex, p, cres)
            src_ok = ex.deref_val(p, comp[0][3][0]) == ("sym", "modes")
            ob("C13.c", "miss-compiles-the-requested-modes", src_ok, "compiles %s" % S.vstr(comp[0][3][0]), sg.loc(comp[0][1]))
            if cv == "Err":
                seen.add("miss-err")
                ok = not ins and r[0] == "adt" and r[2] == "Err"
                ob("C13.b", "failed-build-inserts-nothing", ok, "compile error path: %d insert(s), returns %s" % (len(ins), S.vstr(r)[:80]), sg.loc())
            elif cv == "Ok":
                seen.add("miss-ok")
                # the key is a plain copy of the requested list (to_vec / to_owned / Vec::from / into), nothing computed from it
                okk = len(ins) == 1 and re.match(r"^[&*(]*(slice::to_vec|to_vec|to_owned|ToOwned::to_owned|Vec::from|from|into|clone|Clone::clone|into_vec|Box::new)\([&*(]*modes\)*$", S.fstr(ins[0][3][1])) is not None
                # the value stored is the compilation result itself (wrapped in the Arc), not a copy that was edited in between:
                # every scanner handed out later is a clone of this entry, the uncached build returns the compilation as it is
                payload = ("field", ("downcast", cres, "Ok"), "0")
                okv = False
                if len(ins) == 1:
                    v_ = ins[0][3][2]
                    n_ = 0
                    while n_ < 4 and v_ != payload:
                        n_ += 1
                        if v_[0] == "app" and re.search(r"Arc::<.*>::new$|Arc::new$|From<.*>>::from$|Into<.*>>::into$", str(v_[1])) and len(v_[2]) == 1:
                            v_ = v_[2][0]
                        elif v_[0] == "ref":
                            v2_ = ex.deref_val(p, v_)
                            if v2_ == v_:
                                break
                            v_ = v2_
                        else:
                            break
                    okv = v_ == payload
                ob("C13.b", "insert-after-successful-compile", okk and okv, "insert(%s)" % (", ".join(S.vstr(a)[:60] for a in ins[0][3][1:]) if ins else "none"), sg.loc())
                ok_ret = r[0] == "adt" and r[2] == "Ok"
                ob("C13.c", "miss-returns-ok", ok_ret, "returns %s" % S.vstr(r)[:100], sg.loc())
            else:
                ob("C13.b", "miss-path-classified", False, "path does not branch on the compile result", sg.loc())
    ob("C13.b", "all-cache-outcomes-covered", seen == {"hit", "miss-err", "miss-ok"}, "outcomes: %s" % sorted(seen), sg.loc())
    ws = field_writers(F, "ScannerCache", "cache")
    for w in sorted(ws):
        ob("C13.d", "cache-writer:" + M.short_name(w), re.search(r"ScannerCache::get$", w) is not None, "%s mutably borrows ScannerCache.cache" % w, "")
    # C13.e sibling constructors agree
    fa = F.fn(r"ScannerImpl as std::convert::TryFrom<std::vec::Vec<scanner_mode::ScannerMode>>>::try_from$")
    fb = F.fn(r"ScannerImpl as std::convert::TryFrom<&\[scanner_mode::ScannerMode\]>>::try_from$")

    def skeleton(fn):
        # the calls of functions of the crate (in the body and in its closures: a loop with `push` and a `map(..).collect()` differ
        # only in the std plumbing around them)
        seq = []
        for f_ in [fn] + list(F.closures_of(fn)):
            for bb in sorted(f_.reachable()):
                t = f_.term(bb)
                if t["k"] == "call":
                    n = M.call_name(t)
                    if not (n.startswith(M.CRATE_ROOTS) or (n.startswith("<") and n[1:].startswith(M.CRATE_ROOTS))):
                        # std plumbing is not compared — except what drops, reorders or shortens elements (a filter, a sort, a
                        # truncate in ONE of the two constructors makes them compile different things)
                        from . import adaptors as _ad
                        if re.search(_ad.RX, n) or any(re.search(rx_, n) for _k, rx_ in _ad.LIST_OPS):
                            seq.append("std:" + re.sub(r"::<.*$", "", M.short_name(n)))
                        continue
                    if re.search(r"clone::Clone>::clone$", n):
                        continue
                    seq.append(M.short_name(n))
        aggs = []
        for bb, i, s in fn.assigns():
            rv = s["rv"]
            if rv["k"] == "aggregate" and rv.get("ak") == "adt" and rv["path"].endswith("ScannerImpl"):
                pv_ = M.Prov(fn)
                row = []
                for o in rv["fields"]:
                    if o["k"] == "const":
                        row.append(M.op_str(o))
                    else:
                        e_ = pv_.operand(o)      # a local holding a literal counts as the literal
                        row.append(("const %s" % e_[1]) if e_[0] == "const" else "v")
                aggs.append(row)
        # a helper the rules do not know stands for the calls it makes
        changed = True
        rounds = 0
        while changed and rounds < 4:
            changed, rounds = False, rounds + 1
            out = []
            for n in seq:
                hs = [f_ for f_ in F.fns.values() if M.short_name(f_.name) == n and S.is_unknown_helper(f_) and f_.kind != "Closure"]
                if len(hs) == 1:
                    out.extend(skeleton(hs[0])[0])
                    changed = True
                else:
                    out.append(n)
            seq = out
        return sorted(seq), aggs

    sa, aa = skeleton(fa)
    sb, ab = skeleton(fb)
    from .common import delegates_to as _dg
    dg_ = _dg(F, fb, fa) or _dg(F, fa, fb)
    if dg_ is not None:
        sb, ab = sa, aa      # one constructor is the other applied to a copy of the same modes: they agree by construction
    ob("C13.e", "cached-and-uncached-constructors-agree", sa == sb and aa == ab, ("one constructor delegates to the other: %s" % dg_) if dg_ else
       "call multisets differ: only-in-Vec=%s only-in-slice=%s; aggregates %s vs %s" % (sorted(set(sa) - set(sb)), sorted(set(sb) - set(sa)), aa, ab), fa.loc())
    sample("C13.e", {"constructor_calls": sa})
    # C13.f build functions
    for pat, arg in ((r"scanner_builder::ScannerBuilder::build$", "self.scanner_modes"), (r"scanner_builder::SimpleScannerBuilder::build$", "self.scanner_mode")):
        fn = F.fn(pat)
        via = build_delegation(F).get(fn.name)
        if via is not None:
            ob("C13.f", "build-goes-through-the-cache-with-own-modes:" + M.short_name(fn.name), True, "delegates: " + via, fn.loc())
            continue
        ex, paths = run_fn(fn, F, BaseModel())
        for p in ret_paths(paths):
            c = p.calls(r"ScannerCache::get$")
            # exactly the builder's own, unmodified mode list (a list that was sorted, filtered or otherwise rewritten before
            # the lookup is a different configuration than the one build_uncached compiles)
            own = ("field", ("sym", "self"), arg.split(".")[1])
            av = ex.deref_val(p, c[0][3][1]) if len(c) == 1 and len(c[0][3]) == 2 else None
            while av is not None and av[0] == "app" and re.search(r"Deref>::deref$|<impl \[.*\]>::as_slice$|Vec::<.*>::as_slice$|AsRef<.*>>::as_ref$|Borrow<.*>>::borrow$", str(av[1])) and len(av[2]) == 1:
                av = ex.deref_val(p, av[2][0]) if av[2][0][0] == "ref" else av[2][0]
            ok = av is not None and (av == own or (av[0] == "array" and tuple(av[1]) == (own,)) or (av[0] == "vec" and tuple(av[1]) == (own,)))
            while av is not None and av[0] == "deref":
                av = av[1]
            if not ok and av is not None and av[0] == "app" and re.search(r"slice::from_ref(::<.*>)?$", str(av[1])) and len(av[2]) == 1:
                # the one-element slice borrowed from the builder's single mode
                one = ex.deref_val(p, av[2][0]) if av[2][0][0] == "ref" else av[2][0]
                ok = one == own
            recv_ok = len(c) == 1 and c[0][4] is not None and S.mentions(c[0][4], lambda x: x == ("sym", "static:SCANNER_CACHE"))
            ob("C13.f", "build-goes-through-the-cache-with-own-modes:" + M.short_name(fn.name), ok and recv_ok,
               "ScannerCache::get(%s)" % (", ".join(S.vstr(a)[:70] for a in c[0][3]) if c else "none"), fn.loc())
            r = p.end[1]
            if c and variant_of(ex, p, c[0][4]) == "Ok":
                ok_r = r[0] == "adt" and r[2] == "Ok" and r[3][0][0] == "adt" and r[3][0][3][0] == ("field", ("downcast", c[0][4], "Ok"), "0")
                ob("C13.f", "build-wraps-the-cache-result:" + M.short_name(fn.name), ok_r, "returns %s" % S.vstr(r)[:100], fn.loc())
            elif c and variant_of(ex, p, c[0][4]) == "Err":
                ob("C13.f", "build-propagates-the-error:" + M.short_name(fn.name), r[0] == "adt" and r[2] == "Err", "returns %s" % S.vstr(r)[:100], fn.loc())
    bu = F.fn(r"scanner_builder::ScannerBuilder::build_uncached$")
    # (the public Scanner::try_from(Vec<ScannerMode>) is the same conversion, wrapped: looked through)
    ex, paths = run_fn(bu, F, BaseModel(), inline=r"scanner::Scanner as std::convert::TryFrom<std::vec::Vec<scanner_mode::ScannerMode>>>::try_from$")
    n = 0
    for p in ret_paths(paths):
        c = [e for e in p.events if e[0] == "call" and re.search(r"TryInto<internal::scanner_impl::ScannerImpl>>::try_into$|ScannerImpl as std::convert::TryFrom<std::vec::Vec<scanner_mode::ScannerMode>>>::try_from$", e[2])]
        ok = len(c) == 1 and c[0][3][0] == ("field", ("sym", "self"), "scanner_modes")
        n += 1
        ob("C13.f", "build_uncached-compiles-own-modes", ok, "try_into(%s)" % (S.vstr(c[0][3][0]) if c else None), bu.loc())

    # ============================================================== C12.e
    fi = F.fn(r"scanner::Scanner::find_iter$")
    ob("C12.e", "find_iter-takes-shared-self", (fi.j["sig"].split("fn(")[1].startswith("&") and " scanner::Scanner, " in fi.j["sig"] and "mut scanner::Scanner" not in fi.j["sig"]), "signature %s" % fi.j["sig"][:120], fi.loc())
