from . import kernel
LEVEL = "other"
EXPLANATION = ("Path-sensitive abstract interpretation of one iteration of the transition loop of CompiledDfa::find_from with "
               "symbolic incumbents: every path is classified by the order outcomes it assumes (extent_new vs stored extent, "
               "priority_new vs priority_old, incumbent present or not, lookahead gate) and its effect is compared with the "
               "trailing-context table; end, token type and extent must be written together from one candidate; Option "
               "typestate discharges the unwraps. Integers are only inspected through comparisons, so the finite set of order "
               "outcomes covers all inputs. The lookahead automaton's own language is C02.")
RULES = {"C05.a", "C05.b", "C05.c", "C05.d", "C04.e", "C01.c"}


def check(ctx):
    kernel.analyze(ctx, RULES | {"C04.c", "C12.d"})
    # the lookahead length is measured on the text behind the candidate: the kernel splits the haystack it is given at the
    # candidate's end (C04.c above), which is that text only if the callers hand it the rest of the input from their offset
    from . import cursor
    cursor.analyze(ctx, {"C04.c"})
    # 'the pattern listed first' = first position in terminal_ids, built in pattern order
    from .pC01 import priority_rules
    priority_rules(ctx)
    # the lookahead that gates (and lengthens) a candidate is the one configured on its own pattern, polarity included
    kernel.lookahead_wiring(ctx, ("C04.f",))
    kernel.token_type_uniqueness(ctx, "C01.k", "priority-key-is-the-token-type-but-token-types-may-repeat", "ties between candidates are resolved by the first position of their token types, not of the patterns")
    from .common import cache_foundation, language_foundation
    language_foundation(ctx)
    cache_foundation(ctx)
