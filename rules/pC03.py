from . import minimizer_rules
LEVEL = "other"
EXPLANATION = ("Side conditions of the partition-refinement theorem discharged on the MIR of minimizer.rs by path-sensitive abstract "
               "interpretation and provenance: label-respecting initial partition over all states, split-only refinement against the old "
               "partition, complete (class, group-of-target) signatures, injective group ids (cast audit), refinement until the partition "
               "is stable, quotient transitions merged from all members and renumbered in the same reordered partition that numbers the "
               "states, acceptance with a member's label, start group first, one state per group. Equivalence of concrete automaton pairs "
               "is not decided.")
RULES = {"C03.a", "C03.b", "C03.c", "C03.d", "C03.e", "C03.f", "C03.g", "C03.h"}


def check(ctx):
    from .common import compiled_scanner_is_frozen
    compiled_scanner_is_frozen(ctx, "C02.m")   # nothing edits a compiled scanner after the pipeline produced it (closed writer sets)
    minimizer_rules.analyze(ctx, RULES)
    from .common import key_types_compare_structurally
    key_types_compare_structurally(ctx, "C02.n")   # the signature is a map key: it must compare structurally
    # the property is observed on scanners obtained through build(): the cache must hand back the configuration's own compilation
    from . import adaptors
    adaptors.analyze(ctx, ("C03.i",))
    from .common import cache_foundation
    cache_foundation(ctx)
