from . import dot_rules
LEVEL = "other"
EXPLANATION = ("The renderer is checked as a translation: loops range over all states, all transitions and all lookaheads without filters; "
               "node names, accepting labels, edge endpoints and class labels are format arguments taken from the same state / the same "
               "transition tuple (value provenance through format_args!); lookahead clusters are keyed and labelled by their terminal with "
               "the polarity text chosen by is_positive; file names are folder/prefix_mode.dot; File::create errors are propagated and no io "
               "Result is unwrapped; panic-site inventory of the export path. Well-formedness of the DOT text produced by dot-writer is "
               "trusted.")
RULES = {"C18.a", "C18.b", "C18.c", "C18.d"}


def check(ctx):
    dot_rules.analyze(ctx, RULES)
    # premise of the node drawing (`if id == 0 { start } else if accepting { .. }`): the automata that reach the renderer never
    # have an accepting start state — accepting states are recorded for the closures of transition targets only (C02.d)
    from . import closure_rules
    closure_rules.analyze(ctx, {"C02.d"})
    # the file of a mode is named from the mode name the caller configured: ScannerMode::new stores the given name, the compiled
    # mode takes it over unchanged (C06.h)
    from . import pC06 as _p6
    _p6.compiled_mode_rules(ctx, "C06.h")
    # the property is observed on scanners obtained through build(): the cache must hand back the configuration's own compilation
    from . import adaptors
    adaptors.analyze(ctx, ("C18.e",))
    from .common import cache_foundation
    cache_foundation(ctx)
    from . import error_rules
    error_rules.analyze(ctx, "C15.i")     # no error is discarded on the way: a failing build / an unwritable file is reported to the caller
