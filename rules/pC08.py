from . import classes, sharing
LEVEL = "other"
EXPLANATION = ("Syntax-directed translation checked case by case: every predicate closure of match_function.rs is evaluated, with the "
               "symbolic values it captured in its parent, over all valuations of its atoms (calls of captured predicates, comparisons "
               "with captured chars, std/seshat predicates) and its truth table is compared with the boolean combination the AST node "
               "denotes (∧, ∧¬, ⊕, ∨, ¬ on the node's own negated flag, inclusive range bounds, literal equality, dot); nested named "
               "items delegate to the stand-alone conversions; one predicate per registered class indexed by id; the class registered for a "
               "transition is the AST node as written (C02.c). Since atoms stand for "
               "arbitrary sets, agreement on all valuations is agreement for every character. The sets denoted by std/seshat "
               "predicates are trusted.")
RULES = {"C08.a", "C08.b", "C08.c", "C08.d", "C08.e"}


def check(ctx):
    # a class id selects a predicate in the table of the scanner that is being built: a compiled automaton — a lookahead's too —
    # is compiled against THIS build's registry and not edited or replaced afterwards (C02.m: closed writer sets; a compilation
    # memoised across builds carries the class numbering of another registry)
    from .common import compiled_scanner_is_frozen
    compiled_scanner_is_frozen(ctx, "C02.m")
    classes.analyze(ctx, RULES)
    sharing.analyze(ctx, {"C08.e", "C02.f"})
    # the predicate is built from the class that was registered: the transition of a class node must be labelled with the
    # node as it was written (C02.c leaf rules of Nfa::try_from_ast), not with a rewritten one
    from . import dispatch
    dispatch.analyze(ctx, {"C02.c"})
    from . import casts
    casts.analyze(ctx, {"C17.a"})   # a class id must not wrap: the id on a transition selects the predicate
    # the property is observed on scanners obtained through build(): the cache must hand back the configuration's own compilation
    from . import adaptors
    adaptors.analyze(ctx, ("C08.f",))
    from .common import cache_foundation
    cache_foundation(ctx)
