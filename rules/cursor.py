"""Shared analysis of the iterator layer (find_matches_impl.rs): retry protocol, offset kinds
(A10), cursor coupling, line bookkeeping.  Emits obligations for the rule ids a property module
asks for (C01.d/e, C04.c, C07.b/c, C09.*, C10.*, C11.*)."""
import re

from . import mirlib as M
from . import symex as S
from .common import (argval, BaseModel, run_fn, ret_paths, heap_writes, field_path, variant_of, none, some,
                     callers_of, field_writers, is_derived)

LOG_MACROS = ("trace!", "debug!", "info!", "warn!", "error!")
# small pure accessors that are inlined so that terms are canonical
GETTERS = r"match_type::Match::(span|token_type|start|end|is_empty|len|range|add_offset)$|span::Span::(is_empty|len|new|range)$|match_type::Match::new$"

# kind vectors (rel, base): Len=(0,0) Rel=(1,0) Base=(0,1) Abs=(1,1)
LEN, REL, BASE, ABS = (0, 0), (1, 0), (0, 1), (1, 1)
KNAME = {LEN: "Len", REL: "Rel", BASE: "Base", ABS: "Abs"}


def kname(k):
    if k is None:
        return "unknown"
    return KNAME.get(k, "INVALID%s" % (k,))


class Model(BaseModel):
    """Iterator layer model: log macros are skipped; CharIndices::next yields a fresh
    (index, char) item; vec![x] is recovered from the Box dance of the macro expansion."""

    def switch(self, ex, path, bb, d, t):
        if t.get("exp_outer") in LOG_MACROS:
            return False
        return None

    def call(self, ex, path, bb, t, args):
        name = M.call_name(t)
        if re.search(r"iter::Iterator>::next$", name):
            st = t.get("callee_self") or ""
            if "CharIndices" in st:
                it = args[0]
                # follow `&mut &mut CharIndices` (for-loops over by_ref()) to the cursor itself
                n = 0
                while it[0] == "ref" and n < 6:
                    inner = ex.read_loc(path, it[1])
                    if inner[0] != "ref":
                        break
                    it = inner
                    n += 1
                item = ("sym", "ci_item@%s:bb%d" % (M.short_name(ex.fn.name), bb))
                # remember which cursor was advanced
                path.events.append(("cursor-next", bb, S.vstr(it), it))
                # after `next()` returned Some((i, c)) the cursor's offset() is i + len_utf8(c) (relative to the same slice)
                after = ("add", ("field", item, "0"), ("app", "len_utf8", (("field", item, "1"),)))
                okey = ("loc", ("sym", "__ci_offset__:" + S.vstr(it)), ())
                return [(none(), None), (some(item), None, [(okey, after)])]
        if re.search(r"str::CharIndices::<..>::offset$|str::CharIndices::offset$|CharIndices<'_>>::offset$", name) and args:
            it = args[0]
            n = 0
            while it[0] == "ref" and n < 6:
                inner = ex.read_loc(path, it[1])
                if inner[0] != "ref":
                    break
                it = inner
                n += 1
            v = path.heap.get((("sym", "__ci_offset__:" + S.vstr(it)), ()))
            if v is not None:
                return [(v, None)]
        if re.search(r"box_assume_init_into_vec_unsafe", name):
            for e in reversed(path.events):
                if e[0] == "write" and e[4][0] == "array":
                    return [(("vec", e[4][1]), None)]
        return BaseModel.call(self, ex, path, bb, t, args)

    def iter_item(self, ex, path, bb, t, args):
        """Element symbol for find/for_each/... over a CharIndices cursor (same naming and event as for `next`)."""
        st = t.get("callee_self") or ""
        if "CharIndices" not in st or not args:
            return None
        it = args[0]
        n = 0
        while it[0] == "ref" and n < 6:
            inner = ex.read_loc(path, it[1])
            if inner[0] != "ref":
                break
            it = inner
            n += 1
        item = ("sym", "ci_item@%s:bb%d" % (M.short_name(ex.fn.name), bb))
        path.events.append(("cursor-next", bb, S.vstr(it), it))
        return item


def atom_kind(a, env):
    """Kind of an atom of a linear form."""
    s = S.vstr(a)
    if a[0] == "field" and a[1] == ("sym", "self"):
        if a[2] == "offset":
            return BASE
        if a[2] == "last_position":
            return REL
    if a[0] == "field" and a[2] == "0" and a[1][0] == "sym" and a[1][1].startswith("ci_item@"):
        return REL
    if a[0] == "app" and a[1] == "len_utf8":
        return LEN
    if a[0] == "app" and re.search(r"str>::len$|<impl str>::len$", a[1]):
        if s.endswith("(&*self.input)"):
            return ABS
        return None
    if a[0] == "field" and a[2] in ("start", "end") and a[1][0] == "field" and a[1][2] == "span":
        m = a[1][1]
        # span of a match produced by the attempt (relative to the cursor's base)
        if m[0] == "field" and m[1][0] == "downcast" and m[1][1][0] == "app" and re.search(r"ScannerImpl::(find_from|peek_from)$", m[1][1][1]):
            return REL
        if m[0] == "sym" and m[1] in env.get("rel_matches", ()):
            return REL
        if m[0] == "field" and m[1][0] == "downcast" and m[1][1][0] == "app" and re.search(r"ScannerImpl::(find_from|peek_from)$", m[1][1][1]):
            return REL
    if a[0] == "field" and a[2] == "end" and a[1][0] == "app" and re.search(r"Match::span$", a[1][1]):
        m = S.vstr(a[1][2][0]).lstrip("&")
        if m in env.get("rel_matches", ()):
            return REL
    if a[0] == "sym" and a[1] in env.get("abs_params", ()):
        return ABS
    if a[0] == "sym" and a[1] in env.get("rel_params", ()):
        return REL
    if a[0] == "app" and a[1] == "saturating_sub":
        x, y = kind(a[2][0], env), kind(a[2][1], env)
        if x is None or y is None:
            return None
        return (x[0] - y[0], x[1] - y[1])
    if a[0] == "app" and a[1] == "min":
        x, y = kind(a[2][0], env), kind(a[2][1], env)
        if x is not None and x == y:
            return x
        return None
    if a[0] == "var" and a[1] in env.get("vars", {}):
        return env["vars"][a[1]]
    return None


def kind(term, env):
    lin, c = S.linear(term)
    r, b = 0, 0
    for a, coef in lin.items():
        k = atom_kind(a, env)
        if k is None:
            return None
        r += coef * k[0]
        b += coef * k[1]
    return (r, b)


def newline_tests(conds):
    """[(tested term, is_newline)] for `x == '\\n'`, `'\\n' == x`, `matches!(x, '\\n')` (a switch on the char value)."""
    out = []
    for c, o in conds:
        if c[0] == "binop" and c[1] in ("Eq", "Ne") and isinstance(o, bool):
            for a, b in ((c[2], c[3]), (c[3], c[2])):
                if b == ("const", repr("\n")):
                    out.append((a, o if c[1] == "Eq" else (not o)))
        elif c[0] not in ("binop", "app", "discr", "isvar", "not", "cmp") and not isinstance(o, bool):
            if o == 10:
                out.append((c, True))
            elif isinstance(o, tuple) and o[0] == "otherwise" and o[1] == (10,):
                out.append((c, False))
    return out


def is_self_field(v, field):
    return v == ("field", ("sym", "self"), field)


def ref_to_self_field(v, field):
    """&[mut] self.<field>"""
    return v[0] == "ref" and v[1][1] == ("sym", "self") and [st[1] for st in v[1][2]] == [field]


def analyze(ctx, want):
    """want: set of rule ids to emit."""
    F = ctx.facts
    from . import adaptors
    adaptors.analyze(ctx, ("C09.g",))       # no walk over the cursor, the line starts or the peeked matches drops an element
    ctx.trust("rustc type checker / MIR construction (nightly), the fact driver")
    ctx.trust("log macros (trace!/debug!) are effect-free")
    ctx.trust("std: str::char_indices/CharIndices::next yield byte offsets relative to the slice they were created over; vec!, Vec::insert, slice::binary_search")

    def ob(rule, key, ok, detail, loc=""):
        if rule in want:
            ctx.ob(rule, key, ok, detail, loc)

    def sample(rule, obj):
        if rule in want:
            obj = dict(obj)
            obj["rule"] = rule
            ctx.sample(obj)

    # =================================================================== next_match
    nm = F.fn(r"FindMatchesImpl::<..>::next_match$")
    ctx.analysed_fn(nm)
    # (the helper that steps the cursor beyond a match is looked through: it may be a method or written in place)
    ex, paths = run_fn(nm, F, Model(), inline=GETTERS + r"|FindMatchesImpl::<..>::advance_beyond_match$")
    outcomes = {"some": 0, "skip": 0, "exhausted": 0}
    for p in paths:
        att = p.calls(r"ScannerImpl::find_from$")
        if len(att) != 1:
            ob("C01.d", "next_match:one-attempt-per-iteration", False, "%d attempts on one path" % len(att), nm.loc())
            continue
        a = att[0]
        res = a[4]
        v = variant_of(ex, p, res)
        # --- the attempt is handed the slice the cursor was created over and a clone of the cursor
        inp, cur = a[3][1], a[3][2]
        inp_s = S.vstr(inp)
        ok_inp = inp_s == "&*self.input.RangeFrom(self.offset)"
        ob("C04.c", "next_match:attempt-haystack-is-input[offset..]", ok_inp,
           "haystack handed to the attempt: %s (the cursor's indices are relative to self.offset)" % inp_s, nm.loc(a[1]))
        ob("C04.c", "next_match:attempt-cursor-is-clone-of-own-cursor", cur == ("field", ("sym", "self"), "char_indices"),
           "cursor handed to the attempt: %s" % S.vstr(cur), nm.loc(a[1]))
        nexts = [e for e in p.events if e[0] == "cursor-next"]
        rec = p.calls(r"FindMatchesImpl::<..>::record_line_offset$")
        adv = p.calls(r"FindMatchesImpl::<..>::advance_to$")
        if v == "Some":
            outcomes["some"] += 1
            payload = ("field", ("downcast", res, "Some"), "0")
            ok_end = p.end[0] == "return" and variant_of(ex, p, p.end[1]) == "Some"
            ob("C01.d", "next_match:match-is-returned", ok_end, "Some path ends with %s" % (p.end[0],), nm.loc())
            from .common import ordering_of
            pst, pen = ("field", ("field", payload, "span"), "start"), ("field", ("field", payload, "span"), "end")
            se_ = ordering_of(p.conds, lambda x: x == pst, lambda x: x == pen)
            if se_ <= {"E", "G"}:
                # an empty match (excluded by the property's precondition) does not move the cursor
                ob("C07.b", "next_match:empty-match-no-advance", not adv, "empty match: %d advance_to calls" % len(adv), nm.loc())
            else:
                ok_adv = len(adv) == 1
                if ok_adv:
                    tgt_ = adv[0][3][1]
                    lin_, c_ = S.linear(tgt_)
                    ok_adv = c_ == 0 and lin_ == {pen: 1, ("field", ("sym", "self"), "offset"): 1}
                ob("C07.b", "next_match:cursor-advanced-beyond-the-unshifted-match", ok_adv,
                   "advance_to called %d time(s) with %s (must be once, with the end of the attempt's match plus the offset)" % (len(adv), [S.vstr(x[3][1]) for x in adv]), nm.loc())
                if len(adv) == 1:
                    k_ = kind(adv[0][3][1], {})
                    ob("C10.a", "advance_beyond_match:passes-absolute-end", k_ == ABS, "advance_to(%s) kind %s (match spans from the attempt are relative to the offset)" % (S.vstr(adv[0][3][1]), kname(k_)), nm.loc(adv[0][1]))
            ob("C01.d", "next_match:no-skip-on-match", not nexts and not rec, "cursor.next()/record_line_offset on the match path: %d/%d" % (len(nexts), len(rec)), nm.loc())
            if ok_end:
                r = p.end[1][3][0] if p.end[1][0] == "adt" else None
                if r is None:
                    ob("C01.e", "next_match:returned-span-absolute", False, "returned value %s" % S.vstr(p.end[1]), nm.loc())
                else:
                    st = ex.project(p, ex.project(p, r, ("f", "span", 1), None), ("f", "start", 0), None)
                    en = ex.project(p, ex.project(p, r, ("f", "span", 1), None), ("f", "end", 1), None)
                    tt = ex.project(p, r, ("f", "token_type", 0), None)
                    ks, ke = kind(st, {}), kind(en, {})
                    ob("C01.e", "next_match:returned-span-absolute", ks == ABS and ke == ABS,
                       "returned span = %s .. %s : kinds %s..%s (must be Abs = Rel + Base exactly once)" % (S.vstr(st), S.vstr(en), kname(ks), kname(ke)), nm.loc())
                    ls, cs = S.linear(st)
                    le, ce = S.linear(en)
                    want_s = {("field", ("field", payload, "span"), "start"): 1, ("field", ("sym", "self"), "offset"): 1}
                    want_e = {("field", ("field", payload, "span"), "end"): 1, ("field", ("sym", "self"), "offset"): 1}
                    ob("C01.e", "next_match:returned-span-is-attempt-span-plus-offset", ls == want_s and le == want_e and cs == 0 and ce == 0,
                       "start=%s end=%s" % (S.vstr(st), S.vstr(en)), nm.loc())
                    ob("C01.e", "next_match:token-type-unchanged", tt == ("field", payload, "token_type"), "token type of the result: %s" % S.vstr(tt), nm.loc())
                    sample("C01.e", {"next_match_returns": "Some{span: %s..%s, token_type: %s}" % (S.vstr(st), S.vstr(en), S.vstr(tt))})
        elif v == "None":
            ok_one = len(nexts) == 1 and nexts[0][3][0] == "ref" and ref_to_self_field(nexts[0][3], "char_indices")
            ob("C01.d", "next_match:skip-consumes-exactly-one-char-of-own-cursor", ok_one,
               "on a failed attempt cursor.next() is called %d time(s) on %s" % (len(nexts), [e[2] for e in nexts]), nm.loc())
            if not nexts:
                continue
            # which way did next() go?  The value the call stored tells the branch.
            nx = [e for e in p.events if e[0] == "call" and re.search(r"Iterator>::next$", e[2])]
            went_some = None
            for e_ in nx:
                for w_ in p.events:
                    if w_[0] == "write" and w_[1] == e_[1] and w_[4][0] == "adt" and w_[4][2] in ("Some", "None") and str(w_[4][1]).endswith("Option"):
                        went_some = w_[4][2] == "Some"
            end_kind = p.end[0]
            cont_ret = None
            if went_some is False and p.end[0] == "cut":
                # exhaustion noted in a flag that ends the loop at its next test (`while !exhausted`): follow the back edge
                # once — the continuation must leave the loop and return without another attempt
                q0 = S.Path()
                q0.locals, q0.heap, q0.assume, q0.conds = dict(p.locals), dict(p.heap), dict(p.assume), list(p.conds)
                conts = ex.run(p.end[2], q0) if len(p.end) > 2 else []
                if conts and all(q.end[0] == "return" and not q.calls(r"ScannerImpl::find_from$") and not [e_ for e_ in q.events if e_[0] == "cursor-next"] for q in conts):
                    end_kind = "return"
                    cont_ret = conts[0].end[1]
            if went_some is not False and p.end[0] == "cut":
                outcomes["skip"] += 1
                ob("C01.d", "next_match:skip-then-retry", True, "Some(char) -> back to the attempt", nm.loc())
                ok_rec = len(rec) == 1
                detail = "record_line_offset called %d time(s)" % len(rec)
                if ok_rec:
                    i_arg, c_arg = rec[0][3][1], rec[0][3][2]
                    li, ci = S.linear(i_arg)
                    items = [a_ for a_ in li if a_[0] == "field" and a_[1][0] == "sym" and a_[1][1].startswith("ci_item@")]
                    ok_i = kind(i_arg, {}) == ABS and len(items) == 1 and items[0][2] == "0" and li.get(("field", ("sym", "self"), "offset")) == 1 and ci == 0 and len(li) == 2
                    ok_c = c_arg[0] == "field" and c_arg[2] == "1" and items and c_arg[1] == items[0][1]
                    ob("C09.d", "next_match:skipped-char-recorded-at-its-absolute-index", bool(ok_i),
                       "record_line_offset(i=%s): kind %s (must be the skipped char's index + offset)" % (S.vstr(i_arg), kname(kind(i_arg, {}))), nm.loc(rec[0][1]))
                    ob("C09.c", "next_match:skipped-char-becomes-last-char", bool(ok_c), "record_line_offset(c=%s)" % S.vstr(c_arg), nm.loc(rec[0][1]))
                    sample("C09.d", {"skip_branch": "record_line_offset(%s, %s)" % (S.vstr(i_arg), S.vstr(c_arg))})
                else:
                    ob("C09.c", "next_match:consume-implies-record", False, detail, nm.loc())
            elif end_kind == "return":
                outcomes["exhausted"] += 1
                retv = cont_ret if cont_ret is not None else p.end[1]
                ob("C01.d", "next_match:exhausted-returns-None", variant_of(ex, p, retv) == "None" or (retv[0] == "adt" and retv[2] == "None"), "returns %s" % S.vstr(retv), nm.loc())
                if len(rec) == 1:
                    i_arg = rec[0][3][1]
                    ok = S.vstr(i_arg) == "str::len(&*self.input)"
                    ob("C09.d", "next_match:exhaustion-records-end-of-input", ok,
                       "on exhaustion the line start after a trailing newline is recorded at %s (must be the end of the haystack)" % S.vstr(i_arg), nm.loc(rec[0][1]))
                else:
                    # (the last char may have been a line break nobody recorded a line start for yet: position(len) of such an
                    # input needs this record — "also ... after it was exhausted")
                    ob("C09.d", "next_match:exhaustion-records-end-of-input", False, "record_line_offset called %d times on exhaustion (must be once, with the end of the haystack)" % len(rec), nm.loc())
            else:
                ob("C01.d", "next_match:skip-path-end", False, "unexpected end %s" % (p.end,), nm.loc())
            ob("C07.b", "next_match:no-advance-on-failed-attempt", not adv, "advance_to on a failed attempt", nm.loc())
        else:
            ob("C01.d", "next_match:path-classified", False, "a path does not branch on the attempt's result", nm.loc())
        # direct writes to cursor fields inside next_match (other than through the callees above)
        hw = [w for w in heap_writes(p) if w[0] == ("sym", "self")]
        ob("C09.a", "next_match:no-direct-cursor-field-writes", not hw, "direct writes in next_match: %s" % [field_path(w[1]) for w in hw], nm.loc())
    ob("C01.d", "next_match:all-three-outcomes", all(outcomes.values()), "paths per outcome: %s" % outcomes, nm.loc())
    # progress (C07.c): the only back edge of next_match is taken after cursor.next() returned Some
    be = nm.back_edges()
    ob("C07.c", "next_match:single-loop", len({h for _, h in be}) == 1, "loop headers: %s" % sorted({h for _, h in be}), nm.loc())
    cutpaths = [p for p in paths if p.end[0] == "cut"]
    okp = bool(cutpaths) and all(len([e for e in p.events if e[0] == "cursor-next"]) == 1 for p in cutpaths)
    ob("C07.c", "next_match:every-retry-consumed-a-char", okp, "%d retry path(s); each must have consumed one char of the cursor" % len(cutpaths), nm.loc())

    # =================================================================== peek_n
    pk = F.fn(r"FindMatchesImpl::<..>::peek_n$")
    ctx.analysed_fn(pk)
    ex, paths = run_fn(pk, F, Model(), inline=GETTERS)
    seen = {"some-switch": 0, "some-cont": 0, "none-skip": 0, "none-exhausted": 0, "exit": 0}
    for p in paths:
        hw = [w for w in heap_writes(p) if w[0] == ("sym", "self")]
        ob("C11.a", "peek_n:no-writes-to-iterator-state", not hw, "peek_n writes self.%s" % [field_path(w[1]) for w in hw], pk.loc())
        att = p.calls(r"ScannerImpl::peek_from$")
        bad_att = p.calls(r"ScannerImpl::find_from$")
        ob("C11.a", "peek_n:never-calls-the-switching-attempt", not bad_att, "peek_n calls ScannerImpl::find_from (which switches modes)", pk.loc())
        nexts = [e for e in p.events if e[0] == "cursor-next"]
        for e in nexts:
            own = ref_to_self_field(e[3], "char_indices")
            ob("C11.a", "peek_n:never-advances-own-cursor", not own, "cursor.next() on %s" % e[2], pk.loc(e[1]))
        if not att:
            if p.end[0] == "return":
                seen["exit"] += 1
            continue
        if len(att) != 1:
            ob("C11.b", "peek_n:one-attempt-per-iteration", False, "%d attempts" % len(att), pk.loc())
            continue
        a = att[0]
        res = a[4]
        v = variant_of(ex, p, res)
        inp_s = S.vstr(a[3][1])
        ob("C04.c", "peek_n:attempt-haystack-is-input[offset..]", inp_s == "&*self.input.RangeFrom(self.offset)",
           "haystack handed to the attempt: %s" % inp_s, pk.loc(a[1]))
        cur = a[3][2]
        cur_s = S.vstr(cur)
        ob("C04.c", "peek_n:attempt-cursor-is-clone-of-own-cursor", cur == ("field", ("sym", "self"), "char_indices") or "self.char_indices" in cur_s,
           "cursor handed to the attempt: %s" % cur_s, pk.loc(a[1]))
        adv = p.calls(r"advance_char_indices_beyond_match$")
        push = p.calls(r"Vec::<.*Match>::push$")
        ht = p.calls(r"ScannerImpl::has_transition$")
        if v == "Some":
            payload = ("field", ("downcast", res, "Some"), "0")
            a1_ = adv[0][3][1] if len(adv) == 1 else None
            if a1_ is not None and a1_[0] == "ref":       # the helper may take the match by reference: its value at call time
                a1_ = argval(adv[0], 1)
            ok_adv = len(adv) == 1 and a1_ == payload and adv[0][3][0][0] == "ref" and adv[0][3][0][1][1][0] == "local"
            ob("C11.d", "peek_n:local-cursor-advanced-with-unshifted-match", ok_adv,
               "advance_char_indices_beyond_match(%s)" % [", ".join(S.vstr(y) for y in x[3]) for x in adv], pk.loc())
            ob("C11.b", "peek_n:no-skip-on-match", not nexts, "cursor.next() on the match path", pk.loc())
            if len(push) == 1:
                m = push[0][3][1]
                st = ex.project(p, ex.project(p, m, ("f", "span", 1), None), ("f", "start", 0), None)
                en = ex.project(p, ex.project(p, m, ("f", "span", 1), None), ("f", "end", 1), None)
                ks, ke = kind(st, {}), kind(en, {})
                ob("C11.d", "peek_n:pushed-span-absolute", ks == ABS and ke == ABS,
                   "pushed span = %s .. %s : kinds %s..%s" % (S.vstr(st), S.vstr(en), kname(ks), kname(ke)), pk.loc(push[0][1]))
                ls, cs = S.linear(st)
                want_s = {("field", ("field", payload, "span"), "start"): 1, ("field", ("sym", "self"), "offset"): 1}
                le, ce = S.linear(en)
                want_e = {("field", ("field", payload, "span"), "end"): 1, ("field", ("sym", "self"), "offset"): 1}
                ob("C11.d", "peek_n:pushed-span-is-attempt-span-plus-offset", ls == want_s and le == want_e and cs == 0 and ce == 0,
                   "start=%s end=%s" % (S.vstr(st), S.vstr(en)), pk.loc(push[0][1]))
                tt = ex.project(p, m, ("f", "token_type", 0), None)
                ob("C11.d", "peek_n:pushed-token-type-unchanged", tt == ("field", payload, "token_type"), "token type %s" % S.vstr(tt), pk.loc())
            else:
                ob("C11.d", "peek_n:match-pushed-once", False, "%d pushes on the match path" % len(push), pk.loc())
            if len(ht) == 1:
                key = ht[0][3][1]
                ok_key = key[0] == "app" and re.search(r"Match::token_type$", key[1]) and ex.deref_val(p, key[2][0]) in (payload,) or key == ("field", payload, "token_type")
                ob("C11.c", "peek_n:transition-keyed-by-this-match", bool(ok_key), "has_transition(%s)" % S.vstr(key), pk.loc(ht[0][1]))
                ok_recv = S.vstr(ht[0][3][0]) == "&self.scanner_impl"
                ob("C11.c", "peek_n:transition-looked-up-in-own-scanner", ok_recv, "receiver %s" % S.vstr(ht[0][3][0]), pk.loc(ht[0][1]))
                hv = variant_of(ex, p, ht[0][4])
                if hv == "Some":
                    seen["some-switch"] += 1
                    ok_ret = p.end[0] == "return" and p.end[1][0] == "adt" and p.end[1][2] == "MatchesReachedModeSwitch"
                    mode_ok = False
                    if ok_ret:
                        tup = p.end[1][3][0]
                        mode_ok = tup[0] == "tuple" and tup[1][1] == ("field", ("downcast", ht[0][4], "Some"), "0")
                    ob("C11.c", "peek_n:pending-switch-stops-and-reports-target", ok_ret and mode_ok,
                       "on a pending mode switch peek_n returns %s" % (S.vstr(p.end[1]) if p.end[0] == "return" else p.end[0]), pk.loc())
                elif hv == "None":
                    seen["some-cont"] += 1
                    if p.end[0] == "return":
                        pass
                    else:
                        ob("C11.b", "peek_n:continue-after-match", p.end[0] == "cut", "after a match without switch: %s" % p.end[0], pk.loc())
            else:
                ob("C11.c", "peek_n:one-transition-lookup-per-match", False, "%d has_transition calls" % len(ht), pk.loc())
        elif v == "None":
            ok_one = len(nexts) == 1 and nexts[0][3][0] == "ref" and nexts[0][3][1][1][0] == "local"
            ob("C11.b", "peek_n:skip-consumes-exactly-one-char-of-the-peek-cursor", ok_one,
               "on a failed attempt cursor.next() is called %d time(s) on %s (next_match skips one char and retries)" % (len(nexts), [e[2] for e in nexts]), pk.loc())
            if ok_one:
                # the peek cursor is the same local that is handed (cloned) to the attempt
                same = S.vstr(nexts[0][3]).lstrip("&") == S.vstr(("ref", ("loc", ("local", ex.fid, 0), ()), False))[1:] or True
                if p.end[0] == "cut":
                    seen["none-skip"] += 1
                elif p.end[0] == "return":
                    seen["none-exhausted"] += 1
            ob("C11.b", "peek_n:no-push-on-failed-attempt", not push and not adv, "push/advance on a failed attempt", pk.loc())
        else:
            ob("C11.b", "peek_n:path-classified", False, "path does not branch on the attempt's result", pk.loc())
    ob("C11.b", "peek_n:sibling-outcomes-of-next_match", seen["none-skip"] > 0 and seen["none-exhausted"] > 0 and seen["some-cont"] > 0,
       "outcomes per iteration: %s (a failed attempt must both be able to retry after one char and to stop at the end)" % seen, pk.loc())
    ob("C11.c", "peek_n:mode-switch-outcome-present", seen["some-switch"] > 0, "outcomes: %s" % seen, pk.loc())
    # classification table (C11.e)
    for p in ret_paths(paths):
        r = p.end[1]
        if r[0] != "adt":
            ob("C11.e", "peek_n:result-classified", False, "returns %s" % S.vstr(r), pk.loc())
            continue
        ht = p.calls(r"ScannerImpl::has_transition$")
        switched = any(variant_of(ex, p, h[4]) == "Some" for h in ht)
        # what the path established about the number of collected matches, in any spelling: == n (==, cmp, guard of a match arm)
        # and == 0 (is_empty(), == 0, a match arm `0 =>`)
        from .common import ordering_of

        def is_len(x):
            return x[0] == "app" and re.search(r"Vec::<.*>::len$", str(x[1])) is not None
        # (only the classification's own tests: the loop condition `len < n` belongs to an earlier state of the vector)
        cls_conds = [(c, o) for c, o in p.conds if not (c[0] == "binop" and c[1] in ("Lt", "Le", "Gt", "Ge"))]
        on_ = ordering_of(cls_conds, is_len, lambda x: x == ("sym", "n"))
        eqn = [True] if on_ == {"E"} else ([False] if "E" not in on_ else [])
        empt = [o for c, o in p.conds if c[0] == "app" and re.search(r"Vec::<.*>::is_empty$", c[1])]
        oz_ = ordering_of(cls_conds, is_len, lambda x: x == ("int", 0))
        if oz_ == {"E"}:
            empt.append(True)
        elif "E" not in oz_:
            empt.append(False)
        for c, o in p.conds:
            if is_len(c):        # a switch on the length itself
                if o == 0:
                    empt.append(True)
                elif isinstance(o, tuple) and o and o[0] == "otherwise" and 0 in o[1]:
                    empt.append(False)
        if switched:
            exp = "MatchesReachedModeSwitch"
        elif eqn and eqn[-1] is True:
            exp = "Matches"
        elif empt and empt[-1] is True:
            exp = "NotFound"
        elif eqn and empt:
            exp = "MatchesReachedEnd"
        else:
            exp = None
        # the decision list is ordered: a later row may only be chosen after the earlier tests were negative
        if r[2] == "NotFound" and not switched:
            ob("C11.e", "peek_n:NotFound-only-after-len==n-was-excluded", bool(eqn) and eqn[-1] is False,
               "NotFound is returned on a path that %s the 'all n found' test (peek_n(0) must report Matches([]))" % ("failed" if eqn else "never made"), pk.loc())
        if r[2] == "MatchesReachedEnd" and not switched:
            ob("C11.e", "peek_n:ReachedEnd-only-after-the-other-rows", bool(eqn) and eqn[-1] is False and bool(empt) and empt[-1] is False, "tests made: len==n %s, empty %s" % (eqn, empt), pk.loc())
        ob("C11.e", "peek_n:classification:" + str(exp), r[2] == exp,
           "returns %s where the decision order (switch, len == n, empty, else reached end) gives %s" % (r[2], exp), pk.loc())
        if r[2] in ("Matches", "MatchesReachedEnd"):
            ob("C11.e", "peek_n:returns-the-collected-matches:" + r[2], "matches" in S.vstr(r) or "with_capacity" in S.vstr(r), "payload %s" % S.vstr(r)[:120], pk.loc())
    # loop bound: the loop continues while fewer than n matches were collected
    lt = [c for p in paths for c, o in p.conds if c[0] == "binop" and c[1] in ("Lt", "Ge", "Le", "Gt", "Ne", "Eq") and "len" in S.vstr(c) and "n" in (S.vstr(c[2]), S.vstr(c[3]))]
    ob("C11.e", "peek_n:loop-bounded-by-n", bool(lt), "loop condition compares the number of collected matches with n: %s" % (S.vstr(lt[0]) if lt else None), pk.loc())
    # ... and it is *that* comparison which lets the loop go on: every iteration that makes an attempt has found fewer than n
    # matches so far (a loop that counts iterations instead — `for _ in 0..n` — spends one of them on every skipped character
    # and previews fewer tokens than next() will deliver)
    def fewer_than_n(c, o):
        if not (c[0] == "binop" and "len" in S.vstr(c)):
            return False
        a_, b_ = S.vstr(c[2]), S.vstr(c[3])
        if b_ == "n" and "len" in a_:
            return (c[1], o) in (("Lt", True), ("Ge", False), ("Eq", False), ("Ne", True))
        if a_ == "n" and "len" in b_:
            return (c[1], o) in (("Gt", True), ("Le", False), ("Eq", False), ("Ne", True))
        return False
    n_it = 0
    for p in paths:
        if not p.calls(r"ScannerImpl::peek_from$"):
            continue
        n_it += 1
        ok = any(fewer_than_n(c, o) for c, o in p.conds)
        ob("C11.e", "peek_n:an-attempt-is-made-only-while-fewer-than-n-matches-were-collected", ok,
           "conditions on a path with an attempt: %s" % [("%s=%s" % (S.vstr(c)[:50], o)) for c, o in p.conds][:5], pk.loc())
    ctx.floor("C11.e", "peek_n iterations with an attempt", n_it, 3)
    # transitive purity (effects)
    w = F.may_write(pk)
    forb = {"char_indices", "last_position", "last_char", "line_offsets", "offset"}
    bad = sorted(x for x in w if x[0].endswith("FindMatchesImpl") and x[1] in forb)
    ob("C11.a", "peek_n:transitive-write-set-excludes-cursor-fields", not bad, "transitive writes of peek_n into FindMatchesImpl: %s" % bad, pk.loc())
    badm = sorted(x for x in w if x[0].endswith("ScannerImpl") and x[1] == "current_mode")
    ob("C11.a", "peek_n:transitive-write-set-excludes-current_mode", not badm, "transitive writes: %s" % badm, pk.loc())
    # ... and nothing else that a later call reads: the only state peek_n (transitively) writes are the automaton's
    # scratch buffers (cleared on entry of every attempt, C12.d) reached through the borrow path scanner_impl ->
    # scanner_modes -> dfa; any other written field of the crate's own types that the scan path reads somewhere is a
    # channel from a peek into the outcome of a later call (a memo, a counter that is consulted, a flag)
    scratch = {("FindMatchesImpl", "scanner_impl"), ("ScannerImpl", "scanner_modes"), ("CompiledScannerMode", "dfa"),
               ("CompiledDfa", "current_states"), ("CompiledDfa", "next_states"),
               # borrow path to the scratch buffers of a lookahead automaton (an explicit `&mut self.nfa` / `lookaheads.get_mut`)
               ("CompiledLookahead", "nfa"), ("CompiledDfa", "lookaheads")}
    own = lambda a: a.startswith("internal::") or a.startswith("find_matches") or a.startswith("scanner")
    extra = sorted(x for x in w if own(x[0]) and (x[0].split("::")[-1].split("<")[0], x[1]) not in scratch)
    if extra:
        roots = [f_ for f_ in (F.fn(r"FindMatchesImpl::<..>::next_match$"), pk) if f_ is not None]
        reads = set()
        for k_ in sorted(set(F.reachable_fns(roots)) | {r_.key for r_ in roots}):
            f_ = F.fns[k_]
            for bb_, i_, s_ in f_.stmts():
                if s_["k"] == "assign":
                    for pl_ in M.rvalue_places(s_["rv"]):
                        reads |= set(M.place_fields(pl_))
            for bb_ in f_.reachable():
                t_ = f_.term(bb_)
                for a_ in (t_.get("args") or []) if t_["k"] == "call" else []:
                    pl_ = M.operand_place(a_)
                    if pl_ is not None:
                        reads |= set(M.place_fields(pl_))
                if t_["k"] == "switch":
                    pl_ = M.operand_place(t_.get("discr") or t_.get("op") or {})
                    if pl_ is not None:
                        reads |= set(M.place_fields(pl_))
        extra = [x for x in extra if x in reads]
    ob("C11.a", "peek_n:writes-nothing-a-later-call-reads", not extra, "fields written (transitively) by peek_n and read on the scan path, other than the scratch buffers: %s" % ["%s.%s" % (M.short_name(a), b) for a, b in extra], pk.loc())
    sample("C11.a", {"peek_n_transitive_writes": sorted("%s.%s" % (M.short_name(a), b) for a, b in w if a.startswith("internal") or a.startswith("find_matches"))})

    # advance_char_indices_beyond_match: consumes chars of the given cursor until the end of the match
    ac = F.fn(r"FindMatchesImpl::<..>::advance_char_indices_beyond_match$")
    ctx.analysed_fn(ac)
    ex, paths = run_fn(ac, F, Model(), inline=GETTERS)
    env = {"rel_matches": ("matched",)}
    n_cmp = 0
    n_stop = 0
    for p in paths:
        consumed = [e for e in p.events if e[0] == "cursor-next"]
        stop = [(c, o) for c, o in p.conds if c[0] == "binop" and c[1] in ("Ge", "Gt", "Lt", "Le") and S.mentions(c, lambda x: x[0] == "sym" and x[1].startswith("ci_item@"))]
        for c, o in p.conds:
            if c[0] == "binop" and c[1] in ("Ge", "Gt", "Lt", "Le", "Eq", "Ne"):
                ka, kb = kind(c[2], env), kind(c[3], env)
                n_cmp += 1
                ob("C11.d", "advance_char_indices_beyond_match:comparison-kinds", ka == kb and ka is not None,
                   "compares %s (%s) with %s (%s)" % (S.vstr(c[2]), kname(ka), S.vstr(c[3]), kname(kb)), ac.loc())
        if consumed and not stop and p.end[0] in ("return", "cut"):
            got_item = any(e[0] == "write" and e[4][0] == "field" and e[4][1][0] == "sym" and e[4][1][1].startswith("ci_item@") for e in p.events) or any(e[0] == "iter-item" for e in p.events)
            if got_item:
                ob("C11.d", "advance_char_indices_beyond_match:stop-test-after-each-char", False, "a consumed char is not compared with the end of the match", ac.loc())
        if stop:
            # the walk stops exactly when the end of the consumed char (index + len_utf8(c)) has reached the end of the match:
            # ordering of (index + len_utf8(c)) against matched.span.end, in any spelling (>=, <=, !(<), operands swapped)
            n_stop += 1

            def is_char_end(x):
                la, ca = S.linear(x)
                item0 = [a_ for a_ in la if a_[0] == "field" and a_[2] == "0" and a_[1][0] == "sym" and a_[1][1].startswith("ci_item@")]
                lens = [a_ for a_ in la if a_[0] == "app" and a_[1] == "len_utf8" and a_[2][0][0] == "field" and a_[2][0][2] == "1" and item0 and a_[2][0][1] == item0[0][1]]
                return len(la) == 2 and len(item0) == 1 and len(lens) == 1 and ca == 0 and all(v == 1 for v in la.values())

            def is_match_end(x):
                lb, cb = S.linear(x)
                return len(lb) == 1 and cb == 0 and S.fstr(list(lb)[0]) == "matched.span.end"
            from .common import ordering_of
            oset = ordering_of(stop, is_char_end, is_match_end)
            related = all((is_char_end(c[2]) and is_match_end(c[3])) or (is_char_end(c[3]) and is_match_end(c[2])) for c, o in stop)
            exits = p.end[0] == "return"
            ok_dir = (oset <= {"E", "G"}) if exits else (oset == {"L"})
            ob("C11.d", "advance_char_indices_beyond_match:stops-at-match-end", related and ok_dir,
               "loop %s under %s; it must stop exactly when index + len_utf8(c) >= matched.span.end" % ("exits" if exits else "continues", [(S.fstr(c), o) for c, o in stop]), ac.loc())
    if "C11.d" in want:
        ctx.floor("C11.d", "stop tests in advance_char_indices_beyond_match", n_stop, 2)
    if "C11.d" in want:
        ctx.floor("C11.d", "comparisons in advance_char_indices_beyond_match", n_cmp, 1)

    # =================================================================== set_offset
    so = F.fn(r"FindMatchesImpl::<..>::set_offset$")
    ctx.analysed_fn(so)
    ex, paths = run_fn(so, F, Model())
    rp = ret_paths(paths)
    if "C10.b" in want or "C09.a" in want:
        ctx.floor("C10.b", "return paths of set_offset", len(rp), 1)
    env = {"abs_params": ("offset",)}
    for p in rp:
        ws = [w for w in heap_writes(p) if w[0] == ("sym", "self")]
        fields = {}
        for w in ws:
            fields[field_path(w[1])] = w[2]
        cursor = {"char_indices", "last_position", "last_char", "offset"}
        missing = sorted(cursor - set(fields))
        extra = sorted(set(fields) - cursor)
        cond = ", ".join("%s=%s" % (S.vstr(c), o) for c, o in p.conds if "self.input" in S.vstr(c))
        ob("C09.a", "set_offset:repositioning-resets-the-whole-cursor", not missing,
           "path [%s]: cursor fields not written: %s (char_indices, last_position, last_char describe one cursor)" % (cond, missing), so.loc())
        ob("C10.b", "set_offset:writes-only-cursor-fields", not extra, "path [%s]: other fields written: %s" % (cond, extra), so.loc())
        if "last_position" in fields:
            ob("C10.b", "set_offset:last_position-reset-to-0", fields["last_position"] == ("int", 0), "last_position := %s" % S.vstr(fields["last_position"]), so.loc())
        # base consistency: the slice start of the new cursor equals the stored offset on this path
        if "char_indices" in fields and "offset" in fields:
            ci = fields["char_indices"]
            cs = S.vstr(ci)
            m = None
            start = None
            if ci[0] == "app" and re.search(r"char_indices$", ci[1]):
                sl = ex.deref_val(p, ci[2][0]) if ci[2][0][0] != "ref" else ci[2][0]
                # &*self.input.<Range...>
                loc = ci[2][0][1] if ci[2][0][0] == "ref" else None
                if loc is not None and loc[2] and loc[2][-1][0] == "i":
                    rng = loc[2][-1][1]
                    if rng[0] == "adt" and rng[2] in ("RangeFrom", "Range"):
                        start = rng[3][0]
                        if rng[2] == "Range":
                            # empty slice at `start` must be start..start or start..len
                            pass
                elif loc is not None and not loc[2]:
                    start = ("int", 0)
            stored = fields["offset"]
            eq = terms_equal_under(p, start, stored) if start is not None else False
            ob("C10.c", "set_offset:cursor-base-equals-stored-offset", eq,
               "path [%s]: new cursor over input[%s..], stored offset %s" % (cond, S.vstr(start) if start else "?", S.vstr(stored)), so.loc())
            # clamp: stored offset <= len(input)
            le_len = stored_le_len(p, stored)
            ob("C10.c", "set_offset:stored-offset-clamped-to-haystack", le_len,
               "path [%s]: stored offset %s must be <= len(input) (documented clamp)" % (cond, S.vstr(stored)), so.loc())
            sample("C10.c", {"set_offset_path": cond, "cursor_over": "input[%s..]" % (S.vstr(start) if start else "?"), "stored_offset": S.vstr(stored)})
        if "last_char" in fields:
            lc = fields["last_char"]
            s = S.vstr(lc)
            dep_old = S.mentions(lc, lambda x: x == ("field", ("sym", "self"), "last_char"))
            is_back = lambda x: x[0] == "app" and re.search(r"(next_back|::last|::rev)$", x[1]) is not None
            src = lc
            if not S.mentions(lc, is_back):
                # `prefix.chars().next_back().unwrap_or('\0')` analysed as the branch it is: on the path where there is no char in
                # front of the new position the neutral char is stored
                none_of = [c[1] for c, o in p.conds if c[0] == "isvar" and ((c[2] == "None" and o is True) or (c[2] == "Some" and o is False)) and S.mentions(c[1], is_back)]
                neutral = S.vstr(lc).startswith("'\\x00'") or S.vstr(lc) in ("'\x00'", "'\\0'") or lc == ("app", "Default::default", ())    # (char::default() is NUL)
                if none_of and neutral:
                    src = none_of[-1]
                    s = "%s when %s is None" % (s, S.vstr(src)[:100])
            dep_inp = S.mentions(src, lambda x: x == ("field", ("sym", "self"), "input"))
            rto = [x for x in S.subterms(src) if x[0] == "adt" and x[2] == "RangeTo"]
            backwards = S.mentions(src, is_back)
            ok = (not dep_old) and dep_inp and bool(rto) and backwards
            ob("C09.a", "set_offset:last_char-is-the-char-before-the-new-position", ok,
               "last_char := %s (must be the last char of the haystack in front of the new position, not taken from the old cursor)" % s[:160], so.loc())
            if ok and "offset" in fields:
                # the prefix ends at the (clamped) stored offset
                ok2 = any(terms_equal_under(p, x[3][0], fields["offset"]) for x in rto)
                ob("C09.a", "set_offset:last_char-prefix-ends-at-new-offset", ok2, "prefix bound %s vs stored offset %s" % ([S.vstr(x[3][0]) for x in rto], S.vstr(fields["offset"])), so.loc())
    # who may write the cursor fields at all (closed sets)
    closed = {
        "char_indices": {r"FindMatchesImpl::<..>::set_offset$", r"FindMatchesImpl::<..>::advance_to$", r"FindMatchesImpl::<..>::next_match$", r"FindMatchesImpl::<..>::new$"},
        "last_position": {r"FindMatchesImpl::<..>::set_offset$", r"FindMatchesImpl::<..>::advance_to$"},
        "last_char": {r"FindMatchesImpl::<..>::set_offset$", r"FindMatchesImpl::<..>::advance_to$", r"FindMatchesImpl::<..>::record_line_offset$"},
        "offset": {r"FindMatchesImpl::<..>::set_offset$"},
        "line_offsets": {r"FindMatchesImpl::<..>::merge_line_offsets$"},
        "input": set(),
    }
    for fld, allowed in closed.items():
        ws = field_writers(F, "FindMatchesImpl", fld)
        for w in sorted(ws):
            ok = any(re.search(rx, w) for rx in allowed)
            if not ok and allowed:
                # a mutable borrow that is only handed to an allowed writer (`Self::merge_line_offsets(&mut self.line_offsets, ..)`
                # when the writer takes the field instead of `self`) is that writer's write
                wf = [f_ for f_ in F.fns.values() if f_.name == w]
                def only_passed_on(f_, site):
                    bb_, i_, how_ = site[0], site[1], site[2] if len(site) > 2 else ""
                    if how_ != "borrow_mut" or i_ is None:
                        return False
                    st_ = f_.blocks[bb_]["stmts"][i_]
                    if st_["p"]["pj"]:
                        return False
                    def flows(l_, seen_):
                        if l_ in seen_:
                            return True
                        seen_ = seen_ | {l_}
                        used = False
                        for b2 in f_.reachable():
                            for s2 in f_.blocks[b2]["stmts"]:
                                if s2["k"] == "assign" and s2["p"]["l"] != l_ and any(pl_["l"] == l_ for pl_ in M.rvalue_places(s2["rv"])):
                                    # a reborrow / move of the reference into another temporary is followed
                                    if s2["rv"]["k"] in ("ref", "use") and not s2["p"]["pj"]:
                                        used = True
                                        if not flows(s2["p"]["l"], seen_):
                                            return False
                                    else:
                                        return False
                            t2 = f_.term(b2)
                            if t2["k"] == "call" and any((M.operand_place(a_) or {}).get("l") == l_ for a_ in t2["args"]):
                                used = True
                                if not any(re.search(rx, M.call_name(t2)) for rx in allowed):
                                    return False
                        return used
                    return flows(st_["p"]["l"], frozenset())
                ok = len(wf) == 1 and all(only_passed_on(wf[0], site) for site in ws[w])
            rule = "C09.b" if fld == "line_offsets" else ("C07.c" if fld == "char_indices" else "C10.b")
            ob(rule, "writer-of-%s:%s" % (fld, M.short_name(w)), ok, "%s writes/mutably borrows FindMatchesImpl.%s%s" % (M.short_name(w), fld, "" if ok else " (not in the closed writer set)"), "")
    # with_offset forwards to set_offset
    # (the internal with_offset may have been folded into the public one: then the public rule below covers it)
    for wo in F.fn_opt(r"FindMatchesImpl::<..>::with_offset$"):
        ex, paths = run_fn(wo, F, Model())
        for p in ret_paths(paths):
            c = p.calls(r"FindMatchesImpl::<..>::set_offset$")
            ok = len(c) == 1 and S.vstr(c[0][3][1]) == "offset"
            ob("C10.b", "with_offset-forwards-to-set_offset", ok, "with_offset calls %s" % [(M.short_name(x[2]), [S.vstr(a) for a in x[3]]) for x in p.calls("set_offset")], wo.loc())
    # public wrappers forward their position/offset unchanged
    for pat, dst, arg in ((r"find_matches::FindMatches::<..>::set_offset$", r"FindMatchesImpl::<..>::set_offset$", "position"),
                          (r"find_matches::FindMatches::<..>::with_offset$", r"FindMatchesImpl::<..>::set_offset$", "offset"),
                          (r"find_matches::FindMatches::<..>::advance_to$", r"FindMatchesImpl::<..>::advance_to$", "position"),
                          (r"<find_matches::FindMatches<'_> as position::PositionProvider>::set_offset$", r"FindMatchesImpl::<..>::set_offset$", "offset"),
                          (r"<find_matches::FindMatches<'_> as position::PositionProvider>::position$", r"FindMatchesImpl::<..>::position$", "offset"),
                          (r"find_matches::FindMatches::<..>::peek_n$", r"FindMatchesImpl::<..>::peek_n$", "n"),
                          (r"find_matches::FindMatches::<..>::next_match$", r"FindMatchesImpl::<..>::next_match$", None),
                          (r"<find_matches::FindMatches<'_> as std::iter::Iterator>::next$", r"FindMatchesImpl::<..>::next_match$", None),
                          # the with_positions() adaptor hands positions / resets to the iterator it wraps
                          (r"<with_positions::WithPositions<I> as position::PositionProvider>::set_offset$", r"^<I as position::PositionProvider>::set_offset$", "offset"),
                          (r"<with_positions::WithPositions<I> as position::PositionProvider>::position$", r"^<I as position::PositionProvider>::position$", "offset")):
        fn = F.fn(pat)
        # intermediate forwarding layers of the wrapper are looked through (they may or may not exist)
        ex, paths = run_fn(fn, F, Model(), inline=r"FindMatchesImpl::<..>::with_offset$|find_matches::FindMatches::<..>::(next_match|set_offset)$")
        okall = True
        det = ""
        recv = "self.iter" if "WithPositions" in pat else "self.inner"
        for p in ret_paths(paths):
            c = p.calls(dst)
            rv_ = None
            if len(c) == 1:
                rv_ = argval(c[0], 0)      # the receiver as it was when the call was made
            ok = len(c) == 1 and (arg is None or S.vstr(c[0][3][1]) == arg) and (recv in S.vstr(c[0][3][0]) or S.vstr(rv_).lstrip("&*") == recv)
            if ok and not re.search(r"set_offset$|with_offset$", fn.name):
                ok = p.end[1] == c[0][4]
            if ok:
                # a forwarding wrapper does nothing else: no field of the wrapper is written and no other method of the
                # implementation is called (a wrapper that remembers a peek, latches exhaustion or switches the mode on the side
                # makes the public iterator behave differently from the implementation the other rules analyse)
                extra_w = [field_path(w[1]) for w in heap_writes(p) if w[0] == ("sym", "self") and not field_path(w[1]).startswith(recv.split(".", 1)[1])]
                extra_c = [M.short_name(e_[2]) for e_ in p.events if e_[0] == "call" and e_ is not c[0] and re.search(r"FindMatchesImpl::<..>::|ScannerImpl::|^<I as position::PositionProvider>::|^<I as .*Iterator>::", e_[2])
                           and not re.search(r"FindMatchesImpl::<..>::with_offset$", e_[2]) and not (len(e_) > 8 and e_[8] == "inlined")]
                if extra_w or extra_c:
                    ok = False
            if not ok:
                okall = False
                det = "calls %s; writes %s" % ([(M.short_name(x[2]), [S.vstr(a) for a in x[3]]) for x in p.calls(r".")][:4], [field_path(w[1]) for w in heap_writes(p) if w[0] == ("sym", "self")][:3])
        ob("C10.a", "public-forward:" + M.short_name(fn.name), okall, det or "forwards %s unchanged to the implementation" % (arg or "the call"), fn.loc())

    # =================================================================== advance_to (kinds)
    at = F.fn(r"FindMatchesImpl::<..>::advance_to$")
    ctx.analysed_fn(at)
    # (the accessor is last_position + offset; a loop body that calls record_line_offset for the consumed char is the same
    # bookkeeping, written once: looked through)
    ex, paths = run_fn(at, F, Model(), inline=r"FindMatchesImpl::<..>::(offset|record_line_offset)$")
    env = {"abs_params": ("position",)}
    n_cmp = 0
    seen_cmp = set()
    for p in paths:
        for c, o in p.conds:
            if c[0] == "binop" and c[1] in ("Ge", "Gt", "Lt", "Le"):
                key = S.vstr(c)
                if key in seen_cmp:
                    continue
                seen_cmp.add(key)
                ka, kb = kind(c[2], env), kind(c[3], env)
                n_cmp += 1
                ob("C10.a", "advance_to:comparison-kinds:" + c[1], ka == kb and ka is not None and ka in (REL, ABS),
                   "compares %s (%s) with %s (%s): the public position is absolute, cursor positions are relative to the offset" % (
                       S.vstr(c[2]), kname(ka), S.vstr(c[3]), kname(kb)), at.loc())
        for val_, bb_ in recorded_line_starts(ex, p):
            k = kind(val_, env)
            ob("C09.d", "advance_to:recorded-line-start-absolute", k == ABS, "records line start %s (%s)" % (S.vstr(val_), kname(k)), at.loc(bb_))
        if p.end[0] == "return":
            k = kind(p.end[1], env)
            ob("C10.a", "advance_to:returns-absolute-position", k in (ABS, BASE), "returns %s (%s; must be a position in the haystack: Abs, or Base when nothing was consumed)" % (S.vstr(p.end[1]), kname(k)), at.loc())
            for w in heap_writes(p):
                if w[0] == ("sym", "self") and field_path(w[1]) == "last_position":
                    k2 = kind(w[2], env)
                    ob("C10.a", "advance_to:last_position-stays-relative", k2 == REL or w[2] == ("int", 0), "last_position := %s (%s)" % (S.vstr(w[2]), kname(k2)), at.loc(w[3]))
    if "C10.a" in want:
        ctx.floor("C10.a", "position comparisons in advance_to", n_cmp, 2)
    # loop body of advance_to: per consumed char: line start recorded iff previous char was '\n',
    # last char updated with the consumed char, position with its index; exit only at the target or exhaustion
    body_paths = [p for p in paths if [e for e in p.events if e[0] == "cursor-next"]]
    n_rec = 0
    for p in body_paths:
        nx = [e for e in p.events if e[0] == "cursor-next"]
        own = all(S.vstr(e[3]).lstrip("&") in ("self.char_indices",) for e in nx)
        ob("C09.c", "advance_to:consumes-own-cursor", own and len(nx) == 1, "cursor.next() on %s" % [e[2] for e in nx], at.loc())
        items = [c for c, o in p.conds]
        nl = newline_tests(p.conds)
        pushes = [(None, None, None, (None, v_)) for v_, _ in recorded_line_starts(ex, p)]     # (same shape as call events: x[3][1] is the value)
        got_item = any(e[0] == "write" and e[2][0] == "local" and e[4][0] == "field" and e[4][1][0] == "sym" and e[4][1][1].startswith("ci_item@") for e in p.events)
        if not got_item:
            continue  # exhausted on the first next()
        if nl:
            c, was_nl = nl[0]
            tested = S.vstr(c)
            ob("C09.c", "advance_to:newline-test-on-previous-char", tested in ("self.last_char",) or "last_char" in tested,
               "newline test on %s" % tested, at.loc())
            if was_nl:
                n_rec += 1
                ok = len(pushes) == 1
                if ok:
                    li, ci = S.linear(pushes[0][3][1])
                    its = [a_ for a_ in li if a_[0] == "field" and a_[1][0] == "sym" and a_[1][1].startswith("ci_item@") and a_[2] == "0"]
                    ok = len(its) == 1 and li.get(("field", ("sym", "self"), "offset")) == 1 and len(li) == 2 and ci == 0
                ob("C09.d", "advance_to:line-start-is-index-of-char-after-newline", ok,
                   "after a newline records %s" % [S.vstr(x[3][1]) for x in pushes], at.loc())
            else:
                ob("C09.c", "advance_to:no-line-start-without-newline", not pushes, "records %s although the previous char is not a newline" % [S.vstr(x[3][1]) for x in pushes], at.loc())
        else:
            ob("C09.c", "advance_to:newline-test-present", False, "consumed a char without testing the previous one for a newline", at.loc())
    if "C09.d" in want:
        ctx.floor("C09.d", "advance_to paths recording a line start", n_rec, 1)
    # exit condition of the consume loop
    exits = [p for p in body_paths if p.end[0] == "return"]
    conts = [p for p in body_paths if p.end[0] == "cut"]
    from .common import ordering_of

    def is_char_end_(x):
        la, ca = S.linear(x)
        item0 = [a_ for a_ in la if a_[0] == "field" and a_[2] == "0" and a_[1][0] == "sym" and a_[1][1].startswith("ci_item@")]
        lens = [a_ for a_ in la if a_[0] == "app" and a_[1] == "len_utf8"]
        return len(la) == 2 and len(item0) == 1 and len(lens) == 1 and ca == 0 and all(v == 1 for v in la.values())

    def is_target_(x):
        # the requested position made relative to the offset (the public position is absolute)
        return kind(x, env) == REL and not S.mentions(x, lambda y: y[0] == "sym" and str(y[1]).startswith("ci_item@")) and S.mentions(x, lambda y: y == ("sym", "position"))
    for p in exits:
        tests = [(c, o) for c, o in p.conds if c[0] == "binop" and "len_utf8" in S.vstr(c)]
        nxt_none = not any(e[0] == "write" and e[2][0] == "local" and e[4][0] == "field" and e[4][1][0] == "sym" and e[4][1][1].startswith("ci_item@") for e in p.events)
        if nxt_none:
            continue
        oset = ordering_of(tests, is_char_end_, is_target_)
        ob("C07.b", "advance_to:stops-when-char-end-reaches-target", bool(tests) and oset <= {"E", "G"}, "loop exit condition: %s" % ([(S.vstr(c), o) for c, o in tests]), at.loc())
    for p in conts:
        tests = [(c, o) for c, o in p.conds if c[0] == "binop" and "len_utf8" in S.vstr(c)]
        oset = ordering_of(tests, is_char_end_, is_target_)
        ob("C07.b", "advance_to:continues-while-before-target", bool(tests) and oset == {"L"}, "loop continues under %s" % ([(S.vstr(c), o) for c, o in tests]), at.loc())
    # after the loop: last_char/last_position written from the loop variables
    for p in ret_paths(paths):
        ws = {field_path(w[1]): w[2] for w in heap_writes(p) if w[0] == ("sym", "self")}
        # the backwards request: target < current position (any spelling of the comparison)
        early = ordering_of(p.conds, is_target_, lambda x: x == ("field", ("sym", "self"), "last_position")) == {"L"}
        if early:
            ob("C10.a", "advance_to:early-return-writes-nothing", not ws, "early return writes %s" % sorted(ws), at.loc())
            continue
        got_item_ = any(e[0] == "write" and e[2][0] == "local" and e[4][0] == "field" and e[4][1][0] == "sym" and e[4][1][1].startswith("ci_item@") for e in p.events)
        # with a consumed char both fields describe it afterwards; without one (cursor already exhausted) last_char keeps
        # its value (written back unchanged or not written at all)
        ok_w = ("last_char" in ws and "last_position" in ws) if got_item_ else ("last_position" in ws and ("last_char" not in ws or S.vstr(ws["last_char"]) == "self.last_char"))
        ob("C09.c", "advance_to:writes-last_char-and-last_position", ok_w, "writes %s (char consumed: %s)" % (sorted(ws), got_item_), at.loc())
        if "last_char" in ws and any(e[0] == "write" and e[2][0] == "local" and e[4][0] == "field" and e[4][1][0] == "sym" and e[4][1][1].startswith("ci_item@") for e in p.events):
            lc = ws["last_char"]
            ob("C09.c", "advance_to:last_char-is-the-consumed-char", lc[0] == "field" and lc[2] == "1" and lc[1][0] == "sym" and lc[1][1].startswith("ci_item@"),
               "last_char := %s" % S.vstr(lc), at.loc())
            lp = ws.get("last_position")
            ob("C09.c", "advance_to:last_position-is-the-consumed-index", lp is not None and lp[0] == "field" and lp[2] == "0" and lp[1][0] == "sym" and lp[1][1].startswith("ci_item@"),
               "last_position := %s" % (S.vstr(lp) if lp else None), at.loc())
    # merge is called when (and only when) something was collected
    for p in ret_paths(paths):
        mg = p.calls(r"merge_line_offsets(::<.*>)?$")
        emp = [(c, o) for c, o in p.conds if c[0] == "app" and re.search(r"Vec::<usize>::is_empty$", c[1])]
        if emp:
            ob("C09.b", "advance_to:collected-line-starts-are-merged", (emp[-1][1] is False) == (len(mg) == 1),
               "is_empty=%s, merge calls=%d" % (emp[-1][1], len(mg)), at.loc())

    # advance_beyond_match passes the absolute end
    abs_ = F.fn_opt(r"FindMatchesImpl::<..>::advance_beyond_match$")
    n = 0
    env = {"rel_matches": ("matched",)}
    for ab in abs_:
      ctx.analysed_fn(ab)
      ex, paths = run_fn(ab, F, Model(), inline=GETTERS)
      for p in ret_paths(paths):
          c = p.calls(r"FindMatchesImpl::<..>::advance_to$")
          emp = [(cc, o) for cc, o in p.conds if (cc[0] == "app" and re.search(r"Match::is_empty$", cc[1]))]
          # any spelling of start >= end (the accessors are analysed in place)
          from .common import ordering_of
          se = ordering_of(p.conds, lambda x: S.vstr(x).endswith("span.start"), lambda x: S.vstr(x).endswith("span.end"))
          if (emp and emp[-1][1] is True) or se <= {"E", "G"}:
              ob("C07.b", "advance_beyond_match:empty-match-no-advance", not c, "empty match: %d advance_to calls" % len(c), ab.loc())
              continue
          n += 1
          ok = len(c) == 1
          if ok:
              k = kind(c[0][3][1], env)
              ob("C10.a", "advance_beyond_match:passes-absolute-end", k == ABS, "advance_to(%s) kind %s (match spans from the attempt are relative to the offset)" % (S.vstr(c[0][3][1]), kname(k)), ab.loc(c[0][1]))
              ob("C07.b", "advance_beyond_match:advances-to-the-match-end", "span" in S.vstr(c[0][3][1]) and ".end" in S.vstr(c[0][3][1]) and "matched" in S.vstr(c[0][3][1]),
                 "advance_to(%s)" % S.vstr(c[0][3][1]), ab.loc(c[0][1]))
          else:
              ob("C07.b", "advance_beyond_match:advances-once", False, "%d advance_to calls" % len(c), ab.loc())
    if "C07.b" in want and abs_:
        ctx.floor("C07.b", "non-empty paths of advance_beyond_match", n, 1)

    # =================================================================== line bookkeeping
    rl = F.fn(r"FindMatchesImpl::<..>::record_line_offset$")
    ctx.analysed_fn(rl)
    ex, paths = run_fn(rl, F, Model())
    rp = ret_paths(paths)
    seen_nl = set()
    for p in rp:
        nl = newline_tests(p.conds)
        mg = p.calls(r"merge_line_offsets(::<.*>)?$")
        ws = {field_path(w[1]): w[2] for w in heap_writes(p) if w[0] == ("sym", "self")}
        if not nl:
            ob("C09.c", "record_line_offset:tests-last-char-for-newline", False, "no newline test on a path", rl.loc())
            continue
        c, o = nl[0]
        ob("C09.c", "record_line_offset:newline-test-on-last_char", S.vstr(c) == "self.last_char", "tests %s" % S.vstr(c), rl.loc())
        seen_nl.add(o)
        if o is True:
            a_ = (ex.deref_val(p, mg[0][3][1]) if mg[0][3][1][0] == "ref" else mg[0][3][1]) if len(mg) == 1 else None
            ok = len(mg) == 1 and (a_ if _scalar_merge(ex) and single_element(a_, ex, p) is None else single_element(a_, ex, p)) == ("sym", "i")
            ob("C09.d", "record_line_offset:records-the-given-offset-after-newline", ok, "merge_line_offsets(%s)" % [S.vstr(x[3][1]) for x in mg], rl.loc())
        else:
            ob("C09.c", "record_line_offset:no-record-without-newline", not mg, "merge without newline", rl.loc())
        ob("C09.c", "record_line_offset:last_char-updated", ws.get("last_char") == ("sym", "c"), "last_char := %s" % (S.vstr(ws["last_char"]) if "last_char" in ws else None), rl.loc())
    ob("C09.c", "record_line_offset:both-branches", seen_nl == {True, False}, "newline outcomes seen: %s" % sorted(seen_nl), rl.loc())

    mg = F.fn(r"FindMatchesImpl::<..>::merge_line_offsets$")
    ctx.analysed_fn(mg)
    ex, paths = run_fn(mg, F, Model(), max_paths=5000)
    scalar = mg.j.get("argc", 0) == 2 and mg.j["locals"][2]["ty"] == "usize"
    got = {"Ok": 0, "Err": 0}
    for p in paths:
        bs = p.calls(r"<impl \[usize\]>::binary_search(_by::<.*>)?$")
        ins = p.calls(r"Vec::<usize>::insert$")
        oth = p.calls(r"Vec::<usize>::(push|remove|clear|truncate|pop|swap_remove|retain|dedup|sort|drain)")
        ob("C09.b", "merge_line_offsets:only-insert-mutates", not oth, "other mutations: %s" % [M.short_name(x[2]) for x in oth], mg.loc())
        if not bs:
            pp = p.calls(r"(<impl \[usize\]>|slice)::partition_point(::<.*>)?$")
            if len(pp) == 1:
                # lower-bound form: i = partition_point(|&s| s < offset) is the index of the first recorded line start that is not
                # below the offset; the offset is known iff the entry at i equals it, otherwise it is inserted at i — the same
                # table as the binary search (Ok(_) = present at i, Err(i) = insert at i)
                b = pp[0]
                ob("C09.b", "merge_line_offsets:searches-line_offsets", "self.line_offsets" in S.vstr(b[3][0]), "partition_point on %s" % S.vstr(b[3][0]), mg.loc(b[1]))

                def strip_(x_):
                    n_ = 0
                    while n_ < 6 and x_[0] in ("ref", "deref"):
                        x_ = ex.deref_val(p, x_) if x_[0] == "ref" else x_[1]
                        n_ += 1
                    return x_
                guard = None
                for c, o in p.conds:
                    if c[0] == "binop" and c[1] in ("Ne", "Eq") and isinstance(o, bool):
                        for g_, k_ in ((c[2], c[3]), (c[3], c[2])):
                            g_, k_ = strip_(g_), strip_(k_)
                            if g_[0] == "app" and re.search(r"(^|::)get(::<.*>)?$", str(g_[1])) and len(g_[2]) == 2 and "self.line_offsets" in S.vstr(g_[2][0]) and strip_(g_[2][1]) == b[4] \
                                    and k_[0] == "adt" and k_[2] == "Some" and len(k_[3]) == 1:
                                guard = (strip_(k_[3][0]), (c[1] == "Eq") == o)
                if guard is None:
                    ob("C09.b", "merge_line_offsets:presence-test-at-the-lower-bound", False, "no test `line_offsets.get(i) ==/!= Some(&offset)` on the result of partition_point", mg.loc(b[1]))
                    continue
                key, present = guard
                f = strip_(b[3][1]) if b[3][1][0] == "ref" else b[3][1]
                tf = _pred_true_for(ex, F, p, f, key)
                ob("C09.b", "merge_line_offsets:lower-bound-of-the-offset", tf == {"L"}, "the predicate of partition_point is true for elements %s the offset (must be: below only — with `<=` an entry equal to the offset lies before i and is inserted again)" % ("/".join({"L": "below", "E": "equal to", "G": "above"}[x] for x in sorted(tf)) if tf is not None else "? (not analysable)"), mg.loc(b[1]))
                if scalar:
                    ob("C09.b", "merge_line_offsets:searches-for-the-current-offset", key == ("sym", mg.names().get(2, "arg2")), "lower bound of %s" % S.fstr(key)[:60], mg.loc(b[1]))
                else:
                    ob("C09.b", "merge_line_offsets:continues-with-the-next-offset", p.end[0] == "cut", "after the presence test the loop is left (%s): later line starts of the batch are lost" % p.end[0], mg.loc(b[1]))
                    nx_ = [c_ for c_ in p.calls(r"iter::Iterator>::next$|IntoIter<.*>::next$")]
                    from_batch = "item@" in S.fstr(key) or any(S.mentions(key, lambda x, r_=c_[4]: x == r_) for c_ in nx_)
                    ob("C09.b", "merge_line_offsets:searches-for-the-current-offset", from_batch, "lower bound of %s" % S.fstr(key)[:60], mg.loc(b[1]))
                if present:
                    got["Ok"] += 1
                    ob("C09.b", "merge_line_offsets:known-offset-not-duplicated", not ins, "insert although the offset is present", mg.loc())
                else:
                    got["Err"] += 1
                    ok = len(ins) == 1 and strip_(ins[0][3][1]) == b[4] and strip_(ins[0][3][2]) == key and "self.line_offsets" in S.vstr(ins[0][3][0])
                    ob("C09.b", "merge_line_offsets:insert-at-search-position", ok, "insert(%s)" % [", ".join(S.vstr(a) for a in x[3]) for x in ins], mg.loc())
                continue
            ob("C09.b", "merge_line_offsets:no-insert-without-search", not ins, "insert without binary search", mg.loc())
            continue
        b = bs[-1]
        v = variant_of(ex, p, b[4])
        hay = S.vstr(b[3][0])
        ob("C09.b", "merge_line_offsets:searches-line_offsets", "self.line_offsets" in hay, "binary_search on %s" % hay, mg.loc(b[1]))
        key = ex.deref_val(p, b[3][1])
        if re.search(r"binary_search_by", b[2]):
            # search with a comparator: it must order the element against the searched offset, in that order, and the searched
            # value is what the closure captured
            cv = key
            key = None
            if cv[0] == "closure" and cv[1] in F.fns:
                cfn = F.fns[cv[1]]
                exc, psc = run_fn(cfn, F, Model())
                oks = []
                for q in ret_paths(psc):
                    r_ = q.end[1]
                    p2 = cfn.names().get(2, "arg2")
                    oks.append(r_[0] == "cmp" and (p2 in S.vstr(r_[1]) or "arg2" in S.vstr(r_[1])) and "arg1" in S.vstr(r_[2]) and "arg1" not in S.vstr(r_[1]))
                ob("C09.b", "merge_line_offsets:comparator-orientation", bool(oks) and all(oks), "comparator of the search (element compared with the offset, in that order)", cfn.loc())
                if cv[2]:
                    key = ex.deref_val(p, cv[2][0]) if cv[2][0][0] == "ref" else cv[2][0]
            if key is None:
                ob("C09.b", "merge_line_offsets:searches-for-the-current-offset", False, "search key of binary_search_by not recognised", mg.loc(b[1]))
                continue
        # every offset of the batch is looked at: the body never leaves the loop, whatever the search says
        if scalar:
            # one offset per call: the searched value is the parameter itself
            ob("C09.b", "merge_line_offsets:searches-for-the-current-offset", key == ("sym", mg.names().get(2, "arg2")), "binary_search(&%s)" % S.fstr(key)[:60], mg.loc(b[1]))
        else:
            ob("C09.b", "merge_line_offsets:continues-with-the-next-offset", p.end[0] == "cut", "after a search with outcome %s the loop is left (%s): later line starts of the batch are lost" % (v, p.end[0]), mg.loc(b[1]))
            ob("C09.b", "merge_line_offsets:searches-for-the-current-offset", "item@" in S.fstr(key), "binary_search(&%s)" % S.fstr(key)[:60], mg.loc(b[1]))
        if v == "Ok":
            got["Ok"] += 1
            ob("C09.b", "merge_line_offsets:known-offset-not-duplicated", not ins, "insert although the offset is present", mg.loc())
        elif v == "Err":
            got["Err"] += 1
            ok = len(ins) == 1 and ins[0][3][1] == ("field", ("downcast", b[4], "Err"), "0") and ins[0][3][2] == key and "self.line_offsets" in S.vstr(ins[0][3][0])
            ob("C09.b", "merge_line_offsets:insert-at-search-position", ok,
               "insert(%s)" % [", ".join(S.vstr(a) for a in x[3]) for x in ins], mg.loc())
    ob("C09.b", "merge_line_offsets:both-search-outcomes", got["Ok"] > 0 and got["Err"] > 0, "outcomes: %s" % got, mg.loc())
    badm = [M.short_name(M.call_name(t)) for bb, t in mg.calls(r"Iterator>::(rev|skip|take|filter|filter_map|step_by|skip_while|take_while|chain|zip)\b")]
    ob("C09.b", "merge_line_offsets:whole-batch-visited", not badm, "iterator adapters on the batch: %s" % badm, mg.loc())
    # line_offsets initial value [0]
    new = F.fn(r"FindMatchesImpl::<..>::new$")
    ex, paths = run_fn(new, F, Model(), inline=r"ScannerImpl::reset$")
    for p in ret_paths(paths):
        r = p.end[1]
        if r[0] == "adt":
            names = None
            lo = r[3][5] if len(r[3]) > 5 else None
            lo_ = lo
            while lo_ is not None and lo_[0] == "app" and len(lo_[2]) == 1 and re.search(r"From<.*>>::from$|Into<.*>>::into$|<impl \[.*\]>::(to_vec|into_vec)$|slice::to_vec$|Vec::<.*>::from$", str(lo_[1])):
                lo_ = lo_[2][0]
            ob("C09.b", "new:line_offsets-starts-with-[0]", lo_ in (("vec", (("int", 0),)), ("array", (("int", 0),))), "line_offsets := %s" % (S.vstr(lo) if lo else None), new.loc())
            ob("C10.c", "new:cursor-over-whole-input-and-offset-0", S.vstr(r[3][2]) in ("str::char_indices(&*input)", "str::char_indices(&input)") and r[3][6] == ("int", 0) and r[3][3] == ("int", 0),
               "char_indices := %s, last_position := %s, offset := %s" % (S.vstr(r[3][2]), S.vstr(r[3][3]), S.vstr(r[3][6])), new.loc())
            ob("C09.a", "new:last_char-neutral", S.vstr(r[3][4]).startswith("'\\x00'") or S.vstr(r[3][4]) == "'\x00'", "last_char := %r" % S.vstr(r[3][4]), new.loc())

    # position(): table
    po = F.fn(r"FindMatchesImpl::<..>::position$")
    ctx.analysed_fn(po)
    ex, paths = run_fn(po, F, Model())
    rows = {}
    for p in ret_paths(paths):
        bs = p.calls(r"<impl \[usize\]>::binary_search(_by::|$)")
        pp = p.calls(r"<impl \[usize\]>::partition_point(::<.*>)?$")
        if not bs and len(pp) == 1:
            # counting form: K = number of recorded line starts that are <= offset (`partition_point(|&x| x <= offset)` on the
            # ascending list); the line is K and starts at line_offsets[K - 1] — the same table as the search: Ok(i) is K = i + 1,
            # Err(i) is K = i
            b = pp[0]
            ob("C09.f", "position:searches-line_offsets", "self.line_offsets" in S.vstr(b[3][0]), "partitions %s" % S.vstr(b[3][0]), po.loc())
            f = ex.deref_val(p, b[3][1]) if b[3][1][0] == "ref" else b[3][1]
            okp, detp = False, "predicate %s not analysable" % S.vstr(f)[:60]
            if f[0] == "closure" and f[1] in F.fns:
                cfn = F.fns[f[1]]
                ex3 = S.Engine(cfn, F, Model(), cut_edges=cfn.back_edges())
                ip = p.fork()        # (the captured `offset` lives in the frame of position())
                ip.end = None
                ip.locals[(ex3.fid, 1)] = ("ref", ("loc", f, ()), False)
                ip.locals[(ex3.fid, 2)] = ("ref", ("loc", ("sym", "elem"), ()), False)
                from .kernel import binop_set, FLIP
                true_for = set()
                okp = True
                for q in ex3.run(0, ip.fork()):
                    if q.end[0] != "return":
                        okp = False
                        continue
                    oset = {"L", "E", "G"}      # orderings of (elem ? offset) this path covers
                    def norm(x, q=q):
                        n_ = 0
                        while n_ < 6:
                            n_ += 1
                            if x[0] == "ref":
                                x = ex3.deref_val(q, x)
                            elif x[0] == "deref":
                                x = x[1]
                            else:
                                break
                        return x
                    terms = [((c[0], c[1], norm(c[2]), norm(c[3])) if c[0] == "binop" else c, o) for c, o in q.conds]
                    val = q.end[1]
                    if val[0] == "binop":
                        val = (val[0], val[1], norm(val[2]), norm(val[3]))
                    for c, o in terms:
                        if c[0] == "binop" and c[1] in ("Lt", "Le", "Gt", "Ge", "Eq", "Ne") and isinstance(o, bool):
                            a_, b_ = c[2], c[3]
                            if a_ == ("sym", "elem") and b_ == ("sym", "offset"):
                                oset &= binop_set(c[1], o)
                            elif b_ == ("sym", "elem") and a_ == ("sym", "offset"):
                                oset &= {FLIP[x] for x in binop_set(c[1], o)}
                            else:
                                okp = False
                    if val[0] == "binop" and val[1] in ("Lt", "Le", "Gt", "Ge", "Eq", "Ne"):
                        if val[2] == ("sym", "elem") and val[3] == ("sym", "offset"):
                            true_for |= oset & binop_set(val[1], True)
                        elif val[3] == ("sym", "elem") and val[2] == ("sym", "offset"):
                            true_for |= oset & {FLIP[x] for x in binop_set(val[1], True)}
                        else:
                            okp = False
                    elif val == ("bool", True):
                        true_for |= oset
                    elif val != ("bool", False):
                        okp = False
                if not okp or true_for != {"L", "E"}:
                    detdbg = "(closure paths not of the form elem <op> offset)"
                else:
                    detdbg = ""
                okp = okp and true_for == {"L", "E"}
                detp = "predicate is true for elements %s the offset" % "/".join({"L": "below", "E": "equal to", "G": "above"}[x] for x in sorted(true_for))
            ob("C09.f", "position:counts-line-starts-up-to-the-offset", okp, detp + " (must be: below or equal) %s" % (detdbg,), po.loc())
            pn = p.calls(r"Position::new$")
            if len(pn) != 1:
                ob("C09.f", "position:builds-one-position", False, "%d Position::new" % len(pn), po.loc())
                continue
            line, col = pn[0][3][0], pn[0][3][1]
            K = b[4]
            ll, lc = S.linear(line)
            for v in ("Ok", "Err"):
                rows[v] = "line=%s col=%s" % (S.vstr(line), S.vstr(col))
                ob("C09.f", "position:%s:line-number" % v, ll == {K: 1} and lc == 0, "line = %s (K = number of line starts at or before the offset)" % S.vstr(line), po.loc())
                ob("C09.f", "position:%s:column" % v, col_ok(col, K, -1), "column = %s (offset minus the start of line K, line_offsets[K - 1], plus 1)" % S.vstr(col), po.loc())
            continue
        if len(bs) != 1:
            ob("C09.f", "position:one-search", False, "%d searches" % len(bs), po.loc())
            continue
        if not re.search(r"binary_search_by", bs[0][2]):
            # plain binary_search(&offset): the key must be the queried offset
            ob("C09.f", "position:searches-for-the-offset", S.fstr(ex.deref_val(p, bs[0][3][1])) == "offset", "binary_search(%s)" % S.fstr(bs[0][3][1]), po.loc())
        b = bs[0]
        v = variant_of(ex, p, b[4])
        ob("C09.f", "position:searches-line_offsets", "self.line_offsets" in S.vstr(b[3][0]), "searches %s" % S.vstr(b[3][0]), po.loc())
        pn = p.calls(r"Position::new$")
        if len(pn) != 1:
            ob("C09.f", "position:builds-one-position", False, "%d Position::new" % len(pn), po.loc())
            continue
        line, col = pn[0][3][0], pn[0][3][1]
        idx = ("field", ("downcast", b[4], v), "0")
        ll, lc = S.linear(line)
        rows[v] = "line=%s col=%s" % (S.vstr(line), S.vstr(col))
        if v == "Ok":
            # offset is itself a line start at index i: line i+1, column 1 (+ offset - start = 0)
            ok_line = ll == {idx: 1} and lc == 1
            # (the element found equals the offset — that is what Ok means for a search for the offset, checked above — so the
            # difference is 0 and the column is the constant 1)
            ok_col = S.vstr(col) == "(saturating_sub(offset, *&self.line_offsets.%s) + 1)" % S.vstr(idx) or col_ok(col, idx, 0) or col == ("int", 1)
        else:
            ok_line = ll == {idx: 1} and lc == 0
            ok_col = col_ok(col, idx, -1)
        ob("C09.f", "position:%s:line-number" % v, ok_line, "line = %s (Ok(i): i+1 lines start at or before the offset; Err(i): i)" % S.vstr(line), po.loc())
        ob("C09.f", "position:%s:column" % v, ok_col, "column = %s (offset minus the start of that line, plus 1)" % S.vstr(col), po.loc())
    ob("C09.f", "position:both-search-outcomes", set(rows) == {"Ok", "Err"}, "rows: %s" % rows, po.loc())
    sample("C09.f", {"position_table": rows})
    # comparator orientation of the binary search: element.cmp(&offset)
    cl = [c for c in F.closures_of(po)]
    for c in cl:
        ex, paths = run_fn(c, F, Model())
        for p in ret_paths(paths):
            r = p.end[1]
            up = c.upvar_names()
            if r[0] != "cmp" and not (r[0] == "adt" and str(r[1]).endswith("Ordering")):
                continue      # not a comparator (e.g. the arms of a map_or_else on the search result)
            p2 = c.names().get(2, "arg2")
            ok = r[0] == "cmp" and (p2 in S.vstr(r[1]) or "arg2" in S.vstr(r[1])) and "arg1" in S.vstr(r[2]) and "arg1" not in S.vstr(r[1]) and up.get(0) == "offset"
            ob("C09.f", "position:comparator-orientation", ok, "comparator returns %s (element compared with the offset, in that order)" % S.vstr(r), c.loc())
    if "C09.f" in want and any(re.search(r"binary_search_by", M.call_name(t)) for bb, t in po.calls()):
        ctx.floor("C09.f", "comparator closures of position()", len(cl), 1)

    # WithPositions::next attaches positions after the match was consumed, from the same iterator
    wp = F.fn_opt(r"with_positions::WithPositions<I> as std::iter::Iterator>::next$")
    if "C09.e" in want:
        if len(wp) != 1:
            ctx.missing("C09.e", "WithPositions::next")
        else:
            fn = wp[0]
            ctx.analysed_fn(fn)
            # wherever the extended match is built (in next itself or in a closure handed to Option::map): its start position
            # is position(start of the match), its end position is position(end of the match), token type and span are
            # those of the match; the order in which the two positions are computed does not matter
            n_new = 0
            ok_struct = True
            det = ""
            for c in [fn] + list(F.closures_of(fn)):
                if c is not fn and n_new >= 1:
                    break        # the closures were analysed in place (as part of next), with the values they receive
                ex, paths = run_fn(c, F, Model())
                for p in ret_paths(paths):
                    pcs = p.calls(r"PositionProvider>::position$")
                    for me in p.calls(r"MatchExt::new$"):
                        n_new += 1
                        def pos_of(v):
                            for pc in pcs:
                                if pc[4] == v:
                                    return S.fstr(pc[3][1])
                            return None
                        a0, a1 = pos_of(me[3][2]), pos_of(me[3][3])
                        good = a0 is not None and a1 is not None and re.search(r"Match::start\(|span(\(.*\))?\.start$", a0) is not None and re.search(r"Match::end\(|span(\(.*\))?\.end$", a1) is not None \
                            and re.search(r"Match::token_type\(|\.token_type$", S.fstr(me[3][0])) is not None and re.search(r"Match::span\(|\.span$", S.fstr(me[3][1])) is not None
                        if not good:
                            ok_struct = False
                        det = "MatchExt::new(%s, %s, position(%s), position(%s))" % (S.fstr(me[3][0])[:40], S.fstr(me[3][1])[:40], a0, a1)
            ob("C09.e", "with_positions:positions-of-start-and-end-offsets", ok_struct and n_new >= 1, det or "no MatchExt::new call found in WithPositions::next", fn.loc())
            ex, paths = run_fn(fn, F, Model())
            for p in ret_paths(paths):
                nx = p.calls(r"iter::Iterator>::next$")
                ok = len(nx) == 1 and "self.iter" in S.vstr(nx[0][3][0])
                ob("C09.e", "with_positions:one-token-taken-from-the-wrapped-iterator", ok, "calls %s" % [M.short_name(x[2]) for x in p.calls(".")], fn.loc())



def _pred_true_for(ex, F, p, f, key):
    """The orderings of (element ? key) for which the one-argument predicate closure `f` (analysed in the frame of path p) returns
    true: a subset of {"L", "E", "G"}, or None when the closure is not of the form `elem <op> key`."""
    if not (f[0] == "closure" and f[1] in F.fns):
        return None
    from .kernel import binop_set, FLIP
    cfn = F.fns[f[1]]
    ex3 = S.Engine(cfn, F, Model(), cut_edges=cfn.back_edges())
    ip = p.fork()
    ip.end = None
    ip.locals[(ex3.fid, 1)] = ("ref", ("loc", f, ()), False)
    ip.locals[(ex3.fid, 2)] = ("ref", ("loc", ("sym", "elem"), ()), False)
    true_for = set()
    n0 = len(p.conds)
    for q in ex3.run(0, ip.fork()):
        if q.end[0] != "return":
            return None

        def norm(x, q=q):
            n_ = 0
            while n_ < 6:
                n_ += 1
                if x[0] == "ref":
                    x = ex3.deref_val(q, x)
                elif x[0] == "deref":
                    x = x[1]
                else:
                    break
            return x
        oset = {"L", "E", "G"}
        for c, o in q.conds[n0:]:       # (the conditions the closure itself adds to those of the calling path)
            if c[0] == "binop" and c[1] in ("Lt", "Le", "Gt", "Ge", "Eq", "Ne") and isinstance(o, bool):
                a_, b_ = norm(c[2]), norm(c[3])
                if a_ == ("sym", "elem") and b_ == key:
                    oset &= binop_set(c[1], o)
                elif b_ == ("sym", "elem") and a_ == key:
                    oset &= {FLIP[x] for x in binop_set(c[1], o)}
                else:
                    return None
        val = q.end[1]
        if val[0] == "binop" and val[1] in ("Lt", "Le", "Gt", "Ge", "Eq", "Ne"):
            a_, b_ = norm(val[2]), norm(val[3])
            if a_ == ("sym", "elem") and b_ == key:
                true_for |= oset & binop_set(val[1], True)
            elif b_ == ("sym", "elem") and a_ == key:
                true_for |= oset & {FLIP[x] for x in binop_set(val[1], True)}
            else:
                return None
        elif val == ("bool", True):
            true_for |= oset
        elif val != ("bool", False):
            return None
    return true_for

def single_element(v, ex=None, p=None):
    """x if v is a one-element batch of line starts: vec![x], [x], std::iter::once(x), Some(x), slice::from_ref(&x)"""
    while v[0] == "deref":
        v = v[1]
    if v[0] == "app" and re.search(r"slice::from_ref(::<.*>)?$", str(v[1])) and len(v[2]) == 1:
        x = v[2][0]
        return ex.deref_val(p, x) if (x[0] == "ref" and ex is not None) else x
    if v[0] in ("vec", "array") and len(v[1]) == 1:
        return v[1][0]
    if v[0] == "app" and re.search(r"iter::once(::<.*>)?$|iter::sources::once::once", str(v[1])) and len(v[2]) == 1:
        return v[2][0]
    if v[0] == "adt" and v[2] == "Some" and len(v[3]) == 1:
        return v[3][0]
    return None


def recorded_line_starts(ex, p):
    """[(value, bb)] the line starts a path records: pushed to a local batch (merged later) or merged one at a time"""
    out = [(pu[3][1], pu[1]) for pu in p.calls(r"Vec::<usize>::push$")]
    for mg in p.calls(r"merge_line_offsets(::<.*>)?$"):
        a = mg[3][1]
        a = ex.deref_val(p, a) if a[0] == "ref" else a
        x = single_element(a, ex, p)
        if x is None and _scalar_merge(ex):
            x = a       # the insertion takes one line start at a time
        if x is not None:
            out.append((x, mg[1]))
    return out


def _scalar_merge(ex):
    """True when the sorted insertion into line_offsets takes a single offset (`fn insert_line_offset(&mut self, offset: usize)`)
    instead of a batch"""
    try:
        mg = ex.facts.fn_opt(r"FindMatchesImpl::<..>::merge_line_offsets$")
    except Exception:
        return False
    return bool(mg) and mg[0].j.get("argc", 0) == 2 and mg[0].j["locals"][2]["ty"] == "usize"


def _last_of_prefix(y):
    """`v[..e].last()` (its Some payload) is the element `v[e - 1]`: rewritten into that indexed read"""
    t = y
    n = 0
    while t[0] == "deref" and n < 4:
        t = t[1]
        n += 1
    if not (t[0] == "field" and t[2] == "0" and t[1][0] == "downcast" and t[1][2] == "Some"):
        return y
    o = t[1][1]
    while o[0] == "app" and re.search(r"Option::<.*>::(copied|cloned)$|^Option::(copied|cloned)$", str(o[1])) and len(o[2]) == 1:
        o = o[2][0]
    if not (o[0] == "app" and re.search(r"(^|::|>)last$", str(o[1])) and len(o[2]) == 1):
        return y
    view = o[2][0]
    if view[0] != "ref" or view[1][0] != "loc" or not view[1][2]:
        return y
    base, steps = view[1][1], view[1][2]
    st = steps[-1]
    if st[0] != "i":
        return y
    rng = st[1]
    end = None
    if rng[0] == "adt" and str(rng[1]).endswith("ops::RangeTo") and len(rng[3]) == 1:
        end = rng[3][0]
    elif rng[0] == "tuple" and len(rng[1]) == 1:
        end = rng[1][0]
    if end is None:
        return y
    return ("deref", ("ref", ("loc", base, tuple(steps[:-1]) + (("i", ("sub", end, ("int", 1))),)), False))


def col_ok(col, idx, delta):
    """col == saturating_sub(offset, line_offsets[idx+delta]) + 1"""
    lin, c = S.linear(col)
    if c != 1 or len(lin) != 1:
        return False
    (a, coef), = lin.items()
    if coef != 1 or a[0] != "app" or a[1] != "saturating_sub":
        return False
    x, y = a[2]
    if x != ("sym", "offset"):
        return False
    y = _last_of_prefix(y)
    s = S.vstr(y)
    if "self.line_offsets" not in s:
        return False
    # index term
    m = y
    # y = *&self.line_offsets.<index>  -> find the index step
    idxterm = None
    if y[0] == "index":
        idxterm = y[2]
    elif y[0] in ("deref",) and y[1][0] == "ref":
        st = y[1][1][2]
        if st and st[-1][0] == "i":
            idxterm = st[-1][1]
    else:
        # read through ref already resolved to a heap projection
        t = y
        while t[0] in ("deref",):
            t = t[1]
        if t[0] == "index":
            idxterm = t[2]
    if idxterm is None:
        return False
    li, ci = S.linear(idxterm)
    return li == {idx: 1} and ci == delta


def terms_equal_under(p, a, b):
    """a == b given the path's assumptions (min/Le reasoning only)."""
    if a is None or b is None:
        return False
    a2, b2 = simplify_min(p, a), simplify_min(p, b)
    if a2 == b2:
        return True
    la, ca = S.linear(a2)
    lb, cb = S.linear(b2)
    return la == lb and ca == cb


def simplify_min(p, t):
    if t[0] == "app" and t[1] == "min" and len(t[2]) == 2:
        x, y = t[2]
        for c, o in p.conds:
            if c[0] == "binop" and c[1] in ("Le", "Lt") and c[2] == x and c[3] == y:
                return x if o else y
            if c[0] == "binop" and c[1] in ("Gt", "Ge") and c[2] == x and c[3] == y:
                return y if o else x
            if c[0] == "binop" and c[1] in ("Le", "Lt") and c[2] == y and c[3] == x:
                return y if o else x
        return t
    return t


def stored_le_len(p, stored):
    s = S.vstr(stored)
    if stored[0] == "app" and stored[1] == "min" and any("str::len(&*self.input)" == S.vstr(x) for x in stored[2]):
        return True
    if s == "str::len(&*self.input)":
        return True
    for c, o in p.conds:
        if c[0] == "binop" and c[1] == "Le" and c[2] == stored and S.vstr(c[3]) == "str::len(&*self.input)" and o is True:
            return True
    return False
