"""Shared helpers for the property rule modules."""
import re

from . import mirlib as M
from . import symex as S

OPT = "std::option::Option"


def none():
    return ("adt", OPT, "None", ())


def some(v):
    return ("adt", OPT, "Some", (v,))


class BaseModel:
    """Default model: iterator `next` forks into None / Some(fresh item); named callees can be
    given explicit outcome lists."""

    lazy_adaptors = True

    def __init__(self, fork_next=True, overrides=None, item_by_ref=None):
        self.fork_next = fork_next
        self.overrides = overrides or []
        self.n = 0

    def switch(self, ex, path, bb, d, t):
        return None

    def call(self, ex, path, bb, t, args):
        name = M.call_name(t)
        for rx, fnc in self.overrides:
            if re.search(rx, name):
                r = fnc(ex, path, bb, t, args)
                if r is not None:
                    return r
        if re.search(r"box_assume_init_into_vec_unsafe", name):
            # vec![a, b, ..] : recover the elements from the array written into the Box
            for e in reversed(path.events):
                if e[0] == "write" and e[4][0] == "array":
                    return [(("vec", e[4][1]), None)]
        if self.fork_next and re.search(r"iter::Iterator>::next$", name):
            it = ex.deref_val(path, args[0])
            # an iterator of the std collections that answered None stays exhausted (FusedIterator)
            # identity of the iterator object: the location behind all the references (`&mut it`, `it.by_ref()`, `&mut &mut it`)
            a_ = args[0]
            n_ = 0
            while a_[0] == "ref" and n_ < 6:
                inner_ = ex.read_loc(path, a_[1])
                if inner_[0] != "ref":
                    break
                a_ = inner_
                n_ += 1
            itkey = ("sym", "__exhausted__:" + (repr(a_[1]) if a_[0] == "ref" else S.fstr(it)))
            if path.heap.get((itkey, ())) == ("bool", True) and re.search(r"slice::Iter|vec::IntoIter|btree_|hash_map|hash_set|Enumerate<std::slice::Iter|str::CharIndices|str::Chars", t.get("callee_self") or ""):
                return [(none(), None)]
            item = ("sym", "item@bb%d" % bb)
            self_ty = t.get("callee_self") or ""
            # slice iterators yield references
            if self_ty.startswith("std::slice::Iter") or "btree_set::Iter" in self_ty or "hash_map::Iter" in self_ty:
                item = ("ref", ("loc", item, ()), False)
            # a lazily adapted iterator (map / filter / flat_map ... with known closures) driven by a `for` loop: the element is
            # what the adaptor chain makes of one element of the underlying collection
            if self.lazy_adaptors and it[0] == "app" and re.search(r"iter::Iterator>::(map|filter_map|filter|flat_map)(::<.*>)?$", str(it[1])) and hasattr(ex, "iter_elements"):
                base = ("sym", "item@bb%d" % bb)
                if re.search(r"slice::<impl \[|slice::Iter", S.self_ty_of(it)):
                    base = ("ref", ("loc", base, ()), False)
                outs_ = [(none(), None, [(("loc", itkey, ()), ("bool", True))])]
                pf = path.fork()
                els = ex.iter_elements(pf, bb, it, base)
                if els and all(p_ is pf for _, p_ in els) and len(els) == 1 and els[0][0] is not None and els[0][0] != ("dead",):
                    # (only the simple case — one element, no fork inside the adaptors — is taken over here)
                    path.events.extend(pf.events[len(path.events):])
                    for k_, v_ in pf.locals.items():
                        path.locals.setdefault(k_, v_)
                    return [outs_[0], (some(els[0][0]), None)]
            return [(none(), None, [(("loc", itkey, ()), ("bool", True))]), (some(item), None)]
        return None


# std combinators analysed as the control flow they abbreviate (see symex.Engine.combinator); None = keep them opaque
DESUGAR_DEFAULT = r"."

LOG_MACROS = ("trace!", "debug!", "info!", "warn!", "error!")


class LogModel(BaseModel):
    """BaseModel that treats the log macros as disabled (they are effect-free)."""

    def switch(self, ex, path, bb, d, t):
        if t.get("exp_outer") in LOG_MACROS:
            return False
        return None


def init_params(fn, fid, path=None, presets=None):
    """Path whose parameter locals are opaque symbols named after the source parameters (or the given terms)."""
    p = path or S.Path()
    names = fn.names()
    # a method that was turned into a free function (analysed under its known name, see mirlib.ALIASES): the parameter that
    # carries the former receiver is `self`
    recv = None
    if fn.j.get("alias_of") and not fn.name.startswith("<"):
        tn = re.sub(r"::<[^<>]*>", "", fn.name).split("::")
        if len(tn) >= 2 and fn.argc >= 1 and re.search(r"\b%s\b" % re.escape(tn[-2]), fn.locals[1]["ty"]) and "self" not in names.values():
            recv = 1
    for a in range(1, fn.argc + 1):
        ty = fn.locals[a]["ty"]
        nm = "self" if a == recv else names.get(a, "arg%d" % a)
        p.locals[(fid, a)] = (presets or {}).get(a, ("sym", nm))
    return p


def auto_presets(facts, fn):
    """For a function that was moved (method <-> free function, mirlib.ALIASES): parameters that every call site fills with
    the same plain path over the caller's receiver (`&self.terminal_ids`) are named after that path, so that the moved
    function is analysed in the vocabulary it had as a method."""
    out = None
    for g in facts.fns.values():
        if g is fn or g.j.get("exp"):
            continue
        sites = [t for bb, t in g.calls() if call_is(t, fn)]
        for t in sites:
            pv = M.Prov(g)
            cur = {}
            for i, a in enumerate(t["args"]):
                try:
                    v = _conv_path(pv.operand(a))
                except Exception:
                    v = None
                try:
                    txt_ = S.fstr(v) if v is not None else None
                except Exception:
                    txt_ = None
                if isinstance(txt_, str) and txt_.startswith("self."):
                    cur[i + 1] = v
            out = cur if out is None else {k: v for k, v in out.items() if cur.get(k) == v}
    return out or {}


def call_is(t, fn):
    r = t.get("resolved") or t.get("callee")
    return r == fn.key or t.get("callee") == fn.key


def _conv_path(e):
    if e[0] == "arg":
        return ("sym", e[2])
    if e[0] == "phi" and isinstance(e[-1], str) and e[-1] and any(a[0] == "arg" for a in e[1]):
        return ("sym", e[-1])      # a parameter that is mutated through (`&mut self`): still that parameter
    if e[0] == "phi":
        real = [a for a in e[1] if a[0] != "mutated"]
        if len(real) == 1:
            return _conv_path(real[0])      # a `&mut` temporary that is written through: still the place it borrows
    if e[0] in ("ref", "deref"):
        return _conv_path(e[1])
    if e[0] == "call" and len(e[2]) == 1 and re.search(r"Deref>::deref$|DerefMut>::deref_mut$|::as_slice$|::as_str$|AsRef<.*>>::as_ref$|Borrow<.*>>::borrow$|::as_mut_slice$", str(e[1])):
        return _conv_path(e[2][0])
    if e[0] == "field":
        b = _conv_path(e[1])
        return ("field", b, e[2]) if b is not None else None
    return None


def run_fn(fn, facts, model=None, cut_back_edges=True, presets=None, **kw):
    if presets is None and ((fn.j.get("alias_of") and fn.j.get("alias_kind") != "renamed") or (fn.kind != "Closure" and not fn.name.startswith("<") and re.search(r"::[A-Z]\w*(::<[^>]*>)?::\w+$", fn.name)
                                                      and fn.argc >= 1 and "self" not in fn.names().values())):
        # a moved function, or a method-like function without a receiver (an associated fn that takes the field it works on):
        # parameters every call site fills with the same `self.<path>` are analysed under that name
        presets = auto_presets(facts, fn)
    kw.setdefault("desugar", DESUGAR_DEFAULT)
    ex = S.Engine(fn, facts, model or BaseModel(), cut_edges=fn.back_edges() if cut_back_edges else (), **kw)
    paths = ex.run(0, init_params(fn, ex.fid, presets=presets))
    return ex, paths


def caller_view(caller, callee, call_rx, pick=None):
    """{parameter index of callee: term} naming each parameter of a private helper after what one call site of `caller` passes
    for it, when that is a plain path over the caller's own parameters (`x`, `&x.f`, `&*x.f.g`): the helper is then analysed
    in the vocabulary of its caller, whatever its own signature looks like (a `&T` parameter split into two field borrows,
    a renamed parameter).  `pick(call terminator) -> bool` selects the call site."""
    pv = M.Prov(caller)

    def conv(e):
        if e[0] == "arg":
            return ("sym", e[2])
        if e[0] == "phi" and isinstance(e[-1], str) and e[-1] and any(a[0] == "arg" for a in e[1]):
            return ("sym", e[-1])
        if e[0] in ("ref", "deref"):
            return conv(e[1])
        if e[0] == "call" and len(e[2]) == 1 and re.search(r"Deref>::deref$|DerefMut>::deref_mut$|::as_slice$|::as_str$|AsRef<.*>>::as_ref$|Borrow<.*>>::borrow$", str(e[1])):
            return conv(e[2][0])
        if e[0] == "field":
            b = conv(e[1])
            return ("field", b, e[2]) if b is not None else None
        return None
    for bb, t in caller.calls(call_rx):
        if pick is not None and not pick(t):
            continue
        out = {}
        for i, a in enumerate(t["args"]):
            try:
                v = conv(pv.operand(a))
            except Exception:
                v = None
            if v is not None:
                out[i + 1] = v
        return out
    return {}


def ret_paths(paths):
    return [p for p in paths if p.end and p.end[0] == "return"]


def variant_of(ex, path, v):
    if v[0] == "adt":
        return v[2]
    return path.assume.get(("variant", v))


def heap_writes(path, field=None):
    """Writes to non-local objects: list of (root, steps, value)."""
    out = []
    for e in path.events:
        if e[0] == "write" and e[2][0] != "local" and not (e[2][0] == "sym" and str(e[2][1]).startswith("__")):
            if field is None or any(st[0] == "f" and st[1] == field for st in e[3]):
                out.append((e[2], e[3], e[4], e[1]))
    return out


def field_path(steps):
    return ".".join(str(st[1]) if not isinstance(st[1], tuple) else "[i]" for st in steps)


def call_sites_of(facts, fn):
    """[(caller fn, bb, term)] of the direct calls of the function `fn` (by resolved def)."""
    out = []
    for g in facts.fns.values():
        for bb, t in g.calls():
            if t.get("resolved") == fn.key or (t.get("resolved") is None and t.get("callee") == fn.key):
                out.append((g, bb, t))
    return out


def owners(facts, fn, _seen=None):
    """[(known fn, bb of the call that leads to `fn` or None)]: the functions of the rules' vocabulary on whose behalf
    `fn` runs.  A function the rules know (or a closure, which belongs to its parent) is its own owner; a helper that was
    introduced later (symex.is_unknown_helper) runs on behalf of its callers, transitively.  A helper nobody calls has no
    owner: it cannot affect behaviour."""
    if fn.kind == "Closure":
        # a closure runs on behalf of the function it is written in
        base_name = re.sub(r"(::\{closure#\d+\})+$", "", fn.name)
        cand = [f_ for f_ in facts.fns.values() if f_.name == base_name and f_.kind != "Closure"]
        if cand:
            return owners(facts, cand[0], _seen)
        return [(fn, None)]
    if not S.is_unknown_helper(fn):
        return [(fn, None)]
    _seen = _seen or set()
    if fn.key in _seen:
        return []
    _seen.add(fn.key)
    out = []
    for g, bb, t in call_sites_of(facts, fn):
        for o, b2 in owners(facts, g, _seen):
            out.append((o, b2 if b2 is not None else bb))
    return out


def callers_of(facts, pattern, only_user=True, attribute_helpers=True):
    """[(caller fn, bb, term)] of every call whose resolved callee path matches.  A call made inside a helper the rules
    do not know by name is attributed to the known functions that (transitively) call the helper."""
    rx = re.compile(pattern)
    out = []
    for fn in facts.fns.values():
        for bb, t in fn.calls():
            if rx.search(t.get("resolved_path") or "") or rx.search(M.call_name(t)):
                if attribute_helpers and S.is_unknown_helper(fn):
                    for o, b2 in owners(facts, fn):
                        out.append((o, b2, t))
                else:
                    out.append((fn, bb, t))
    return out


def aggregates_of(facts, adt_suffix):
    """[(fn, bb, idx, stmt)] of every aggregate construction of the ADT."""
    out = []
    for fn in facts.fns.values():
        for bb, i, s in fn.assigns():
            rv = s["rv"]
            if rv["k"] == "aggregate" and rv.get("ak") == "adt" and (rv["path"] == adt_suffix or rv["path"].endswith("::" + adt_suffix)):
                out.append((fn, bb, i, s))
    return out


def field_writers(facts, adt_suffix, field):
    """{fn name: [(bb, idx, how)]} of functions that assign or mutably borrow ADT.field."""
    out = {}
    for fn in facts.fns.values():
        dw = facts.direct_writes(fn)
        for (adt, f), sites in dw.items():
            if f == field and (adt == adt_suffix or adt.endswith("::" + adt_suffix)):
                # a closure writes on behalf of the function it is written in
                base_name = re.sub(r"(::\{closure#\d+\})+$", "", fn.name)
                base = fn
                if base_name != fn.name:
                    cand = [f_ for f_ in facts.fns.values() if f_.name == base_name]
                    if cand:
                        base = cand[0]
                if S.is_unknown_helper(base):
                    # a helper the rules do not know by name: the write happens on behalf of its callers — unless a known
                    # function does nothing but hand its argument to the helper (`fn from(nfa) { Self::from_nfa(nfa) }`): then
                    # the helper *is* the body of that function, wherever else it is called from
                    bodies_of = helper_is_body_of(facts, base)
                    if bodies_of:
                        for k_ in bodies_of:
                            out.setdefault(k_.name, []).extend(sites)
                        continue
                    for o, b2 in owners(facts, base):
                        out.setdefault(o.name, []).extend([(b2, 0, "via " + M.short_name(fn.name))])
                else:
                    out.setdefault(base.name, []).extend(sites)
    return out


def is_derived(fn):
    """Compiler-generated body (derive / macro generated impl of a std trait)."""
    return bool(fn.j.get("exp"))


def short(fn):
    return M.short_name(fn.name if hasattr(fn, "name") else fn)


def argval(e, i):
    """Value of the i-th argument of a call event at call time (references to locals resolved)."""
    a = e[7][i] if len(e) > 7 and e[7] is not None and i < len(e[7]) else e[3][i]
    n = 0
    while a[0] == "ref" and len(a) > 3 and n < 6:
        a = a[3]
        n += 1
    return a


def argstr(e, i):
    return S.fstr(argval(e, i))


def cache_foundation(ctx):
    """Every property observed through `ScannerBuilder::build()` silently relies on the cache handing out the
    compilation of exactly the requested configuration (C13.a-d,f): emit those obligations too."""
    from . import sharing
    # (C12.a: ... and every scanner handed out is a *clone* — of the cache entry, of the Scanner for each iterator, of a
    # lookahead for each candidate: the Clone impls of the compiled types are the derived, field-by-field ones)
    sharing.analyze(ctx, {"C13.a", "C13.b", "C13.c", "C13.d", "C13.f", "C12.a"})


COMPILED_WRITERS = {
    # (type, field): functions that may assign / mutably borrow it, with the reason.  Everything else only reads the compiled
    # scanner: "tidying", "pruning" or patching a compiled automaton after the pipeline produced it is a change of the language.
    ("CompiledDfa", "states"): (r"internal::minimizer::Minimizer::\w+$|CompiledDfa as std::convert::From<", "filled by the conversions and the minimizer's reconstruction (C03.f/g decide what the minimizer writes)"),
    ("CompiledDfa", "end_states"): (r"internal::minimizer::Minimizer::\w+$|CompiledDfa as std::convert::From<", "as above"),
    ("CompiledDfa", "lookaheads"): (r"CompiledDfa::(add_lookahead|try_from_pattern|try_from_patterns|find_from)$|CompiledDfa as std::convert::From<", "attached by add_lookahead or directly in try_from_patterns (kernel.lookahead_wiring decides key and value); find_from borrows the entry of the candidate to run its automaton; try_from_pattern is the debugging constructor"),
    ("CompiledDfa", "patterns"): (r"CompiledDfa as std::convert::From<", "set at construction"),
    ("CompiledDfa", "terminal_ids"): (r"CompiledDfa as std::convert::From<", "set at construction"),
    ("CompiledDfa", "current_states"): (r"CompiledDfa::find_from$", "simulation scratch (C12.d)"),
    ("CompiledDfa", "next_states"): (r"CompiledDfa::find_from$", "simulation scratch (C12.d)"),
    ("StateData", "transitions"): (r"internal::minimizer::Minimizer::\w+$|CompiledDfa as std::convert::From<", "filled by the conversions, renumbered by the minimizer"),
    ("CompiledScannerMode", "name"): (r"^$", "never written after construction"),
    ("CompiledScannerMode", "transitions"): (r"^$", "never written after construction"),
    ("CompiledScannerMode", "dfa"): (r"ScannerImpl::peek_from$", "borrow path to the scratch buffers of the attempt"),
    ("ScannerImpl", "scanner_modes"): (r"ScannerImpl::peek_from$", "borrow path to the scratch buffers of the attempt"),
    ("ScannerImpl", "match_char_class"): (r"^$", "never written after construction"),
    ("CompiledLookahead", "nfa"): (r"CompiledLookahead::satisfies_lookahead$", "borrow path to the lookahead automaton's scratch buffers"),
    ("CompiledLookahead", "is_positive"): (r"^$", "never written after construction"),
}


def compiled_scanner_is_frozen(ctx, rule):
    """Closed writer set of every field of the compiled scanner (type-qualified field writes and mutable borrows over all
    functions of the crate; a helper the rules do not know writes on behalf of its callers)."""
    F = ctx.facts
    n = 0
    for (adt, fld), (rx, why) in sorted(COMPILED_WRITERS.items()):
        try:
            ws = field_writers(F, adt, fld)
        except Exception:
            ws = {}
        for w in sorted(ws):
            n += 1
            ctx.ob(rule, "compiled-scanner-writer:%s.%s<-%s" % (adt, fld, M.short_name(w)), re.search(rx, w) is not None,
                   "%s writes or mutably borrows %s.%s (allowed: %s)" % (w, adt, fld, why), "")
    ctx.floor(rule, "writers of compiled-scanner fields", n, 8)
    # the lookahead table keeps its entries after the build: find_from may borrow an entry mutably (the lookahead automaton has
    # scratch buffers of its own), but nothing on the scan path inserts, removes or clears entries — "take it out, run it, put it
    # back" loses the entry on every path that forgets the last step, for the rest of the iterator's life
    mut_rx = r"HashMap::<.*CompiledLookahead.*>::(insert|remove|remove_entry|clear|retain|drain|extend|entry|extract_if|try_insert)$|hash_map::(Occupied|Vacant)?Entry::<.*CompiledLookahead.*>::\w+$|mem::(take|replace|swap)::<.*HashMap<.*CompiledLookahead"
    allowed_tbl = r"CompiledDfa::(add_lookahead|try_from_pattern|try_from_patterns)$|CompiledDfa as std::convert::From<|internal::minimizer::Minimizer::\w+$"
    m = 0
    for fn in sorted(F.fns.values(), key=lambda f: f.name):
        if fn.j.get("exp"):
            continue
        cs = [M.short_name(M.call_name(t)) for bb, t in fn.calls(mut_rx)]
        if not cs:
            continue
        base = fn
        nm = re.sub(r"(::\{closure#\d+\})+$", "", fn.name)
        if nm != fn.name:
            cand = [f_ for f_ in F.fns.values() if f_.name == nm]
            base = cand[0] if cand else fn
        names = [base.name]
        if S.is_unknown_helper(base):
            bo = helper_is_body_of(F, base)
            names = sorted({k_.name for k_ in bo}) if bo else sorted({o.name for o, _ in owners(F, base)}) or [base.name]
        for on in names:
            m += 1
            ctx.ob(rule, "lookahead-table-entries-fixed-after-build:%s" % M.short_name(on), re.search(allowed_tbl, on) is not None,
                   "%s%s changes the set of entries of a lookahead table (%s)" % (M.short_name(fn.name), "" if on == fn.name else " (on behalf of %s)" % M.short_name(on), ", ".join(sorted(set(cs)))), fn.loc())
    ctx.floor(rule, "functions that fill a lookahead table", m, 1)


# ---- field-wise equality / hashing of a hand-written impl (used by C13.a and by the key-type rule C02.n)
def strip_ref(t):
    while t[0] in ("ref", "deref") or (t[0] == "app" and re.search(r"Deref>::deref$|Borrow<.*>>::borrow$|AsRef<.*>>::as_ref$", str(t[1])) and len(t[2]) == 1):
        if t[0] == "ref":
            loc = t[1]
            if loc[0] == "loc" and loc[1][0] == "sym":
                return ("loc", loc[1], tuple(st[1] for st in loc[2]))
            return t
        t = t[1] if t[0] == "deref" else t[2][0]
    return t

def side(t):
    """('self'|'other', field) if t denotes <self|other>.<field> (through any number of references), else None"""
    s_ = S.fstr(t).lstrip("&*")
    m = re.match(r"^\(?\*?(self|other|arg1|arg2)\)?\.(\w+)$", s_)
    if m:
        return ({"arg1": "self", "arg2": "other"}.get(m.group(1), m.group(1)), m.group(2))
    return None

def eq_fields(t, outcome=True):
    l = r = None
    neg = False
    if t[0] == "binop" and t[1] in ("Eq", "Ne"):
        l, r, neg = t[2], t[3], t[1] == "Ne"
    elif t[0] == "app" and re.search(r"PartialEq(<[^>]*>)?>::(eq|ne)$", str(t[1])) and len(t[2]) == 2:
        l, r, neg = t[2][0], t[2][1], str(t[1]).endswith("::ne")
    elif t[0] == "not":
        return eq_fields(t[1], not outcome)
    if l is None:
        return None
    if (outcome is True) == neg:
        return None          # this atom being (un)true says the fields differ
    a_, b_ = side(l), side(r)
    if a_ and b_ and a_[1] == b_[1] and {a_[0], b_[0]} == {"self", "other"}:
        return a_[1]
    return None

def fieldwise_eq(F, fn, fields):
    ex_, ps_ = run_fn(fn, F, BaseModel(), max_paths=4000)
    bad = []
    n_true = 0
    for p_ in ret_paths(ps_):
        r_ = p_.end[1]
        if r_ == ("bool", False):
            continue
        got = set()
        for c_, o_ in p_.conds:
            if isinstance(o_, bool):
                f_ = eq_fields(c_, o_)
                if f_:
                    got.add(f_)
        if r_ != ("bool", True):
            f_ = eq_fields(r_, True)
            if f_:
                got.add(f_)
            else:
                bad.append("result %s is not a comparison of one field of self with the same field of other" % S.fstr(r_)[:70])
                continue
        n_true += 1
        if not set(fields) <= got:
            bad.append("can answer 'equal' after comparing only %s of %s" % (sorted(got), fields))
    return (n_true >= 1 and not bad), "; ".join(bad[:2]) or "every accepting path compares %s" % fields

def fieldwise_hash(F, fn, fields):
    ex_, ps_ = run_fn(fn, F, BaseModel(), max_paths=4000)
    bad = []
    n_ = 0
    for p_ in ret_paths(ps_):
        n_ += 1
        got = set()
        for c_ in p_.calls(r"Hash>::hash(::<.*>)?$|Hasher>::write\w*$"):
            a0 = c_[3][0]
            v_ = ex_.deref_val(p_, a0) if a0[0] == "ref" else a0
            for cand in (a0, v_):
                sd = side(cand)
                if sd and sd[0] == "self":
                    got.add(sd[1])
        if not set(fields) <= got:
            bad.append("hashes only %s of %s" % (sorted(got), fields))
    return (n_ >= 1 and not bad), "; ".join(bad[:2]) or "every path hashes %s" % fields



KEY_TRAITS = ("std::cmp::PartialEq", "std::cmp::Eq", "std::cmp::PartialOrd", "std::cmp::Ord", "std::hash::Hash",
              # ... and they are copied and default-initialised field by field (`StateID::default()` is state 0 everywhere)
              "std::clone::Clone", "std::default::Default")
# key types whose comparison is written by hand, with the rule that decides what it compares
KEY_IMPLS_BY_HAND = {
    "internal::comparable_ast::ComparableAst": "C02.f decides which classes it may call equal",
    # the cache key types: C13.a (part of the cache foundation of every property) checks hand-written impls field by field
    "scanner_mode::ScannerMode": "C13.a decides that PartialEq / Hash read every field",
    "pattern::Pattern": "C13.a decides that PartialEq / Hash read every field",
    "pattern::Lookahead": "C13.a decides that PartialEq / Hash read every field",
}


def faithful_impl(F, tname, trait):
    """(ok, description): a hand-written PartialEq / Eq / PartialOrd / Ord / Hash / Clone / Default of a struct is the derive
    written out — it compares / orders / hashes / copies exactly the fields, in declaration order.  Decided for structs with
    ONE field completely (eq = the field's ==, cmp = the field's cmp, partial_cmp = the field's partial_cmp or Some(cmp), hash
    feeds the field, clone rebuilds it, default is the field's default); for structs with several fields equality and hashing
    are decided (every field, fieldwise), ordering is not (reported)."""
    a = F.adts.get(tname)
    if not a or len(a.get("variants", [])) != 1:
        return False, "not a struct"
    fields = [f["name"] for f in a["variants"][0]["fields"]]
    short = trait.split("::")[-1]
    if short == "Eq":
        return True, "marker impl"
    method = {"PartialEq": "eq", "PartialOrd": "partial_cmp", "Ord": "cmp", "Hash": "hash", "Clone": "clone", "Default": "default"}[short]
    body = [f_ for f_ in F.fns.values() if re.match(r"^<%s as %s(<.*>)?>::%s$" % (re.escape(tname), re.escape(trait), method), f_.name)]
    if len(body) != 1:
        return False, "no unique body"
    fn = body[0]
    try:
        if short == "PartialEq":
            return fieldwise_eq(F, fn, fields)
        if short == "Hash":
            return fieldwise_hash(F, fn, fields)
        ex, ps = run_fn(fn, F, BaseModel(), max_paths=400, inline=r"^<%s as std::cmp::Ord>::cmp$|%s::new$" % (re.escape(tname), re.escape(tname)))
        rp = ret_paths(ps)
        if not rp or len(rp) != len(ps):
            return False, "not every path returns"
        strip = lambda t_: re.sub(r"[&*()]", "", S.fstr(t_))
        rets = sorted({strip(p_.end[1]) for p_ in rp})
        if short == "Clone":
            want = {"self", short_adt(tname) + ", ".join("self." + f_ for f_ in fields)}
            return (len(rets) == 1 and rets[0] in want), "returns %s" % rets
        if short == "Default":
            dflt = r"^(\w+::)*(default|new)$|^vec!\[\]$|^0$|^false$|^None$|^\"\"$"
            okd = all(p_.end[1][0] == "adt" and len(p_.end[1][3]) == len(fields) and all(re.match(dflt, strip(v_)) for v_ in p_.end[1][3]) for p_ in rp)
            if not okd and len(fields) == 1:
                okd = all(re.match(dflt, r_) for r_ in rets)      # (the engine prints an id newtype as the number it wraps)
            return okd, "returns %s" % rets
        if len(fields) != 1:
            return False, "ordering of a struct with %d fields is not decided" % len(fields)
        f0 = fields[0]
        if short == "Ord":
            want = {"cmpself.%s, other.%s" % (f0, f0), "Ord::cmpself.%s, other.%s" % (f0, f0)}
        else:
            # (`Some(x)` prints as x where the engine knows the variant: `Some(self.cmp(other))` with cmp inlined)
            want = {"partial_cmpself.%s, other.%s" % (f0, f0), "Somecmpself.%s, other.%s" % (f0, f0), "PartialOrd::partial_cmpself.%s, other.%s" % (f0, f0),
                    "cmpself.%s, other.%s" % (f0, f0), "SomeOrd::cmpself.%s, other.%s" % (f0, f0), "Ord::cmpself.%s, other.%s" % (f0, f0)}
            # delegation to the type's own Ord (decided separately: derived or faithful)
            own_ord = [i_ for i_ in F.impls if i_.get("of_trait") and i_["self"]["s"].split("<")[0] == tname and i_.get("trait") == "std::cmp::Ord"]
            if len(own_ord) == 1 and (own_ord[0]["derived"] or faithful_impl(F, tname, "std::cmp::Ord")[0]):
                want |= {"Somecmpself, other", "cmpself, other", "SomeOrd::cmpself, other"}
        return (len(rets) == 1 and rets[0] in want), "returns %s" % rets
    except Exception as e:
        return False, "not understood (%s)" % type(e).__name__


def short_adt(tname):
    return tname.split("::")[-1]


def key_types_compare_structurally(ctx, rule):
    """Every type of the crate that is used as a key of a BTreeMap/BTreeSet/HashMap/HashSet (found in the types of all locals
    and fields, generic arguments included) compares, orders and hashes structurally: its PartialEq/Eq/PartialOrd/Ord/Hash
    impls are the derived ones (or the ones the id macro derives).  A hand-written `Ord` that calls two different signatures
    "equal" files a state under another state's entry: the two states are merged."""
    F = ctx.facts
    tys = set()
    for fn in F.fns.values():
        for l in fn.locals:
            tys.add(l["ty"])
    for a in F.adts.values():
        for v in a.get("variants", []):
            for f in v.get("fields", []):
                tys.add(str(f.get("ty", {}).get("s", "") if isinstance(f.get("ty"), dict) else f.get("ty", "")))
    keys = set()
    for t in tys:
        for m in re.finditer(r"(?:BTreeMap|BTreeSet|HashMap|HashSet|hash_map::Entry|btree_map::Entry)<", t):
            # first generic argument, bracket-balanced
            i, depth, j = m.end(), 0, m.end()
            while j < len(t):
                c = t[j]
                if c in "<([":
                    depth += 1
                elif c in ">)]":
                    if depth == 0:
                        break
                    depth -= 1
                elif c == "," and depth == 0:
                    break
                j += 1
            k = t[i:j]
            for name in re.findall(r"\b((?:internal|scanner|pattern|scanner_mode|match_type|span|position)(?:::\w+)+)", k):
                keys.add(name)
    n = 0
    for k in sorted(keys):
        impls = [i for i in F.impls if i.get("of_trait") and i["self"]["s"].split("<")[0] == k and i.get("trait") in KEY_TRAITS]
        for i in impls:
            n += 1
            by_hand = KEY_IMPLS_BY_HAND.get(k)
            ok = bool(i["derived"])
            how = "derived"
            if not ok and by_hand is None:
                ok, how = faithful_impl(F, k, i["trait"])
            ctx.ob(rule, "key-type-compares-structurally:%s:%s" % (M.short_name(k), i["trait"].split("::")[-1]), ok or by_hand is not None,
                   "%s for %s (a map/set key) is %s%s" % (i["trait"].split("::")[-1], k, how if ok else "written by hand: " + how, (" — " + by_hand) if (by_hand and not ok) else ""), i.get("file", ""))
    ctx.floor(rule, "comparison impls of key types", n, 10)


def language_foundation(ctx):
    """Side conditions of the regex->automaton pipeline (C02.a-g, C03.a-h) for properties whose statement
    presupposes that the automaton recognises the pattern languages."""
    from . import nfa_rules, dispatch, closure_rules, minimizer_rules, sharing
    nfa_rules.analyze(ctx, {"C02.a", "C02.b", "C02.g"})
    dispatch.analyze(ctx, {"C02.c"})
    closure_rules.analyze(ctx, {"C02.d", "C02.e"})
    sharing.analyze(ctx, {"C02.f"})
    from . import classes, casts
    classes.analyze(ctx, {"C08.a", "C08.b", "C08.c", "C08.d", "C08.e"})   # a class transition is taken exactly by the class's characters
    from . import pC06
    pC06.compiled_mode_rules(ctx, "C02.h")   # every configured pattern reaches the compiler, unmodified
    casts.analyze(ctx, {"C17.a"})   # ids of states, groups and classes are injective (no narrowing cast on a count or index)
    minimizer_rules.analyze(ctx, {"C03.a", "C03.b", "C03.c", "C03.d", "C03.e", "C03.f", "C03.g", "C03.h"})
    from . import pC15
    pC15.parse_pipeline(ctx, "C02.k")   # the text parsed is the configured text, default parser configuration, every error returned
    compiled_scanner_is_frozen(ctx, "C02.m")
    key_types_compare_structurally(ctx, "C02.n")
    from . import adaptors
    adaptors.analyze(ctx, ("C02.j", "C03.i", "C08.f"))     # no loop of the pipeline drops, truncates or reorders elements
    from . import error_rules
    error_rules.analyze(ctx, "C15.i")     # no error of the pipeline is discarded: what must be rejected is rejected



def search_table(ex, paths):
    """Classifies the paths of a function that walks over a collection looking for an element (a `for` loop with an early
    exit, or find / position / any / all / find_map, which the engine analyses as that loop):
      {"exhausted": [(return value, path)], "hit": [(return value, item conds, path)], "miss": [(item conds, path)], "source": [str]}
    'item conds' are the branch conditions that mention the current element, as (term, outcome)."""
    out = {"exhausted": [], "hit": [], "miss": [], "source": []}
    for p in paths:
        items = [e for e in p.events if e[0] == "iter-item"]
        nexts = [e for e in p.events if e[0] == "call" and re.search(r"iter::Iterator>::next$", e[2])]
        src = None
        item_terms = []
        for e in items:
            src = S.fstr(e[3])
            item_terms.append(e[4])
        for e in p.events:
            if e[0] == "iter-exhausted":
                src = src or S.fstr(e[3])
        for e in nexts:
            src = src or S.fstr(ex.deref_val(p, e[3][0]) if e[3][0][0] == "ref" else e[3][0])
        if src:
            out["source"].append(src)
        has_item = bool(items) or any("item@" in S.fstr(c) for c, o in p.conds)
        ic = [(c, o) for c, o in p.conds if "item@" in S.fstr(c) and not (c[0] == "isvar" and "Iterator>::next" in S.fstr(c))]
        # `a != b` is false  ==  `a == b` is true
        ic = [((("binop", "Eq", c[2], c[3]), (not o)) if c[0] == "binop" and c[1] == "Ne" and isinstance(o, bool) else (c, o)) for c, o in ic]
        if p.end is None:
            continue
        if p.end[0] == "cut":
            out["miss"].append((ic, p))
        elif p.end[0] == "return":
            if has_item:
                out["hit"].append((p.end[1], ic, p))
            else:
                out["exhausted"].append((p.end[1], p))
    return out


def is_eq_of(c, a_rx, b_rx):
    """c is `a == b` (either operand order, binop or PartialEq::eq) with the printed operands matching the two patterns"""
    l = r = None
    if c[0] == "binop" and c[1] == "Eq":
        l, r = c[2], c[3]
    elif c[0] == "app" and re.search(r"PartialEq(<[^>]*>)?>::eq$", str(c[1])) and len(c[2]) == 2:
        l, r = c[2]
    if l is None:
        return False
    ls, rs = S.fstr(l), S.fstr(r)
    return bool((re.search(a_rx, ls) and re.search(b_rx, rs)) or (re.search(a_rx, rs) and re.search(b_rx, ls)))



def uncast(t):
    while t[0] == "cast":
        t = t[2]
    return t


def hit_is_index_of(r, cond):
    """The value r (casts ignored) is the position of the element the condition `cond` speaks about: index@bbN for
    item@bbN (position / a search analysed as a loop), or item@bbN.0 when the loop runs over enumerate() and the condition
    looks at item@bbN.1."""
    cs = S.fstr(cond)
    m = re.search(r"item@bb(\d+)(\.1)?", cs)
    if not m:
        return False
    r0 = uncast(r)
    if m.group(2):
        return S.fstr(r0).replace("(", "").replace(")", "") in ("item@bb%s.0" % m.group(1),)
    return r0 == ("sym", "index@bb" + m.group(1))



def ordering_of(conds, is_a, is_b):
    """Set of orderings {L,E,G} of (a ? b) consistent with the comparisons a path assumed, where a / b are the operands
    accepted by the predicates is_a / is_b (any of <, <=, >, >=, ==, !=, cmp + match, in either operand order)."""
    from .kernel import OUT2SET, FLIP, binop_set
    oset = {"L", "E", "G"}
    for c, o in conds:
        a_ = b_ = None
        cs = None
        if c[0] == "discr" and c[1][0] == "cmp" and not isinstance(o, tuple):
            a_, b_ = c[1][1], c[1][2]
            cs = OUT2SET.get(dict((dv, n) for n, dv in c[2]).get(o))
        elif c[0] == "binop" and c[1] in ("Lt", "Le", "Gt", "Ge", "Eq", "Ne") and isinstance(o, bool):
            a_, b_ = c[2], c[3]
            cs = binop_set(c[1], o)
        if a_ is None or cs is None:
            continue
        if is_a(a_) and is_b(b_):
            oset &= cs
        elif is_a(b_) and is_b(a_):
            oset &= {FLIP[x] for x in cs}
    return oset



def cond_variant(c, o):
    """(term, variant name) a branch condition establishes — `if let` / `match` (discriminant switch), is_some()/is_none(),
    or an assumption made by the engine when it analyses Option/Result methods — else None."""
    if c[0] == "isvar":
        if o is True:
            return (c[1], c[2])
        other = {"None": "Some", "Some": "None", "Ok": "Err", "Err": "Ok"}.get(c[2])
        return (c[1], other) if other else None
    if c[0] == "discr" and not isinstance(o, tuple):
        nm = dict((dv, n) for n, dv in c[2]).get(o)
        return (c[1], nm) if nm else None
    if c[0] == "discr" and isinstance(o, tuple) and o[0] == "otherwise":
        rest = [n for n, dv in c[2] if dv not in o[1]]
        return (c[1], rest[0]) if len(rest) == 1 else None
    return None



def loop_sources(ex, paths):
    """{(loop site, printed collection)} a function iterates over: `for`/`while let` loops (next calls) and the iterator methods
    the engine analyses as loops (for_each, try_for_each, find, ...)."""
    out = set()
    for p in paths:
        for e in p.events:
            if e[0] == "call" and re.search(r"iter::Iterator>::next$", e[2]):
                out.add((e[1], S.fstr(argval(e, 0))[:140]))
            elif e[0] in ("iter-item", "iter-exhausted"):
                out.add((e[1], S.fstr(e[3])[:140]))
    return out



def list_fill(ex, paths, fn, value, elem_ty_rx=None):
    """How the list a function returns / stores as `value` is filled — independent of the spelling: collected from an iterator
    (`collect`, `from_iter`; run the engine with the collect desugaring) or pushed element by element in a loop.
    Returns dict(form, base=[printed source collections], elements=[(item symbol, element term, path)], skipped=<number of
    iterations that add nothing>, other=[mutating calls on the list besides push]) or None if the value is not understood."""
    # form A: the finished collection of an iterator
    for p in paths:
        for e in p.events:
            if e[0] == "iter-exhausted" and ("app", e[2], (e[3],)) == value:
                bbc = e[1]
                src = e[3]
                base = src
                n_ = 0
                while base[0] == "app" and base[2] and n_ < 8:
                    base = base[2][0]
                    base = ex.deref_val(p, base) if base[0] == "ref" else base
                    n_ += 1
                els, skipped = [], 0
                for q in paths:
                    its = [x for x in q.events if x[0] == "iter-item" and x[1] == bbc]
                    if not its:
                        continue
                    cs = [x for x in q.events if x[0] == "collect-item" and x[1] == bbc]
                    if cs:
                        els.append((its[-1][4], cs[-1][2], q))
                    elif q.end and q.end[0] == "cut":
                        skipped += 1
                ads = [x[1] for x in S.subterms(src) if x[0] == "app" and re.search(r"Iterator>::(rev|skip|take|filter|filter_map|flat_map|step_by|skip_while|take_while|chain|zip|cycle|peekable|scan)\b", str(x[1]))]
                return {"form": "collect", "base": [S.fstr(base)], "elements": els, "skipped": skipped, "other": [M.short_name(a) for a in ads]}
    # form B: a vector created empty and pushed to in a loop
    if value[0] == "app" and re.search(r"Vec::<.*>::(new|with_capacity)$", str(value[1])):
        els, skipped, other, bases = [], 0, [], set()
        recv_locals = set()
        for q in paths:
            for e in q.events:
                if e[0] == "call" and re.search(r"Vec::<.*>::push$", e[2]) and e[3] and e[3][0][0] == "ref" and e[3][0][1][1][0] == "local":
                    l = e[3][0][1][1]
                    ty = fn.locals[l[2]]["ty"] if l[1] == ex.fid and l[2] < len(fn.locals) else ""
                    if elem_ty_rx is None or re.search(elem_ty_rx, ty):
                        recv_locals.add(l)
        if len(recv_locals) != 1:
            return None
        recv = list(recv_locals)[0]
        for q in paths:
            nx = [e for e in q.events if e[0] == "call" and re.search(r"iter::Iterator>::next$", e[2])]
            pushes = [e for e in q.events if e[0] == "call" and re.search(r"Vec::<.*>::push$", e[2]) and e[3][0][0] == "ref" and e[3][0][1][1] == recv]
            for e in q.events:
                if e[0] == "call" and e[3] and e[3][0][0] == "ref" and e[3][0][1][1] == recv and e[3][0][2] is True and not re.search(r"Vec::<.*>::push$|Deref|IntoIterator|::iter$|::len$|::windows$|::is_empty$", e[2]):
                    other.append(M.short_name(e[2]))
            if not nx:
                continue
            # the element this iteration got: the Some(..) the `next` call stored
            got = []
            for e in nx:
                ws = [w for w in q.events if w[0] == "write" and w[1] == e[1] and w[4][0] == "adt" and w[4][2] == "Some" and w[4][3]]
                if ws:
                    got.append((e, ws[-1][4][3][0]))
            if not got:
                continue
            for e, _ in got:
                b_ = ex.deref_val(q, e[3][0]) if e[3][0][0] == "ref" else e[3][0]
                n_ = 0
                while b_[0] == "app" and re.search(r"iter::IntoIterator>::into_iter$", str(b_[1])) and n_ < 3:
                    b_ = b_[2][0]
                    n_ += 1
                bases.add(S.fstr(b_).lstrip("&*"))
            if q.end and q.end[0] == "cut":
                if pushes:
                    item = got[-1][1]
                    for pu in pushes:
                        els.append((item, pu[3][1], q))
                else:
                    skipped += 1
        return {"form": "push", "base": sorted(bases), "elements": els, "skipped": skipped, "other": other}
    # form C: a vector created empty and extended once by a whole collection (`v.extend(src)`, `v.extend_from_slice(&src)`): every
    # element of the source, unchanged, in order
    if value[0] == "app" and re.search(r"^mut:.*(Extend>::extend|::extend_from_slice|^mut:extend|extend)$", str(value[1])) and len(value[2]) == 2:
        old, src = value[2]
        if old[0] == "app" and re.search(r"Vec::<.*>::(new|with_capacity)$", str(old[1])):
            n_ = 0
            p0 = paths[0] if paths else None
            while n_ < 6:
                n_ += 1
                if src[0] == "ref" and p0 is not None:
                    src = ex.deref_val(p0, src)
                elif src[0] == "app" and len(src[2]) == 1 and re.search(r"iter::IntoIterator>::into_iter$|<impl \[.*\]>::iter$|Iterator>::(cloned|copied)(::<.*>)?$|Vec::<.*>::as_slice$|Deref>::deref$", str(src[1])):
                    src = src[2][0]
                else:
                    break
            if src[0] == "sym":
                it = ("sym", "item@extend")
                return {"form": "extend", "base": [S.fstr(src)], "elements": [(it, it, p0)], "skipped": 0, "other": []}
    return None


COPY_RX = r"<impl \[.*\]>::(to_vec|to_owned|into_vec)$|borrow::ToOwned>::to_owned$|clone::Clone>::clone$|convert::(Into|From)<.*>>::(into|from)$|Vec::<.*>::as_slice$|Deref>::deref$|AsRef<.*>>::as_ref$|Borrow<.*>>::borrow$|FromIterator<.*>>::from_iter(::<.*>)?$|Iterator>::(cloned|copied|collect)(::<.*>)?$|<impl \[.*\]>::iter$|IntoIterator>::into_iter$"


def helper_is_body_of(facts, base):
    """Known functions that do nothing but hand their parameters to the unknown helper `base` and return its result: the helper
    is then the body of those functions moved out (`fn from(nfa) -> Self { Self::from_nfa(nfa) }`), whoever else calls it."""
    memo = facts.__dict__.setdefault("_body_of", {})
    if base.key not in memo:
        out = []
        for k_ in facts.fns.values():
            if k_ is base or k_.kind == "Closure" or S.is_unknown_helper(k_) or k_.j.get("exp"):
                continue
            if any(call_is(t_, base) for b_, t_ in k_.calls()) and delegates_mir(k_, base):
                out.append(k_)
        memo[base.key] = out
    return memo[base.key]


_GLUE_RX = r"(ops::Deref(Mut)?>::deref(_mut)?|ops::Try>::branch|ops::FromResidual<.*>>::from_residual)$"


def _summary(F, fn):
    """What a function computes, independent of how its parameters are passed: per path the conditions, how it ends, the value
    returned, the calls of other functions and the writes — references, dereferences and copies (`clone`, `to_vec`, ..) removed,
    parameters named by position."""
    try:
        ex, paths = run_fn(fn, F, BaseModel(), max_paths=300)
    except Exception:
        return None
    if ex.truncated or not paths:
        return None
    names = [fn.names().get(i) for i in range(1, fn.argc + 1)]

    def nz(t):
        s_ = re.sub(r"&|\*|mut:", "", t)
        for i, n in enumerate(names):
            if n:
                s_ = re.sub(r"(?<![\w.])%s\b" % re.escape(n), "P%d" % i, s_)
        return s_
    rows = set()
    for p in paths:
        conds = tuple(sorted("%s=%s" % (nz(S.fstr(c)), o) for c, o in p.conds))
        endv = nz(S.fstr(p.end[1])) if p.end and p.end[0] == "return" else ""
        calls = tuple(nz(S.fstr(e[4]) if (e[4] is not None and e[4][0] == "app") else "%s(%s)" % (M.short_name(e[2]), ",".join(S.fstr(a) for a in (e[7] if len(e) > 7 and e[7] else e[3])))) for e in p.events
                      if e[0] == "call" and not re.search(_GLUE_RX, e[2]) and not re.search(COPY_RX, e[2]) and not S.IDENTITY_CALLS.search(e[2]))
        writes = tuple(sorted(nz("%s.%s:=%s" % (S.fstr(w[0]), field_path(w[1]), S.fstr(w[2]))) for w in heap_writes(p)))
        rows.add((conds, p.end[0] if p.end else None, endv, calls, writes))
    return rows


def find_twins(F):
    """{name of a later-added function: name of the known function it is a twin of}.  A twin sits in the same impl / module, takes
    as many parameters and has the same summary (`_summary`): `try_from_scanner_mode_ref(&mode, ..)` written next to
    `try_from_scanner_mode(mode, ..)` so that a caller need not clone.  Calls of a twin are read as calls of the known function
    (whose body the rules check); a helper that differs in any path, value, call or write is not a twin and is analysed in place
    like every other unknown helper."""
    voc = S.vocabulary()
    out = {}
    known = {}
    for k in F.fns.values():
        if k.kind != "Closure" and k.name in voc and not k.j.get("exp"):
            known.setdefault((k.name.rsplit("::", 1)[0], k.argc), []).append(k)
    memo = {}
    for h in sorted(F.fns.values(), key=lambda f: f.name):
        if h.kind == "Closure" or h.name in voc or h.j.get("exp") or is_derived(h) or h.name in M.ALIASES.values():
            continue
        bo = helper_is_body_of(F, h)
        if len(bo) == 1 and bo[0].argc == h.argc:
            # a known function does nothing but hand its parameters to h: h is that function's body under another name, and a
            # call of h from anywhere else is a call of the known function
            out[h.name] = bo[0].name
            for b_, t_ in bo[0].calls():
                if call_is(t_, h):
                    t_["no_twin"] = True
            continue
        cands = known.get((h.name.rsplit("::", 1)[0], h.argc), [])
        if not cands:
            continue
        sh = _summary(F, h)
        if not sh:
            continue
        hit = []
        for k in cands:
            if k.key not in memo:
                memo[k.key] = _summary(F, k)
            if memo[k.key] and memo[k.key] == sh:
                hit.append(k)
        if len(hit) == 1:
            out[h.name] = hit[0].name
    return out


def fn_items_of(F, fn):
    """Functions of the crate the rules do not know that `fn` hands around as *values* (`.map(indexed_pattern)`): a captureless
    closure written as a private fn.  They are analysed wherever the closures of `fn` are."""
    out = []
    def visit(o):
        if isinstance(o, dict) and o.get("k") == "const" and o.get("fn") in F.fns:
            g = F.fns[o["fn"]]
            if S.is_unknown_helper(g) and g not in out:
                out.append(g)
    for bb in fn.reachable():
        for st in fn.blocks[bb]["stmts"]:
            if st["k"] == "assign":
                for o in M.rvalue_operands(st["rv"]):
                    visit(o)
        t = fn.term(bb)
        if t["k"] == "call":
            for a in t["args"]:
                visit(a)
    return out


def delegates_mir(fn, other):
    """`fn` consists of one call of `other` with its own parameters (possibly copied) as arguments, whose result is returned."""
    cs = list(fn.calls())
    oc = [(bb, t) for bb, t in cs if call_is(t, other)]
    rest = [t for bb, t in cs if not call_is(t, other) and not re.search(COPY_RX, M.call_name(t))]
    if len(oc) != 1 or rest:
        return False
    bb, t = oc[0]
    if t["dest"]["pj"]:
        return False
    l = t["dest"]["l"]
    if l != 0:
        moved = [s_ for b_, i_, s_ in fn.assigns() if s_["p"]["l"] == 0 and not s_["p"]["pj"] and s_["rv"]["k"] == "use" and s_["rv"]["op"].get("p", {}).get("l") == l]
        if not moved:
            return False
    pv = M.Prov(fn)
    for a in t["args"]:
        e = pv.operand(a)
        n_ = 0
        while e[0] in ("ref", "deref") or (e[0] == "call" and len(e[2]) == 1 and re.search(COPY_RX, str(e[1]))) or (e[0] == "field" and str(e[2]) == "0" and _is_newtype_param(fn, e[1])):
            # (`&self.0`: the one field of a newtype parameter is the parameter without its wrapper)
            e = e[1] if e[0] in ("ref", "deref", "field") else e[2][0]
            n_ += 1
            if n_ > 8:
                return False
        if e[0] not in ("arg", "const"):
            return False
    return True


def _is_newtype_param(fn, e):
    """e (a Prov term) is a parameter — behind references — whose type is a tuple struct with exactly one field"""
    n_ = 0
    while e[0] in ("ref", "deref") and n_ < 6:
        e = e[1]
        n_ += 1
    if e[0] != "arg":
        return False
    ty = re.sub(r"^(&\s*('\w+\s+)?(mut\s+)?)+", "", fn.locals[e[1]]["ty"] if isinstance(e[1], int) and e[1] < len(fn.locals) else "")
    F = getattr(fn, "facts", None)
    adts = getattr(F, "adts", None) if F is not None else None
    if not adts:
        return False
    a = adts.get(ty.split("<")[0])
    try:
        fs = a["variants"][0]["fields"]
        return str(a.get("kind")).lower() == "struct" and len(fs) == 1 and str(fs[0].get("name")) == "0"
    except Exception:
        return False


def delegates_to(F, fn, other):
    """Does `fn` do nothing but hand an (owned or borrowed) copy of its single data parameter to `other` and return what
    `other` returns (`Self::try_from(modes.to_vec())`)?  Then everything the rules establish about `other` holds for `fn`.
    Returns the printed argument or None."""
    ex, paths = run_fn(fn, F, LogModel(), desugar=None, inline=lambda n: False, max_paths=200)
    rets = ret_paths(paths)
    if ex.truncated or not rets or any(p.end[0] not in ("return", "dead") for p in paths):
        return None
    det = None
    for p in rets:
        cs = [e for e in p.events if e[0] == "call" and (e[5].get("resolved") == other.key or e[5].get("callee") == other.key)]
        others = [e for e in p.events if e[0] == "call" and e not in cs and not re.search(COPY_RX, e[2])]
        if len(cs) != 1 or others or p.end[1] != cs[0][4]:
            return None
        a = cs[0][3][0]
        n_ = 0
        while n_ < 8:
            n_ += 1
            if a[0] == "ref":
                a = ex.deref_val(p, a)
            elif a[0] == "app" and re.search(COPY_RX, str(a[1])) and len(a[2]) == 1:
                a = a[2][0]
            else:
                break
        if not (a[0] == "sym" and a[1] in fn.names().values()):
            return None
        det = "%s(copy of %s)" % (M.short_name(other.name), a[1])
    return det


def staged_list(fn, ex, paths, push_rx):
    """A loop split in two (loop fission): the first loop pushes intermediate values into a local list, a second loop walks
    that list and does the real work.  Returns dict(lists=[names of the local lists pushed to by calls matching push_rx],
    pushes=[(path, pushed value)], walkers={bb of the `next` call of a loop that walks such a list plainly: list name},
    mutations=[other mutating calls on such a list])."""
    pushes = [(q, e) for q in paths for e in q.events if e[0] == "call" and re.search(push_rx, e[2])]
    lists = set()
    locs = set()
    for q, e in pushes:
        r0 = e[3][0]
        if r0[0] == "ref" and r0[1][1][0] == "local":
            lists.add(fn.names().get(r0[1][1][2], "_%d" % r0[1][1][2]))
            locs.add(r0[1][1][2])
    walkers = {}
    pv = M.Prov(fn)
    for bb, t in fn.calls(r"iter::Iterator>::next$"):
        if not t["args"]:
            continue
        e_ = pv.operand(t["args"][0])
        calls_ = M.expr_calls(e_)
        # (walked plainly: no adaptor, slicing or draining between the list and the loop)
        plain = bool(calls_) and not any(re.search(r"iter::Iterator>::(?!next$)|::(drain|split\w*|chunks\w*|windows|get|get_mut|index|index_mut|iter_mut)(::<.*>)?$", c_[1]) for c_ in calls_)
        if plain:
            for n_ in M.expr_leaf_names(e_):
                if n_ in lists:
                    walkers[bb] = n_
    muts = []
    for bb, t in fn.calls(r"Vec::<.*>::(sort\w*|dedup\w*|retain|remove|swap_remove|truncate|pop|drain|clear|reverse|insert|swap)$"):
        a0 = t["args"][0] if t["args"] else None
        if a0 and a0.get("k") in ("copy", "move"):
            if set(M.expr_leaf_names(pv.operand(a0))) & lists:
                muts.append(M.short_name(M.call_name(t)))
    return {"lists": sorted(lists), "pushes": [(q, e[3][1]) for q, e in pushes], "walkers": walkers, "mutations": muts}


def char_tests(conds):
    """[(tested term, char, is_equal)] for `x == 'c'`, `'c' == x`, `x != 'c'` and `match x { 'c' => .. }` (a switch on the
    char value), with the outcome each path assumed."""
    out = []
    for c, o in conds:
        if c[0] == "binop" and c[1] in ("Eq", "Ne") and isinstance(o, bool):
            for a, b in ((c[2], c[3]), (c[3], c[2])):
                if b[0] == "const" and isinstance(b[1], str) and re.match(r"^'.*'$", b[1]):
                    try:
                        ch = eval(b[1])
                    except Exception:
                        continue
                    out.append((a, ch, o if c[1] == "Eq" else (not o)))
        elif c[0] not in ("binop", "app", "discr", "isvar", "not", "cmp"):
            if isinstance(o, int) and not isinstance(o, bool) and 0 <= o < 0x110000:
                out.append((c, chr(o), True))
            elif isinstance(o, tuple) and o and o[0] == "otherwise":
                for v in o[1]:
                    if isinstance(v, int) and 0 <= v < 0x110000:
                        out.append((c, chr(v), False))
    return out
