"""C03 — side conditions of the partition-refinement theorem, checked on minimizer.rs."""
import re

from . import mirlib as M
from . import symex as S
from . import casts
from .common import owners, LogModel, run_fn, ret_paths, variant_of, argval, argstr

ADAPTERS = r"Iterator>::(skip|take|filter|step_by|rev|skip_while|take_while|chain|zip)\b"


def analyze(ctx, want):
    F = ctx.facts

    def ob(rule, key, ok, detail, loc=""):
        if rule in want:
            ctx.ob(rule, key, ok, detail, loc)

    def sample(rule, obj):
        if rule in want:
            obj = dict(obj)
            obj["rule"] = rule
            ctx.sample(obj)

    ctx.trust("textbook theorem: quotienting by a partition that respects acceptance labels and is stable under (class, target group) signatures preserves, for every string, the set of labels accepted")
    ctx.trust("std: BTreeMap/BTreeSet/Vec, slice::sort, Vec::dedup, sort_by (stable)")

    # ---- C03.a initial partition ---------------------------------------------------------------
    ip = F.fn(r"Minimizer::calculate_initial_partition$")
    ctx.analysed_fn(ip)
    ex, paths = run_fn(ip, F, LogModel(), desugar=None)   # position()/binary_search() of the terminal list are read as terms here
    seen = set()
    for p in paths:
        ins = p.calls(r"BTreeSet::<.*StateID>::insert$")
        acc = [(c, o) for c, o in p.conds if c[0] == "field" and c[2] == "0" and "end_states" in S.fstr(c)]
        if not acc:
            continue
        c, o = acc[-1]
        state_idx = c[1][2] if c[1][0] == "index" else None
        if len(ins) != 1:
            ob("C03.a", "every-state-is-put-into-exactly-one-group", False, "%d inserts for a state" % len(ins), ip.loc())
            continue
        tgt = ins[0][3][0]        # &mut initial_partition[idx]
        st_ins = ins[0][3][1]
        idx = None
        if tgt[0] == "ref" and tgt[1][2] and tgt[1][2][-1][0] == "i":
            idx = tgt[1][2][-1][1]
        same_state = S.fstr(st_ins) == S.fstr(state_idx) or S.mentions(st_ins, lambda x: x == state_idx) or (state_idx is not None and S.mentions(state_idx, lambda x: x == st_ins))
        ob("C03.a", "inserted-state-is-the-tested-state", bool(same_state), "tests %s, inserts %s" % (S.fstr(state_idx)[:40] if state_idx else None, S.fstr(st_ins)[:40]), ip.loc())
        if o is True:
            seen.add("accepting")
            # idx = position(terminal_map, id == end_states[state].1) + 1
            lin, cst = S.linear(idx) if idx is not None else ({}, None)
            # index of the state's terminal in the sorted, deduplicated list: position(== terminal) or binary_search(&terminal)
            pos = [a for a in lin if S.mentions(a, lambda x: x[0] == "app" and re.search(r"Iterator>::position::|<impl \[.*\]>::binary_search$", x[1]) is not None)]
            ok = cst == 1 and len(lin) == 1 and len(pos) == 1
            if ok and S.mentions(pos[0], lambda x: x[0] == "app" and re.search(r"binary_search$", x[1]) is not None):
                ok = S.mentions(pos[0], lambda x: x[0] == "field" and x[2] == "1" and "end_states" in S.fstr(x))
            ob("C03.a", "accepting-state-grouped-by-its-terminal", ok, "group index %s (must be 1 + the position of the state's terminal in the sorted, deduplicated terminal list)" % (S.fstr(idx)[:120] if idx else None), ip.loc())
        else:
            seen.add("non-accepting")
            ob("C03.a", "non-accepting-states-share-group-0", idx == ("int", 0), "group index %s" % (S.fstr(idx)[:60] if idx else None), ip.loc())
    ob("C03.a", "both-kinds-of-states-handled", seen == {"accepting", "non-accepting"}, "cases %s" % sorted(seen), ip.loc())
    # predicate of the position(): equality with the state's own terminal id
    for c in F.closures_of(ip):
        if c.argc != 2 or "terminal_id" not in c.upvar_names().values():
            continue
        ex2, ps = run_fn(c, F, LogModel())
        for q in ret_paths(ps):
            r = q.end[1]
            p2 = c.names().get(2, "arg2")
            sides = [S.fstr(r[2]), S.fstr(r[3])] if r[0] == "binop" else []
            ok = r[0] == "binop" and r[1] == "Eq" and any(p2 in x and "arg1" not in x for x in sides) and any("arg1" in x for x in sides)
            ob("C03.a", "terminal-position-predicate-is-equality", ok, "predicate %s" % S.fstr(r)[:80], c.loc())
    # the loop covers 0..states.len(); the terminal list is built from the accepting labels only, sorted, deduplicated
    for p in paths:
        nx = [e for e in p.events if e[0] == "call" and re.search(r"Range<usize> as std::iter::Iterator>::next$", e[2])]
        if nx and len(nx[0]) > 7:
            v = nx[0][7][0]
            n = 0
            while v[0] == "ref" and len(v) > 3 and n < 4:
                v = v[3]
                n += 1
            ok = v[0] == "adt" and v[3][0] == ("int", 0) and "dfa.states" in S.fstr(v[3][1]) and "len" in S.fstr(v[3][1])
            ob("C03.a", "loop-covers-all-states", ok, "range %s" % S.fstr(v)[:80], ip.loc())
            break
    # the terminal list: the labels of the accepting entries of dfa.end_states (filter_map, or filter + map), sorted and
    # deduplicated exactly once, nothing else done to it
    sel = [e for p in paths[:1] for e in p.events if e[0] == "call" and re.search(r"Iterator>::(filter_map|filter|map)::", e[2])]
    srt = [e for p in paths[:1] for e in p.events if e[0] == "call" and re.search(r"slice::<impl \[.*\]>::sort$|::sort_unstable$", e[2])]
    ddp = [e for p in paths[:1] for e in p.events if e[0] == "call" and re.search(r"Vec::<.*>::dedup$", e[2])]
    others = [M.short_name(M.call_name(t)) for bb, t in ip.calls(r"Iterator>::(rev|skip|take|step_by|skip_while|take_while|chain|zip)\b|::(dedup_by\w*|retain|truncate|pop|remove|swap_remove|drain)$")]
    src_ok = bool(sel) and "dfa.end_states" in S.fstr(sel[0][3][0])
    # (collecting into a BTreeSet gives the same list: ascending, no duplicates)
    as_set = [e for p in paths[:1] for e in p.events if e[0] == "call" and re.search(r"Iterator>::collect::<std::collections::BTreeSet<", e[2])]
    ob("C03.a", "terminal-list-sorted-and-deduplicated", src_ok and ((len(srt) == 1 and len(ddp) == 1) or (len(as_set) == 1 and not srt and not ddp)) and not others,
       "%s over %s, sort x%d, dedup x%d, other list operations %s" % ([re.search(r"Iterator>::(\w+)", e[2]).group(1) for e in sel], S.fstr(sel[0][3][0])[:40] if sel else None, len(srt), len(ddp), others), ip.loc())
    rows = set()
    n_sel = 0
    for c in F.closures_of(ip):
        if c.argc != 2:
            continue
        ex2, ps = run_fn(c, F, LogModel())
        for q in ret_paths(ps):
            r = q.end[1]
            rs_ = S.fstr(r)
            flag = [(cc, o) for cc, o in q.conds if re.search(r"arg2\)?\.0$|accept", S.fstr(cc))]
            if r[0] == "adt" and r[1].endswith("Option") and (flag or r[2] == "None"):
                # filter_map: Some(label) iff the accept flag is set
                n_sel += 1
                rows.add((flag[-1][1] if flag else None, r[2], bool(r[2] == "None" or re.search(r"arg2\)?\.1$|\bid\b", S.fstr(r[3][0])))))
            elif re.search(r"arg2\)?\)?\.0$", rs_) and not q.conds:
                # filter: keeps the entry iff its accept flag is set
                n_sel += 1
                rows.add((True, "Some", True))
                rows.add((False, "None", True))
            elif re.search(r"arg2\)?\.1$", rs_) and not q.conds and not c.upvar_names():
                pass    # map: the label of the entry
    ob("C03.a", "terminal-list-holds-exactly-the-accepting-labels", rows == {(True, "Some", True), (False, "None", True)} and n_sel >= 1, "selection rows (accept flag, kept, value is the label): %s" % sorted(rows, key=str), ip.loc())

    # ---- C03.b refinement only splits ----------------------------------------------------------
    sg = F.fn(r"Minimizer::split_group$")
    ctx.analysed_fn(sg)
    ex, paths = run_fn(sg, F, LogModel())
    early = 0
    out_loop = {}
    # out-parameter form: the groups are appended to a `&mut Partition` the caller hands in instead of being returned
    outp = [a for a in range(1, sg.argc + 1) if re.match(r"^&mut std::vec::Vec<std::collections::BTreeSet<internal::ids::StateID>>", sg.locals[a]["ty"])]
    outname = sg.names().get(outp[0]) if len(outp) == 1 else None

    def out_appends(p_):
        res = []
        for e_ in p_.events:
            if e_[0] == "call" and re.search(r"Vec::<.*>::(push|extend|append|extend_from_slice)$|Extend<.*>>::extend(::<.*>)?$", e_[2]) and e_[3] and outname is not None \
                    and re.search(r"\b%s\b" % re.escape(outname), S.fstr(e_[3][0])):
                res.append(e_)
        return res

    def only_group(v_):
        n_ = 0
        while v_[0] in ("ref", "deref") and n_ < 4:
            v_ = v_[1] if v_[0] == "deref" else v_
            if v_[0] == "ref":
                break
            n_ += 1
        return v_ == ("sym", "group") or (v_[0] in ("vec", "array") and len(v_[1]) == 1 and v_[1][0] == ("sym", "group"))
    # (iteration paths first: the return paths refer to what the loops did)
    for p in sorted(paths, key=lambda q: 0 if q.end and q.end[0] == "cut" else 1):
        ln = [(c, o) for c, o in p.conds if c[0] == "binop" and "BTreeSet::len(&group)" in S.fstr(c)]
        ins = p.calls(r"BTreeSet::<.*StateID>::insert$")
        sig = p.calls(r"Minimizer::build_transitions_to_partition_group$")
        if p.end[0] == "return" and not sig and ln and ln[-1][1] is True:
            early += 1
            c, o = ln[-1]
            ok = c[1] == "Eq" and ("int", 1) in (c[2], c[3]) or (c[1] in ("Le", "Lt") and (("int", 1) in (c[2], c[3]) or ("int", 2) in (c[2], c[3])) and c[1] == "Le" and ("int", 1) in (c[2], c[3]))
            r = p.end[1]
            whole = only_group(r)
            if outname is not None and r == ("unit",):
                ap_ = out_appends(p)
                whole = len(ap_) == 1 and re.search(r"::push$", ap_[0][2]) is not None and only_group(argval(ap_[0], 1))
                r = argval(ap_[0], 1) if ap_ else r
            ob("C03.b", "unsplit-return-only-for-singletons", bool(ok) and whole, "early return under %s returning %s" % (S.fstr(c), S.fstr(r)[:60]), sg.loc())
        elif p.end[0] == "cut" and sig:
            # one state of the group: its signature is computed (against the given partition) and the state is added to the
            # class of that signature — entry(sig).or_default().insert(state), or get_mut(&sig) / insert(sig, {state}), ...
            ok = len(sig) == 1
            if ok:
                st = sig[0][3][0]
                sres = sig[0][4]
                keyed = [e for e in p.events if e[0] == "call" and re.search(r"BTreeMap::<.*>::(entry|get_mut|get|insert)(::<.*>)?$", e[2]) and len(e[3]) >= 2 and (ex.deref_val(p, e[3][1]) == sres if e[3][1][0] == "ref" else e[3][1] == sres)]
                added = [e for e in ins if e[3][1] == st] + [e for e in p.events if e[0] == "call" and re.search(r"BTreeMap::<.*>::insert$", e[2]) and len(e[3]) == 3 and S.mentions(e[3][2], lambda x: x == st)]
                ok = bool(keyed) and len(added) == 1 and "item@" in S.fstr(st)
                if not keyed and not ins:
                    # loop fission: this loop only records (signature, state); a second loop over the recorded pairs files each
                    # state under its signature
                    from .common import staged_list
                    stg = staged_list(sg, ex, paths, r"Vec::<\(.*TransitionsToPartitionGroups, .*StateID\)>::push$")
                    mine = [v for q, v in stg["pushes"] if q is p]
                    v0 = (ex.deref_val(p, mine[0]) if mine and mine[0][0] == "ref" else (mine[0] if mine else None))
                    pair_ok = len(mine) == 1 and v0 is not None and v0[0] == "tuple" and len(v0[1]) == 2 and v0[1][0] == sres and v0[1][1] == st
                    second = False
                    for q in paths:
                        if q.end[0] != "cut" or q.calls(r"Minimizer::build_transitions_to_partition_group$"):
                            continue
                        nx_ = [e for e in q.events if e[0] == "call" and re.search(r"iter::Iterator>::next$", e[2]) and e[1] in stg["walkers"]]
                        if not nx_:
                            continue
                        it_ = "item@bb%d" % nx_[-1][1]
                        k2 = [e for e in q.events if e[0] == "call" and re.search(r"BTreeMap::<.*>::(entry|get_mut|get|insert)(::<.*>)?$", e[2]) and len(e[3]) >= 2 and S.fstr(ex.deref_val(q, e[3][1]) if e[3][1][0] == "ref" else e[3][1]).replace("(", "").replace(")", "") == it_ + ".0"]
                        a2 = [e for e in q.calls(r"BTreeSet::<.*StateID>::insert$") if S.fstr(e[3][1]).replace("(", "").replace(")", "") == it_ + ".1"]
                        second = bool(k2) and len(a2) == 1
                    ok = pair_ok and second and len(stg["lists"]) == 1 and not stg["mutations"] and "item@" in S.fstr(st)
                ok_part = S.fstr(sig[0][3][1]).lstrip("&*") == "partition" and S.fstr(sig[0][3][2]).lstrip("&*") == "transitions"
                ob("C03.b", "signature-computed-against-the-given-partition", ok_part, "signature(%s, %s, %s)" % tuple(S.fstr(a)[:30] for a in sig[0][3]), sg.loc())
            ob("C03.b", "each-state-goes-to-the-group-of-its-signature", ok, "per state: %d signature(s), %d insert(s)" % (len(sig), len(ins)), sg.loc())
        elif p.end[0] == "cut":
            # the walk over the signature classes that builds the result: every class is appended
            pu = p.calls(r"Vec::<.*BTreeSet<.*StateID>>::push$")
            if pu:
                out_loop["push"] = S.mentions(argval(pu[0], 1), lambda x: x[0] == "sym" and str(x[1]).startswith("item@")) and len(pu) == 1
        elif p.end[0] == "return":
            r = p.end[1]
            ok = S.mentions(r, lambda x: x[0] == "app" and re.search(r"BTreeMap::<.*>::into_values$", x[1]) is not None)
            if not ok and outname is not None and r == ("unit",):
                ap_ = out_appends(p)
                ok = len(ap_) == 1 and re.search(r"extend(::<.*>)?$", ap_[0][2]) is not None and len(ap_[0][3]) == 2 \
                    and argval(ap_[0], 1)[0] == "app" and re.search(r"BTreeMap::<.*>::into_values$", str(argval(ap_[0], 1)[1])) is not None
                r = argval(ap_[0], 1) if ap_ else r
            if not ok and out_loop.get("push"):
                from .common import loop_sources
                ok = any(re.search(r"BTreeMap|transition_map_to_states", s_) for _, s_ in loop_sources(ex, paths)) and not [1 for bb_, t_ in sg.calls(ADAPTERS)]
            ob("C03.b", "output-groups-are-the-signature-classes", ok, "returns %s" % S.fstr(r)[:100], sg.loc())
    ob("C03.b", "early-return-present-or-absent-consistently", early <= 2, "%d early-return paths" % early, sg.loc())
    its = [M.call_name(t) for bb, t in sg.calls(ADAPTERS)]
    ob("C03.b", "all-states-of-the-group-visited", not its, "iterator adapters: %s" % its, sg.loc())
    np_ = F.fn(r"Minimizer::calculate_new_partition$")
    ctx.analysed_fn(np_)
    ex, paths = run_fn(np_, F, LogModel())
    # new partition = the groups every old group is split into, all of them, in order: a loop that pushes/extends, or
    # flat_map(split_group).collect()
    bodies = [(np_, ex, paths)]
    for c in F.closures_of(np_):
        ex_c, ps_c = run_fn(c, F, LogModel())
        bodies.append((c, ex_c, ps_c))
    okn = False
    okn_bad = False
    n_calls = 0
    for body, ex_b, ps_b in bodies:
        for p in ps_b:
            for c in p.calls(r"Minimizer::split_group$"):
                n_calls += 1
                grp = S.fstr(c[3][1])
                from_item = "item@" in grp or re.search(r"\barg2\b|\bgroup\b", grp) is not None
                upn = body.upvar_names() if body.kind == "Closure" else {}
                def nm(v):
                    v2 = ex_b.deref_val(p, v) if v[0] == "ref" else v
                    s_ = S.fstr(v2).lstrip("&*")
                    m_ = re.match(r"^\(?\*?arg1\)?\.(\d+)$", S.fstr(v).lstrip("&*"))
                    if m_ and int(m_.group(1)) in upn:       # a captured variable of the closure: its source name
                        return upn[int(m_.group(1))]
                    return s_
                this_ = from_item and nm(c[3][2]).endswith("partition") and nm(c[3][3]).endswith("transitions")
                okn_bad = okn_bad or not this_      # every call on every path (not: the last one looked at)
                okn = not okn_bad
    its = [M.call_name(t) for bb, t in np_.calls(ADAPTERS)]
    ob("C03.b", "every-group-is-split-against-the-old-partition", okn and n_calls >= 1 and not its, "split_group(group of the old partition, old partition, transitions): %d call path(s); adapters %s" % (n_calls, its), np_.loc())
    pushes = sum(len(list(c.calls(r"Vec::<.*>::(push|extend|append)$|Extend<.*>>::extend"))) for c in [np_] + list(F.closures_of(np_)))
    flat = [M.call_name(t) for bb, t in np_.calls(r"Iterator>::flat_map::")]
    coll = [M.call_name(t) for bb, t in np_.calls(r"Iterator>::collect::|FromIterator<.*>>::from_iter")]
    ok_coll = pushes == 1 or (len(flat) == 1 and len(coll) == 1 and pushes == 0)
    if not ok_coll and outname is not None and pushes == 0 and not flat and not coll:
        # out-parameter form: every split_group call appends to the very list this function returns
        ret_locals = {s_["rv"]["op"]["p"]["l"] for bb_, i_, s_ in np_.assigns() if s_["p"]["l"] == 0 and not s_["p"]["pj"] and s_["rv"]["k"] == "use" and s_["rv"]["op"]["k"] in ("move", "copy") and not s_["rv"]["op"]["p"]["pj"]}
        pv_ = M.Prov(np_)

        def locals_in(t_):
            out_ = set()
            if isinstance(t_, tuple):
                if t_ and t_[0] in ("phi", "var", "mutated") and len(t_) >= 3 and isinstance(t_[-2] if t_[0] == "phi" else t_[1], int):
                    out_.add(t_[-2] if t_[0] == "phi" else t_[1])
                for x_ in t_:
                    out_ |= locals_in(x_)
            return out_
        calls_ = list(np_.calls(r"Minimizer::split_group$"))
        ok_coll = bool(calls_) and len(ret_locals) == 1 and all(len(t_["args"]) == sg.argc and (ret_locals & locals_in(pv_.operand(t_["args"][outp[0] - 1]))) for bb_, t_ in calls_)
    ob("C03.b", "all-split-results-are-collected", ok_coll, "pushes/extends: %d; flat_map: %d, collect: %d" % (pushes, len(flat), len(coll)), np_.loc())

    # ---- C03.c signatures are complete ------------------------------------------------------------
    bt = F.fn(r"Minimizer::build_transitions_to_partition_group$")
    ctx.analysed_fn(bt)
    ex, paths = run_fn(bt, F, LogModel())
    body = 0
    has_fg = bool(F.fn_opt(r"Minimizer::find_group$"))
    from .common import loop_sources as _lsrc

    def inlined_lookup(p_, grp_):
        """The group lookup written in place (find_group turned into a closure of this function, which the engine evaluates where
        it is called): the value is the index of a search loop over `partition` whose hit test is `group.contains(target)`."""
        m_ = re.match(r"^[(&*]*(?:\w+::)*(?:\w+\()?\(?index@bb(\d+)(?: as u\d+)?\)*$", S.fstr(grp_))
        if not m_:
            return None
        k_ = int(m_.group(1))
        hit = [c_ for c_, o_ in p_.conds if o_ is True and c_[0] == "app" and re.search(r"BTreeSet::<.*>::contains", c_[1]) and ("item@bb%d" % k_) in S.fstr(c_[2][0])]
        src = [s_ for b_, s_ in _lsrc(ex, paths) if b_ == k_]
        if not hit or not any("partition" in s_ for s_ in src):
            return None
        return hit[0]
    n_inl = 0
    for p in paths:
        ins = p.calls(r"TransitionsToPartitionGroups::insert$")
        fg = p.calls(r"Minimizer::find_group$")
        if ins:
            body += 1
            cls = ins[0][3][1]
            grp = ins[0][3][2]
            if not has_fg:
                h_ = inlined_lookup(p, grp)
                n_inl += 1
                ok_in = h_ is not None and "item@" in S.fstr(h_[2][1]) and "item@" in S.fstr(cls)
                ob("C03.c", "signature-entry-is-(class, group-of-target)", ok_in, "insert(%s, %s) with the lookup in place: %s" % (S.fstr(cls)[:40], S.fstr(grp)[:40], S.fstr(h_)[:80] if h_ else "not recognised"), bt.loc())
                ob("C03.d", "group-id-is-the-index-of-the-containing-group", ok_in, "lookup in place: index of the first group of the partition that contains the target", bt.loc())
                continue
            ok = len(fg) == 1 and "item@" in S.fstr(fg[0][3][0]) and S.fstr(fg[0][3][1]).lstrip("&*") == "partition"
            ok2 = "item@" in S.fstr(cls) and S.mentions(grp, lambda x: x == fg[0][4]) if fg else False
            ob("C03.c", "signature-entry-is-(class, group-of-target)", ok and ok2, "insert(%s, %s)" % (S.fstr(cls)[:40], S.fstr(grp)[:60]), bt.loc())
    # insert() itself appends exactly the given pair, unconditionally: a "deduplicating" insert that looks at the previous entry
    # drops the entry of a class that leads into the same group as the class before it, and two states that differ in exactly
    # that transition get one signature
    for ti in F.fn_opt(r"TransitionsToPartitionGroups::insert$"):
        ctx.analysed_fn(ti)
        ex_i, ps_i = run_fn(ti, F, LogModel())
        rp_i = ret_paths(ps_i)
        ok_i = len(rp_i) == 1 and len(ps_i) == 1
        det_i = "%d path(s), %d returning" % (len(ps_i), len(rp_i))
        if ok_i:
            pu_ = [e_ for e_ in rp_i[0].events if e_[0] == "call" and re.search(r"Vec::<.*>::(push|insert|extend\w*)$|VecDeque::<.*>::push_back$|BTree(Set|Map)::<.*>::insert$", e_[2])]
            v_ = argval(pu_[0], 1) if len(pu_) == 1 and len(pu_[0][3]) == 2 else None
            ok_i = v_ is not None and v_ == ("tuple", (("sym", "char_class"), ("sym", "partition_group"))) and not rp_i[0].conds
            det_i = "appends %s under %d condition(s)" % (S.fstr(v_)[:60] if v_ is not None else [M.short_name(e_[2]) for e_ in pu_], len(rp_i[0].conds))
        ob("C03.c", "signature-insert-appends-the-given-pair-unconditionally", ok_i, det_i, ti.loc())
    # nothing but insert() may touch the signature: the returned value is the accumulated list
    for p in ret_paths(paths):
        r = p.end[1]
        apps = [x[1] for x in S.subterms(r) if x[0] == "app"]
        other = [a for a in apps if not re.search(r"TransitionsToPartitionGroups::(new|with_capacity|insert)$|BTreeMap::<.*>::(len|get)|mut:TransitionsToPartitionGroups::insert|find_group|Option::<.*>::unwrap|Iterator>::next|IntoIterator|ids::", a) and not a.startswith("mut:Minimizer::trace")]
        other = [a for a in other if re.search(r"dedup|sort|retain|truncate|remove|drain|clear|pop|reverse|swap", a)]
        ob("C03.c", "signature-not-post-processed", not other, "operations applied to the signature after it was collected: %s" % [M.short_name(a) for a in other], bt.loc())
    muts = [M.call_name(t) for bb, t in bt.calls(r"Vec::<.*>::(dedup|dedup_by|dedup_by_key|sort|sort_by|sort_by_key|sort_unstable|retain|truncate|remove|drain|clear|pop|reverse)|<impl \[.*\]>::(sort|reverse)")]
    ob("C03.c", "signature-vector-only-grows", not muts, "vector mutations in build_transitions_to_partition_group: %s" % [M.short_name(m) for m in muts], bt.loc())
    its = [M.call_name(t) for bb, t in bt.calls(ADAPTERS)]
    brk = []
    # every target whose group is looked up contributes its (class, group) entry: no iteration looks a group up and then skips the insert
    skipped = [p for p in paths if (p.calls(r"Minimizer::find_group$") or (not has_fg and any(o_ is True and c_[0] == "app" and re.search(r"BTreeSet::<.*>::contains", c_[1]) for c_, o_ in p.conds)))
               and not p.calls(r"TransitionsToPartitionGroups::insert$") and p.end[0] != "panic"]
    ob("C03.c", "no-looked-up-target-is-skipped", not skipped, "%d iteration path(s) look a target's group up without adding it to the signature%s" % (len(skipped), (": skipped when " + "; ".join("%s is %s" % (S.fstr(c)[:60], o) for c, o in skipped[0].conds[-2:])) if skipped else ""), bt.loc())
    ob("C03.c", "all-transitions-and-targets-enter-the-signature", body >= 1 and not its, "%d body paths; adapters %s" % (body, its), bt.loc())
    look = [e for p in paths for e in p.events if e[0] == "call" and re.search(r"BTreeMap::<.*>::get::", e[2])]
    ob("C03.c", "signature-of-the-given-state", bool(look) and S.fstr(ex.deref_val(paths[0], look[0][3][1])) in ("state_id",) or (bool(look) and "state_id" in S.fstr(look[0][3][1])), "transitions.get(%s)" % (S.fstr(look[0][3][1]) if look else None), bt.loc())
    if has_fg:
        fgf = F.fn(r"Minimizer::find_group$")
        ex, paths = run_fn(fgf, F, LogModel())
        from .common import search_table, hit_is_index_of
        st_ = search_table(ex, paths)
        badf = [M.short_name(M.call_name(t)) for bb, t in fgf.calls(r"Iterator>::(rev|rposition|skip|take|filter|step_by|skip_while|take_while|chain|zip)\b")]
        ok = bool(st_["hit"]) and bool(st_["source"]) and all("partition" in x for x in st_["source"]) and not badf
        for r, ic, p in st_["hit"]:
            good = [c for c, o in ic if o is True and c[0] == "app" and re.search(r"BTreeSet::<.*>::contains", c[1]) and "item@" in S.fstr(c[2][0]) and "state_id" in S.fstr(c[2][1])]
            val = r[3][0] if r[0] == "adt" and r[2] == "Some" and r[3] else r
            ok = ok and bool(good) and hit_is_index_of(val, good[0])
        for ic, p in st_["miss"]:
            ok = ok and any(o is False and c[0] == "app" and re.search(r"BTreeSet::<.*>::contains", c[1]) for c, o in ic)
        ob("C03.d", "group-id-is-the-index-of-the-containing-group", ok, "search over %s; hits %s" % (sorted(set(st_["source"])), [S.fstr(r)[:40] for r, _, _ in st_["hit"]]), fgf.loc())
    else:
        # the lookup lives inside build_transitions_to_partition_group (decided above, per use); no adaptor may shorten its walk
        badc = [M.short_name(M.call_name(t_)) for c_ in F.closures_of(bt) for b_, t_ in c_.calls(r"Iterator>::(rev|rposition|skip|take|filter|step_by|skip_while|take_while|chain|zip)\b")]
        ob("C03.d", "group-lookup-in-place-walks-the-whole-partition", n_inl >= 1 and not badc, "%d use(s) of the lookup written in place; adaptors %s" % (n_inl, badc), bt.loc())
    casts.analyze(ctx, {"C03.d"} & want)

    # ---- C03.e fixpoint ------------------------------------------------------------------------
    mn = F.fn(r"Minimizer::minimize$")
    ctx.analysed_fn(mn)
    ex, paths = run_fn(mn, F, LogModel(), max_paths=4000)
    loops = mn.natural_loops()
    exits_ok = False
    det = ""
    for p in paths:
        ne = [(c, o) for c, o in p.conds if c == ("sym", "changed") or (c[0] == "binop" and c[1] == "Ne" and "partition" in S.fstr(c)) or (c[0] == "app" and re.search(r"PartialEq.*>::ne$", c[1]))]
        cr = p.calls(r"Minimizer::create_from_partition$")
        if cr:
            det = "create_from_partition(%s)" % ", ".join(S.fstr(a)[:40] for a in cr[0][3])
    # the refinement loop is left exactly when the new partition equals the old one
    def part_names(c):
        out = set()
        for x in S.subterms(c):
            if x[0] == "ref" and x[1][1][0] == "local":
                n_ = mn.names().get(x[1][1][2])
                if n_:
                    out.add(n_)
        return out
    seen_loop = set()
    ok_all = True
    det = []
    # two trips around the loop (no back edge cut) so that a test at the loop head is seen as well
    ex2, paths2 = run_fn(mn, F, LogModel(), cut_back_edges=False, visit_limit=2, max_paths=6000)
    for p in paths2:
        seq = [e for e in p.events if e[0] == "call" and re.search(r"Minimizer::calculate_new_partition$", e[2])]
        tests = []
        for k, e in enumerate(seq):
            new_v = e[4]
            old_v = ex2.deref_val(p, e[7][0] if len(e) > 7 else e[3][0])
            old_v = argval(e, 0)
            found = None
            for c, o in p.conds:
                a_ = b_ = None
                neg = None
                if c[0] == "binop" and c[1] in ("Ne", "Eq"):
                    a_, b_, neg = c[2], c[3], (c[1] == "Ne")
                elif c[0] == "app" and re.search(r"PartialEq(<.*>)?>::(ne|eq)$", c[1]):
                    a_, b_, neg = ex2.deref_val(p, c[2][0]), ex2.deref_val(p, c[2][1]), c[1].endswith("::ne")
                if a_ is None:
                    continue
                if {S.fstr(a_), S.fstr(b_)} == {S.fstr(new_v), S.fstr(old_v).lstrip("&")} or (a_ == new_v and S.fstr(b_) == S.fstr(old_v).lstrip("&")) or (b_ == new_v and S.fstr(a_) == S.fstr(old_v).lstrip("&")):
                    found = o if neg else (not o)
            if found is not None:
                tests.append(found)
        rounds = len(seq)
        leaves = bool(p.calls(r"Minimizer::create_from_partition$"))
        if rounds == 0:
            if leaves:
                # the automaton is rebuilt from a partition that was never refined (for the tree's `partition_new`: an empty
                # one, so that the rebuilt automaton has no state at all and the first lookup in it panics)
                ok_all = False
                cs = [(S.fstr(c)[:60], o) for c, o in p.conds if not S.fstr(c).startswith("log::")][-2:]
                det.append("create_from_partition is reached without a single refinement round (when %s)" % cs)
            continue
        if leaves:
            seen_loop.add("exit")
            if len(tests) < rounds or tests[rounds - 1] is not False:
                ok_all = False
                det.append("leaves the loop after %d round(s) although the partition %s" % (rounds, "changed" if len(tests) >= rounds else "was not compared"))
        if rounds >= 2:
            seen_loop.add("again")
            if not tests or tests[0] is not True:
                ok_all = False
                det.append("starts another round although the partition %s" % ("is stable" if tests else "was not compared"))
    ob("C03.e", "refinement-runs-until-the-partition-is-stable", ok_all and seen_loop == {"exit", "again"}, "; ".join(det) or "loop exits iff partition_new == partition_old (cases %s)" % sorted(seen_loop), mn.loc())
    for p in paths:
        for c in p.calls(r"Minimizer::calculate_new_partition$"):
            a0, a1 = c[3][0], c[3][1]
            l0 = a0[1][1][2] if a0[0] == "ref" and a0[1][1][0] == "local" else None
            l1 = a1[1][1][2] if a1[0] == "ref" and a1[1][1][0] == "local" else None
            # the second argument is the function's only transition map (by type, not by name); that the first one is the
            # partition the result is compared with is part of the fixpoint rule above
            tmaps = [i_ for i_, l_ in enumerate(mn.j["locals"]) if l_["ty"].startswith("std::collections::BTreeMap<internal::ids::StateID, std::collections::BTreeMap<") and i_ in mn.names()]
            ok = l1 is not None and tmaps == [l1] and l0 is not None and "BTreeSet<internal::ids::StateID>" in mn.j["locals"][l0]["ty"]
            ob("C03.e", "each-round-refines-a-partition-with-the-full-transition-map", ok, "calculate_new_partition(%s, %s); transition maps in minimize: %s" % (mn.names().get(l0), mn.names().get(l1), [mn.names().get(t_) for t_ in tmaps]), mn.loc(c[1]))
    # transition map built from all transitions of all states
    for c in F.closures_of(mn):
        its = [M.call_name(t) for bb, t in c.calls(ADAPTERS)]
        ob("C03.c", "transition-map-covers-all-transitions", not its, "adapters in the map-building closure: %s" % its, c.loc())
    its = [M.short_name(M.call_name(t)) for bb, t in mn.calls(ADAPTERS)]
    ob("C03.c", "transition-map-covers-all-states", not its, "adapters on the state list in minimize: %s" % its, mn.loc())

    # ---- C03.f/g/h quotient -----------------------------------------------------------------------
    cp = F.fn(r"Minimizer::create_from_partition$")
    ctx.analysed_fn(cp)
    ex, paths = run_fn(cp, F, LogModel())
    for p in paths:
        for c in p.calls(r"Minimizer::add_representative_state$"):
            gid, grp = c[3][1], c[3][2]
            ok = "item@" in S.fstr(gid) and "item@" in S.fstr(grp) and ".0" in S.fstr(gid) and ".1" in S.fstr(grp)
            ok_es = "dfa.end_states" in argstr(c, 3)
            ob("C03.g", "state-of-group-i-is-built-from-group-i", ok and ok_es, "add_representative_state(id=%s, group=%s, %s)" % (S.fstr(gid)[:40], S.fstr(grp)[:40], argstr(c, 3)[:30]), cp.loc(c[1]))
        if p.end[0] == "return":
            r = p.end[1]
            ut = p.calls(r"Minimizer::update_transitions$")
            sb = p.calls(r"sort_by::")
            ok = len(ut) == 1 and len(sb) == 1
            if ok:
                # both the numbering (enumerate) and the renumbering use the reordered copy
                reordered = sb[0][3][0]
                ok = S.mentions(argval(ut[0], 1), lambda x: x[0] == "app" and ("to_vec" in x[1] or "sort_by" in x[1])) and argstr(ut[0], 2).lstrip("&*") == "transitions"
            ob("C03.f", "transitions-renumbered-in-the-reordered-partition", ok, "update_transitions(%s)" % (", ".join(argstr(ut[0], i)[:50] for i in range(len(ut[0][3]))) if ut else None), cp.loc())
            dv = None
            for x in S.subterms(r):
                if x[0] == "adt" and x[1].endswith("CompiledDfa"):
                    dv = x
            if dv is not None:
                ok_len = "slice::len(&partition)" in S.fstr(dv[3][2]) and "slice::len(&partition)" in S.fstr(dv[3][3])
                ob("C03.h", "one-state-per-group", ok_len, "states := %s" % S.fstr(dv[3][2])[:80], cp.loc())
                keep = S.fstr(dv[3][0]) == "dfa.patterns" and S.fstr(dv[3][1]) == "dfa.terminal_ids" and S.fstr(dv[3][4]) == "dfa.lookaheads"
                ob("C03.g", "patterns-priorities-lookaheads-kept", keep, "patterns=%s terminal_ids=%s lookaheads=%s" % (S.fstr(dv[3][0]), S.fstr(dv[3][1]), S.fstr(dv[3][4])), cp.loc())
    # comparator: the group containing state 0 sorts first
    cmpc = [(c, 2) for c in F.closures_of(cp) if c.argc == 3]
    # (the comparator may also be a named function handed to sort_by)
    for p in paths:
        for e in p.calls(r"::sort_by(::<.*>)?$|::sort_unstable_by(::<.*>)?$"):
            fv = e[3][-1]
            if fv[0] == "fn" and fv[1] in F.fns and not any(c is F.fns[fv[1]] for c, _ in cmpc):
                cmpc.append((F.fns[fv[1]], 1))
    for c, first in cmpc:
        ex2, ps = run_fn(c, F, LogModel(), inline=r"ids::StateID::new$")
        rows = {}
        for q in ret_paths(ps):
            conds = []
            na, nb = c.names().get(first, "arg%d" % first), c.names().get(first + 1, "arg%d" % (first + 1))
            for cc, o in q.conds:
                who = "a" if S.mentions(cc, lambda x: x == ("sym", na)) else ("b" if S.mentions(cc, lambda x: x == ("sym", nb)) else "?")
                has0 = S.mentions(cc, lambda x: x == ("int", 0)) and cc[0] == "app" and "contains" in cc[1]
                conds.append((who, o, has0))
            r = q.end[1]
            rows[tuple((w, o) for w, o, _ in conds)] = r[2] if r[0] == "adt" else S.fstr(r)
            for w, o, has0 in conds:
                ob("C03.h", "comparator-tests-membership-of-state-0", has0, "comparator condition %s" % [S.fstr(cc)[:60] for cc, _ in q.conds], c.loc())
        exp = {(("a", True),): "Less", (("a", False), ("b", True)): "Greater", (("a", False), ("b", False)): "Equal"}
        ob("C03.h", "start-group-sorts-first", rows == exp, "comparator table %s" % rows, c.loc())
        sample("C03.h", {"comparator": {str(k): v for k, v in rows.items()}})
    if "C03.h" in want:
        ctx.floor("C03.h", "sort comparators in create_from_partition", len(cmpc), 1)
    ar = F.fn(r"Minimizer::add_representative_state$")
    ctx.analysed_fn(ar)
    ex, paths = run_fn(ar, F, LogModel(), inline=r"ids::(StateID|StateGroupID)::(new|id|as_usize)$")
    seen = set()
    for p in paths:
        acc = [(c, o) for c, o in p.conds if c[0] == "field" and c[2] == "0" and "end_states" in S.fstr(c)]
        w = [e for e in p.events if e[0] == "write" and e[2] != ("local",) and "end_states" in [st[1] for st in e[3]]]
        if not acc:
            continue
        c, o = acc[-1]
        if o is True:
            seen.add("acc")
            ok = len(w) == 1
            if ok:
                val = w[0][4]
                idx = [st for st in w[0][3] if st[0] == "i"]
                ok = val[0] == "tuple" and val[1][0] == ("bool", True) and S.fstr(val[1][1]) == S.fstr(c[1]) + ".1" and bool(idx) and "group_id" in S.fstr(idx[0][1])
            ob("C03.g", "quotient-state-accepts-with-a-member's-label", ok, "member accepting: writes %s" % ([(S.fstr(e[4])[:60]) for e in w]), ar.loc())
        else:
            seen.add("non")
            ob("C03.g", "non-accepting-member-writes-nothing", not w, "writes %s" % [S.fstr(e[4])[:40] for e in w], ar.loc())
    ob("C03.g", "acceptance-decided-per-member", seen == {"acc", "non"}, "cases %s" % sorted(seen), ar.loc())
    its = [M.call_name(t) for bb, t in ar.calls(ADAPTERS)]
    ob("C03.g", "all-members-inspected", not its, "adapters %s" % its, ar.loc())
    ut = F.fn(r"Minimizer::update_transitions$")
    ctx.analysed_fn(ut)
    calls = [M.call_name(t) for bb, t in ut.calls()]
    order = [i for i, c in enumerate(calls) if re.search(r"Minimizer::(merge_transitions|renumber_states_in_transitions)$", c)]
    ok = len(order) == 2 and "merge_transitions" in calls[order[0]] and "renumber" in calls[order[1]]
    ob("C03.f", "members-merged-then-renumbered", ok, "calls: %s" % [M.short_name(calls[i]) for i in order], ut.loc())
    its = [c for c in calls if re.search(ADAPTERS, c)]
    calls_h = calls + [M.call_name(t) for f_ in F.fns.values() if S.is_unknown_helper(f_) and any(o.name == ut.name for o, _ in owners(F, f_)) for bb, t in f_.calls()]   # (+ helpers introduced later)
    ob("C03.f", "all-merged-transitions-installed", not its and any(re.search(r"Vec::<.*>::push$", c) for c in calls_h), "adapters %s" % its, ut.loc())
    # the installing loop: a merged transition (class, target) is passed over only if that very pair is already in the state's list
    # (seed C17j: a hash set of "edges seen" keyed by a saturating from*n+to — distinct edges share a key beyond 65 536 states)
    try:
        exu, pu = run_fn(ut, F, LogModel(), max_paths=4000)
        loops_u = ut.natural_loops()
        inner_u = [h for h in loops_u if not any(h2 != h and h2 in loops_u[h] for h2 in loops_u)]
        depth = lambda h: sum(1 for h2 in loops_u if h in loops_u[h2])
        inner_u = sorted(inner_u, key=lambda h: -depth(h))[:1]
        n_push = n_skip = 0
        bad_u = []
        for p in pu:
            dst_ = (p.end[1][1] if isinstance(p.end[1], tuple) else p.end[-1]) if (p.end and p.end[0] == "cut" and len(p.end) > 1) else None
            if not (inner_u and dst_ == inner_u[0]):
                continue
            pushes = [e for e in p.events if e[0] == "call" and re.search(r"Vec::<\(.*CharClassID, .*\)>::push$", e[2])]
            if pushes:
                n_push += 1
                continue
            n_skip += 1
            cont = [(c, o) for c, o in p.conds if c[0] == "app" and re.search(r"<impl \[.*\]>::contains$|Vec::<.*>::contains$", str(c[1])) and "transitions" in S.fstr(c[2][0])]
            # (`list.contains(&pair)` or `list.iter().any(|t| *t == pair)`: the last decision says the pair is in the state's list)
            anyeq = [(c, o) for c, o in p.conds if c[0] == "binop" and c[1] == "Eq" and ((c[2][0] == "sym" and str(c[2][1]).startswith("item@") and c[3][0] == "tuple") or (c[3][0] == "sym" and str(c[3][1]).startswith("item@") and c[2][0] == "tuple"))]
            walked = any(e[0] in ("iter-item", "call") and "transitions" in S.fstr(e[3] if e[0] == "iter-item" else (e[3][0] if e[3] else ("unit",))) and "dfa.states" in S.fstr(e[3] if e[0] == "iter-item" else (e[3][0] if e[3] else ("unit",))) for e in p.events)
            if anyeq and anyeq[-1][1] is True and walked and not cont:
                continue
            if not (cont and cont[-1][1] is True and re.search(r"dfa\.states", S.fstr(cont[-1][0][2][0]))):
                bad_u.append("a merged transition is not installed under %s" % [(S.fstr(c)[:70], o) for c, o in p.conds if "Trace" not in S.fstr(c) and "max_level" not in S.fstr(c)][-2:])
        if n_push or n_skip:
            ob("C03.f", "a-merged-transition-is-passed-over-only-if-already-installed", not bad_u and n_push >= 1, "; ".join(bad_u[:2]) or "%d installing path(s), %d path(s) passing over a pair that the state's list already contains" % (n_push, n_skip), ut.loc())
        else:
            ob("C03.f", "a-merged-transition-is-passed-over-only-if-already-installed", False, "the installing loop of update_transitions was not recognised", ut.loc())
    except M.AnchorMissing:
        raise
    rn = F.fn(r"Minimizer::renumber_states_in_transitions$")
    ctx.analysed_fn(rn)
    # every state id stored in the transition list — the source of an entry and each of its targets — is overwritten with the
    # index of the group that contains the id it held (the lookup may be a closure, a helper, position(), a loop: it is analysed
    # in place as the search it is)
    from .common import hit_is_index_of
    ex, paths = run_fn(rn, F, LogModel(), inline=r"ids::StateID::new$|Minimizer::find_group$")     # (a lookup delegated to find_group is the same search)
    both = {"src": False, "tgt": False}
    bad_w = []
    for p in paths:
        for e in p.events:
            if e[0] == "write" and e[2][0] != "local" and not (e[2][0] == "sym" and str(e[2][1]).startswith("__")):
                old_s = S.fstr(e[2]) + "".join("." + str(st[1]) for st in e[3] if st[0] == "f")
                hits = [c for c, o in p.conds if o is True and c[0] == "app" and re.search(r"BTreeSet::<.*>::contains", c[1]) and S.fstr(c[2][1]).lstrip("&*") == old_s and hit_is_index_of(e[4], c)]
                if hits:
                    both["src" if any(st[1] == "0" for st in e[3] if st[0] == "f") else "tgt"] = True
                else:
                    bad_w.append("%s := %s" % (old_s, S.fstr(e[4])[:50]))
    ob("C03.f", "state-renumbered-to-the-index-of-its-group", not bad_w, "writes that are not 'index of the group containing the old id': %s" % bad_w[:3], rn.loc())
    ob("C03.f", "sources-and-targets-renumbered", both["src"] and both["tgt"], "renumbered: %s" % both, rn.loc())
    its = [M.short_name(M.call_name(t)) for f_ in [rn] + list(F.closures_of(rn)) for bb, t in f_.calls(ADAPTERS)]
    ob("C03.f", "every-source-and-target-visited", not its, "iterator adapters that drop or reorder entries: %s" % its, rn.loc())
    mt = F.fn(r"Minimizer::merge_transitions$")
    ctx.analysed_fn(mt)
    ex, paths = run_fn(mt, F, LogModel())
    okm = False
    form = None
    for p in paths:
        for c in p.calls(r"Minimizer::merge_transitions_of_state$"):
            mem, rep = S.fstr(c[3][0]), S.fstr(c[3][1])
            if "item@" in mem and re.search(r"BTreeSet::first\(|::first\(", rep):
                form = "first+skip"         # representative = group.first(); members = group.iter().skip(1)
                okm = True
            elif "item@" in mem and re.search(r"Iterator>::next\(|item@bb\d+", rep) and rep != mem:
                form = "next+rest"          # representative = the first element taken from the group's iterator; members = the rest of it
                okm = True
    sk = [t for bb, t in mt.calls(r"Iterator>::skip$")]
    other = [M.short_name(M.call_name(t)) for bb, t in mt.calls(r"Iterator>::(rev|take|filter|filter_map|step_by|skip_while|take_while|chain|zip)\b")]
    ok_skip = (len(sk) == 1) if form == "first+skip" else (len(sk) == 0)
    ob("C03.f", "every-non-representative-member-is-merged-into-the-representative", okm and ok_skip and not other, "merge_transitions_of_state(member, representative) in the form %s; skip calls: %d; other adapters %s" % (form, len(sk), other), mt.loc())
