from . import cursor
LEVEL = "other"
EXPLANATION = ("Static rules over MIR (path-sensitive abstract interpretation, offset-kind discipline Abs/Rel/Base/Len, "
               "closed writer sets): cursor coupling in set_offset (every repositioning writes char_indices, last_position, "
               "last_char, offset), sole writer + search-directed insertion of line_offsets, consume=>record pairing in "
               "next_match/advance_to/record_line_offset, kind and provenance of every recorded line start, the position() "
               "term table, and WithPositions attaching positions of the start and end offsets. Decides those structural "
               "clauses for all inputs and call histories; it does not compute line/column values of concrete inputs.")
RULES = {"C09.a", "C09.b", "C09.c", "C09.d", "C09.e", "C09.f"}


def check(ctx):
    ctx.assume("set_offset is only called with offsets on character boundaries that were already scanned (property quantifier)")
    # (C10.a: the public iterator and the position adaptor forward `position` / `set_offset` / `next` to the implementation as
    # they are — a wrapper that clamps, caches or filters a queried offset answers for another offset than the one asked)
    cursor.analyze(ctx, RULES | {"C10.a"})
    # the positions WithPositions attaches reach the user as computed: MatchExt / Position constructors store their arguments
    from . import pC06 as _p6
    _p6.data_api_rules(ctx, "C09.e")
    from . import adaptors
    adaptors.analyze(ctx, ("C09.g",))
    # (C06.e: positions are those of the caller's input: the iterator is created over that very string)
    from . import pC06
    pC06.fresh_iterator_rules(ctx)
    from .common import cache_foundation
    cache_foundation(ctx)
