"""Framework: fact extraction (cached by a hash of /repo's sources), obligation bookkeeping,
known-findings handling, evidence writing."""
import fcntl
import hashlib
import json
import os
import subprocess
import sys
import time

VERIF = os.path.dirname(os.path.dirname(os.path.abspath(__file__)))
REPO = os.environ.get("VERIF_REPO", "/repo")
CACHE = os.path.join(VERIF, ".cache")
DRIVER_DIR = os.path.join(VERIF, "driver")
DRIVER_BIN = os.path.join(DRIVER_DIR, "target", "release", "scnr-facts")
EVIDENCE = os.path.join(VERIF, "evidence")
KNOWN = os.path.join(VERIF, "known_findings.json")

CONFIGS = {
    # name -> extra cargo args
    "default": [],
    "rx": ["--no-default-features", "--features", "regex_automata"],
}


def sh(cmd, **kw):
    return subprocess.run(cmd, stdout=subprocess.PIPE, stderr=subprocess.STDOUT, text=True, **kw)


def nightly_sysroot():
    r = sh(["rustc", "+nightly", "--print", "sysroot"])
    return r.stdout.strip().splitlines()[-1]


def source_files(repo=None):
    repo = repo or REPO
    out = []
    for top in ("Cargo.toml", "Cargo.lock", "README.md"):
        p = os.path.join(repo, top)
        if os.path.exists(p):
            out.append(p)
    for root, dirs, files in os.walk(os.path.join(repo, "scnr")):
        dirs[:] = [d for d in dirs if d not in ("target", ".git")]
        for f in sorted(files):
            out.append(os.path.join(root, f))
    return sorted(out)


def source_key(repo=None):
    h = hashlib.sha256()
    for p in source_files(repo):
        h.update(p.encode())
        with open(p, "rb") as fh:
            h.update(hashlib.sha256(fh.read()).digest())
    # the driver's own source is part of the key
    for f in ("main.rs", "json.rs"):
        with open(os.path.join(DRIVER_DIR, "src", f), "rb") as fh:
            h.update(fh.read())
    return h.hexdigest()


def ensure_driver():
    src_m = max(os.path.getmtime(os.path.join(DRIVER_DIR, "src", f)) for f in ("main.rs", "json.rs"))
    if os.path.exists(DRIVER_BIN) and os.path.getmtime(DRIVER_BIN) >= src_m:
        return
    env = dict(os.environ, CARGO_NET_OFFLINE="true")
    r = sh(["cargo", "+nightly", "build", "--release", "--offline"], cwd=DRIVER_DIR, env=env)
    if r.returncode != 0 or not os.path.exists(DRIVER_BIN):
        sys.stderr.write(r.stdout)
        raise RuntimeError("cannot build the fact driver")


def extract_facts(config="default", repo=None, cache=None, force=False, target=None):
    """Returns the path of a fact file that describes the *current* tree of `repo`."""
    repo = repo or REPO
    cache = cache or CACHE
    os.makedirs(cache, exist_ok=True)
    lock = open(os.path.join(cache, ".lock-" + config), "w")
    fcntl.flock(lock, fcntl.LOCK_EX)
    try:
        key = source_key(repo)
        facts = os.path.join(cache, "facts-%s.json" % config)
        keyf = facts + ".key"
        if not force and os.path.exists(facts) and os.path.exists(keyf) and open(keyf).read().strip() == key:
            return facts
        ensure_driver()
        target = target or os.path.join(cache, "target-" + config)
        # cargo's freshness cache would skip the wrapper: drop the fingerprints of scnr.
        fp = os.path.join(target, "debug", ".fingerprint")
        if os.path.isdir(fp):
            for d in os.listdir(fp):
                if d.startswith("scnr-"):
                    subprocess.run(["rm", "-rf", os.path.join(fp, d)])
        nonce = "%s-%d" % (key[:16], int(time.time() * 1000))
        tmp = facts + ".tmp"
        if os.path.exists(tmp):
            os.remove(tmp)
        env = dict(os.environ)
        env.update({
            "CARGO_NET_OFFLINE": "true",
            "LD_LIBRARY_PATH": nightly_sysroot() + "/lib:" + env.get("LD_LIBRARY_PATH", ""),
            "RUSTFLAGS": "-Zmir-opt-level=0 -Awarnings",
            "RUSTC_WORKSPACE_WRAPPER": DRIVER_BIN,
            "CARGO_TARGET_DIR": target,
            "SCNR_FACTS_OUT": tmp,
            "SCNR_FACTS_NONCE": nonce,
        })
        cmd = ["cargo", "+nightly", "check", "--offline", "-p", "scnr", "--lib"] + CONFIGS[config]
        r = sh(cmd, cwd=repo, env=env)
        if r.returncode != 0 or not os.path.exists(tmp):
            sys.stderr.write(r.stdout[-4000:])
            raise RuntimeError("fact extraction failed (config %s): the tree does not compile?" % config)
        with open(tmp) as fh:
            head = fh.read(400)
        if nonce not in head:
            raise RuntimeError("stale fact file (nonce mismatch)")
        os.replace(tmp, facts)
        with open(keyf, "w") as fh:
            fh.write(key)
        return facts
    finally:
        fcntl.flock(lock, fcntl.LOCK_UN)
        lock.close()


# --------------------------------------------------------------------------------------------


class Ctx:
    """Collects obligations of one property check."""

    def __init__(self, prop, tier, facts, repo=None):
        self.prop = prop
        self.tier = tier
        self.facts = facts
        self.repo = repo or REPO
        self.obs = []
        self.samples = []
        self.analysed = []
        self.assumptions = []
        self.trusted = []
        self.notes = []

    def ob(self, rule, key, ok, detail="", loc=""):
        """Record one obligation.  `key` identifies the instance without line numbers."""
        rec = {"rule": rule, "key": key, "ok": bool(ok), "detail": detail, "loc": loc}
        if rec not in self.obs:
            self.obs.append(rec)
        return bool(ok)

    def missing(self, rule, what):
        """Fail closed: an anchor could not be resolved."""
        self.obs.append({"rule": rule, "key": "anchor-missing:" + what, "ok": False,
                         "detail": "anchor missing: " + what, "loc": ""})

    def floor(self, rule, what, count, minimum):
        self.ob(rule, "floor:" + what, count >= minimum,
                "%s: %d instance(s) found, at least %d expected" % (what, count, minimum))

    def sample(self, s):
        if len(self.samples) < 40:
            self.samples.append(s)

    def analysed_fn(self, fn):
        n = fn.name if hasattr(fn, "name") else str(fn)
        if n not in self.analysed:
            self.analysed.append(n)

    def assume(self, s):
        if s not in self.assumptions:
            self.assumptions.append(s)

    def trust(self, s):
        if s not in self.trusted:
            self.trusted.append(s)


_FACTS_CACHE = {}


def run_rules(prop, tier, repo=None, cache=None, target=None):
    """Extract (or reuse) the facts of `repo` and run the rule module of one property.
    Returns (ctx, module) without printing or writing evidence."""
    import importlib
    from . import mirlib
    try:
        mod = importlib.import_module("rules.p" + prop)
    except ModuleNotFoundError:
        return None, None
    facts_path = extract_facts("default", repo=repo, cache=cache, target=target)
    k = (facts_path, os.path.getmtime(facts_path))
    if k not in _FACTS_CACHE:
        _FACTS_CACHE.clear()
        _FACTS_CACHE[k] = mirlib.Facts(facts_path)
    facts = _FACTS_CACHE[k]
    ctx = Ctx(prop, tier, facts, repo=repo)
    try:
        if not hasattr(facts, "twins"):
            from . import common
            mirlib.TWINS = {}
            facts.twins = common.find_twins(facts)
        mirlib.TWINS = dict(facts.twins)
        if facts.twins:
            ctx.sample({"twins_of_known_functions": facts.twins})
        mod.check(ctx)
        # premise of every property: the facts come from the debug profile; debug-only code must be effect-free
        from . import profile
        profile.analyze(ctx, prop + ".z")
    except mirlib.AnchorMissing as e:
        ctx.missing(prop + ".anchor", str(e))
    except Exception as e:  # fail closed: a rule that cannot interpret the code decides nothing
        import traceback
        tb = traceback.extract_tb(e.__traceback__)
        where = "%s:%d" % (os.path.basename(tb[-1].filename), tb[-1].lineno) if tb else "?"
        ctx.missing(prop + ".internal", "rule engine could not interpret the code (%s: %s at %s)" % (type(e).__name__, str(e)[:120], where))
    return ctx, mod


def load_known():
    if not os.path.exists(KNOWN):
        return {"findings": [], "fixed": []}
    with open(KNOWN) as fh:
        return json.load(fh)


def finish(ctx, t0, level="other", explanation="", seed=0):
    """Print the verdict lines, write the evidence file, return the exit code."""
    known = load_known()
    known_keys = {(k["property"], k["rule"], k["key"]): k for k in known.get("findings", [])}
    viol = [o for o in ctx.obs if not o["ok"]]
    new = []
    knownhit = []
    for v in viol:
        k = (ctx.prop, v["rule"], v["key"])
        if k in known_keys:
            knownhit.append((v, known_keys[k]))
        else:
            new.append(v)
    os.makedirs(os.path.join(EVIDENCE, "replay"), exist_ok=True)
    for v, k in knownhit:
        print("KNOWN-FINDING: property=%s rule=%s key=%s %s" % (ctx.prop, v["rule"], v["key"], k.get("what", v["detail"])))
    code = 0
    for n, v in enumerate(new):
        path = os.path.join(EVIDENCE, "replay", "%s-%s-%d.json" % (ctx.prop, v["rule"].replace("/", "_"), n))
        with open(path, "w") as fh:
            json.dump({"property": ctx.prop, **v}, fh, indent=1)
        print("  rule=%s key=%s at %s: %s" % (v["rule"], v["key"], v["loc"], v["detail"]))
        print("VIOLATION property=%s replay=%s" % (ctx.prop, path))
        code = 1
    n_ob = len(ctx.obs)
    n_ok = len([o for o in ctx.obs if o["ok"]])
    rules = sorted({o["rule"] for o in ctx.obs})
    distinct = len({(o["rule"], o["key"]) for o in ctx.obs})
    cov = {
        "explanation": explanation,
        "obligations": n_ob,
        "discharged": n_ok,
        "evaluations": n_ob,
        "distinct_nontrivial": distinct,
        "rule": "one obligation per (rule, instance key) found in the current source of /repo; "
                "distinct = distinct (rule, key) pairs; every obligation is decided from the MIR/type facts "
                "of the type-checked crate, none by executing scnr",
        "rules": rules,
        "functions_analysed": ctx.analysed,
        "samples": ctx.samples[:40] if ctx.samples else [o for o in ctx.obs[:10]],
        "checker_cmd": "./vcheck %s %s" % (ctx.prop, ctx.tier),
        "trusted_base": ctx.trusted,
        "known_findings_hit": [v["key"] for v, _ in knownhit],
        "violations": [{"rule": v["rule"], "key": v["key"], "loc": v["loc"], "detail": v["detail"]} for v in new],
        "notes": ctx.notes,
        "exhaustive": False,
    }
    ev = {
        "property_id": ctx.prop,
        "tier": ctx.tier,
        "seed": seed,
        "level": level,
        "coverage": cov,
        "assumptions": ctx.assumptions,
        "wall_s": round(time.time() - t0, 3),
        "violations": len(new),
    }
    os.makedirs(EVIDENCE, exist_ok=True)
    with open(os.path.join(EVIDENCE, "%s.json" % ctx.prop), "w") as fh:
        json.dump(ev, fh, indent=1)
    print("%s %s: %d obligations, %d discharged, %d known finding(s), %d violation(s) [%d rules, %.1fs]" % (
        ctx.prop, ctx.tier, n_ob, n_ok, len(knownhit), len(new), len(rules), time.time() - t0))
    return code
