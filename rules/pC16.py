from . import serde_rules, sharing
LEVEL = "other"
EXPLANATION = ("Both directions of every configuration/match type are #[derive]d from one field list (impl table from the compiler, no "
               "manual impl); the only helper attributes present are from a symmetric-safe table (skip_serializing_if = Option::is_none "
               "only on Option fields), found by a source-level attribute scan that is cross-checked against the derived code; ids are "
               "integer newtypes and transitions are pairs; the data model extracted from the types matches the README JSON block and "
               "every JSON mode file in the repository; equality is derived field-wise; feature gating is consistent. serde_json's own "
               "escaping and number round-trip is trusted.")
RULES = {"C16.a", "C16.b", "C16.c", "C16.d", "C16.e", "C16.f"}


def check(ctx):
    serde_rules.analyze(ctx, RULES)
    sharing.analyze(ctx, {"C16.e"})
    # the property is observed on scanners obtained through build(): the cache must hand back the configuration's own compilation
    from .common import cache_foundation
    cache_foundation(ctx)
