"""Compile-pass / compile_fail witnesses (thorough tier of C12 and C14): doctests of the witness
crate are compiled (never run: `no_run`) by `cargo +nightly test --doc`; each witness is an
obligation."""
import os
import re
import shutil
import subprocess

from . import framework as fw


def analyze(ctx, rule):
    wdir = os.path.join(fw.VERIF, "witness")
    lock = os.path.join(ctx.repo, "Cargo.lock")
    if os.path.exists(lock):
        shutil.copy(lock, os.path.join(wdir, "Cargo.lock"))
    env = dict(os.environ, CARGO_NET_OFFLINE="true", CARGO_TARGET_DIR=os.path.join(fw.CACHE, "target-witness"))
    r = subprocess.run(["cargo", "+nightly", "test", "--doc", "--offline"], cwd=wdir, env=env, stdout=subprocess.PIPE, stderr=subprocess.STDOUT, text=True)
    tests = re.findall(r"^test (src/lib\.rs - \w+ \(line \d+\)(?: - compile fail| - compile)?) \.\.\. (\w+)", r.stdout, flags=re.M)
    ctx.floor(rule, "witness doctests compiled", len(tests), 8)
    for name, res in tests:
        key = re.sub(r" \(line \d+\)", "", name).replace("src/lib.rs - ", "")
        n = len([o for o in ctx.obs if o["key"].startswith("witness:" + key)])
        ctx.ob(rule, "witness:%s#%d" % (key, n), res == "ok", "%s: %s" % (name, res), "witness/src/lib.rs")
    if r.returncode != 0 and not tests:
        ctx.ob(rule, "witness:build", False, "the witness crate does not build: %s" % r.stdout[-300:], "witness/")
    ctx.trust("rustdoc compile_fail / no_run doctests with error codes (nightly)")
