"""Tiny finite-automata toolkit used by the builder lemmas (C02.a): epsilon-NFA over a small
symbolic alphabet, subset construction, language equivalence, and a regular-expression AST
evaluator to epsilon-NFAs (the textbook reference the builders are compared with)."""
from collections import deque


class ENfa:
    def __init__(self):
        self.eps = {}      # state -> set(states)
        self.tr = {}       # (state, sym) -> set(states)
        self.start = None
        self.ends = set()
        self.n = 0

    def new(self):
        self.n += 1
        return "q%d" % self.n

    def add_eps(self, a, b):
        self.eps.setdefault(a, set()).add(b)

    def add_tr(self, a, sym, b):
        self.tr.setdefault((a, sym), set()).add(b)

    def closure(self, states):
        seen = set(states)
        dq = deque(states)
        while dq:
            s = dq.popleft()
            for t in self.eps.get(s, ()):
                if t not in seen:
                    seen.add(t)
                    dq.append(t)
        return frozenset(seen)

    def alphabet(self):
        return sorted({sym for (_, sym) in self.tr})

    def step(self, S, sym):
        out = set()
        for s in S:
            out |= self.tr.get((s, sym), set())
        return self.closure(out)

    def accepts_set(self, S):
        return bool(S & self.ends)


def equivalent(a, b, alphabet=None):
    """Language equivalence of two epsilon-NFAs; returns (True, None) or (False, witness word)."""
    alpha = sorted(set(alphabet or []) | set(a.alphabet()) | set(b.alphabet()))
    s0 = (a.closure([a.start]), b.closure([b.start]))
    seen = {s0}
    dq = deque([(s0, ())])
    while dq:
        (sa, sb), w = dq.popleft()
        if a.accepts_set(sa) != b.accepts_set(sb):
            return False, w
        for sym in alpha:
            nx = (a.step(sa, sym), b.step(sb, sym))
            if nx not in seen:
                seen.add(nx)
                dq.append((nx, w + (sym,)))
    return True, None


# regular expressions: ("sym", x) ("eps",) ("cat", a, b) ("alt", a, b) ("opt", a) ("plus", a) ("star", a)
def regex_nfa(r):
    n = ENfa()

    def build(r):
        k = r[0]
        s, e = n.new(), n.new()
        if k == "sym":
            n.add_tr(s, r[1], e)
        elif k == "eps":
            n.add_eps(s, e)
        elif k == "cat":
            s1, e1 = build(r[1])
            s2, e2 = build(r[2])
            n.add_eps(s, s1)
            n.add_eps(e1, s2)
            n.add_eps(e2, e)
        elif k == "alt":
            s1, e1 = build(r[1])
            s2, e2 = build(r[2])
            n.add_eps(s, s1)
            n.add_eps(s, s2)
            n.add_eps(e1, e)
            n.add_eps(e2, e)
        elif k == "opt":
            s1, e1 = build(r[1])
            n.add_eps(s, s1)
            n.add_eps(e1, e)
            n.add_eps(s, e)
        elif k == "plus":
            s1, e1 = build(r[1])
            n.add_eps(s, s1)
            n.add_eps(e1, e)
            n.add_eps(e1, s1)
        elif k == "star":
            s1, e1 = build(r[1])
            n.add_eps(s, s1)
            n.add_eps(e1, e)
            n.add_eps(e1, s1)
            n.add_eps(s, e)
        else:
            raise ValueError(k)
        return s, e

    s, e = build(r)
    n.start = s
    n.ends = {e}
    return n


def subst(r, sym, by):
    if r[0] == "sym":
        return by if r[1] == sym else r
    if r[0] == "eps":
        return r
    return (r[0],) + tuple(subst(x, sym, by) for x in r[1:])


def show(r):
    k = r[0]
    if k == "sym":
        return r[1]
    if k == "eps":
        return "ε"
    if k == "cat":
        return "%s·%s" % (show(r[1]), show(r[2]))
    if k == "alt":
        return "(%s|%s)" % (show(r[1]), show(r[2]))
    return "(%s)%s" % (show(r[1]), {"opt": "?", "plus": "+", "star": "*"}[k])
