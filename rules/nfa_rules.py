"""Thompson construction rules (nfa.rs): builder lemmas (C02.a), identity shortcut (C01.g/C02.g),
who-may-call of the low-level mutators and completeness of shift_ids (C02.b)."""
import re

from . import mirlib as M
from . import symex as S
from . import automata as A
from .common import BaseModel, run_fn, ret_paths, heap_writes, field_path, callers_of, is_derived, owners

X0, X1 = ("sym", "x0"), ("sym", "x1")
EXPECTED = {
    "concat": ("cat", X0, X1),
    "alternation": ("alt", X0, X1),
    "zero_or_one": ("opt", X0),
    "one_or_more": ("plus", X0),
    "zero_or_more": ("star", X0),
}


class BuilderModel(BaseModel):
    """Abstract NFA fragment model: new_state yields fresh states, shift_ids yields the operand's
    (start, end), add_epsilon_transition records an edge."""

    def call(self, ex, path, bb, t, args):
        name = M.call_name(t)
        if re.search(r"Nfa::new_state$", name):
            n = len([e for e in path.events if e[0] == "newstate"]) + 1
            s = ("sym", "N%d" % n)
            path.events.append(("newstate", bb, s))
            return [(s, None)]
        if re.search(r"Nfa::shift_ids$", name):
            path.events.append(("shift", bb, args[0], args[1]))
            return [(("tuple", (("sym", "S1"), ("sym", "E1"))), None)]
        if re.search(r"Nfa::add_epsilon_transition$", name):
            path.events.append(("eps", bb, args[1], args[2]))
            return [(("unit",), None)]
        if re.search(r"Nfa::append$", name):
            path.events.append(("append", bb, args[0], args[1]))
            return [(("unit",), None)]
        if re.search(r"Nfa::is_empty$", name):
            return [(("app", "is_empty", (ex.deref_val(path, args[0]),)), None)]
        return BaseModel.call(self, ex, path, bb, t, args)


ID_FIELDS = ("state", "target_state", "start_state", "end_state")


def strip_ids(t):
    """State ids are transparent wrappers around a number: StateID(x) -> x and <place of an id>.0 -> the place, so that
    `StateID::new(s.id() + d)`, `s + d` and `s += d` (the macro-generated arithmetic, analysed in place) read the same."""
    if not isinstance(t, tuple) or not t:
        return t
    if t[0] == "adt" and isinstance(t[1], str) and t[1].startswith("internal::ids::") and len(t) > 3 and len(t[3]) == 1:
        return strip_ids(t[3][0])
    if t[0] == "field" and t[2] == "0" and t[1][0] == "field" and t[1][2] in ID_FIELDS:
        return strip_ids(t[1])
    return tuple(strip_ids(x) if isinstance(x, tuple) else x for x in t)


def canon_state(v):
    s = S.vstr(v)
    if s == "self.start_state":
        return "S0"
    if s == "self.end_state":
        return "E0"
    if s in ("S1", "E1") or re.match(r"N\d+$", s):
        return s
    if s in ("nfa.start_state",):
        return "S1raw"
    if s in ("nfa.end_state",):
        return "E1raw"
    return s


def analyze(ctx, want):
    F = ctx.facts

    def ob(rule, key, ok, detail, loc=""):
        if rule in want:
            ctx.ob(rule, key, ok, detail, loc)

    def sample(rule, obj):
        if rule in want:
            obj = dict(obj)
            obj["rule"] = rule
            ctx.sample(obj)

    ctx.trust("textbook theorem: Thompson's construction composes languages when fragments are single-entry/single-exit, the start state has no incoming and the end state no outgoing edge")

    # ---------------------------------------------------------------- is_empty => language {epsilon}
    ie = F.fn(r"internal::nfa::Nfa::is_empty$")
    ctx.analysed_fn(ie)
    ex, paths = run_fn(ie, F, BaseModel(), inline=r"NfaState::is_empty$")
    n_true = 0
    for p in ret_paths(paths):
        r = p.end[1]
        val = ex.decide(p, r)
        if val is None and r[0] in ("app", "binop"):
            # the last conjunct is returned directly: true under both outcomes is impossible, treat as 'may be true'
            val = True
            conds = p.conds + [(r, True)]
        else:
            conds = p.conds
        if val is not True:
            continue
        n_true += 1
        cs = " && ".join("%s=%s" % (S.vstr(c), o) for c, o in conds)
        def len_of_states(x):
            # Vec::len(&self.states), <[T]>::len(..), or the length a slice pattern `[only]` tests
            return x[0] == "app" and re.search(r"(^|::)len$", str(x[1])) is not None and re.search(r"self\.states\b", S.vstr(x)) is not None
        one_state = any(c[0] == "binop" and c[1] == "Eq" and ((len_of_states(c[2]) and c[3] == ("int", 1)) or (len_of_states(c[3]) and c[2] == ("int", 1))) and o is True for c, o in conds)
        no_tr = any("transitions" in S.vstr(c) and "epsilon" not in S.vstr(c) and "is_empty" in S.vstr(c) and o is True for c, o in conds)
        no_eps = any("epsilon_transitions" in S.vstr(c) and "is_empty" in S.vstr(c) and o is True for c, o in conds)
        ob("C02.g", "is_empty-implies-single-state-without-edges", one_state and no_tr and no_eps,
           "is_empty() is true under [%s]; it must imply exactly one state without transitions and epsilon transitions (language {ε})" % cs, ie.loc())
    if "C02.g" in want:
        ctx.floor("C02.g", "true-paths of Nfa::is_empty", n_true, 1)

    # ---------------------------------------------------------------- builder lemmas
    for bname, expected in EXPECTED.items():
        fn = F.fn(r"internal::nfa::Nfa::%s$" % bname)
        ctx.analysed_fn(fn)
        ex, paths = run_fn(fn, F, BuilderModel(), inline=r"Nfa::(set_start_state|set_end_state)$")
        rp = ret_paths(paths)
        ob("C02.a", "%s:has-return-path" % bname, bool(rp), "%d return paths" % len(rp), fn.loc())
        for p in rp:
            guard = [(c, o) for c, o in p.conds if c[0] == "app" and c[1] == "is_empty"]
            # which operand a passed is_empty() test speaks about: the receiver (x0 = ε) or the argument (x1 = ε)
            empt = set()
            for c_, o_ in guard:
                if o_ is True:
                    a_ = S.vstr(c_[2][0]).lstrip("&*") if len(c_) > 2 and c_[2] else "?"
                    empt.add("self" if a_ == "self" else ("nfa" if a_ == "nfa" else "?"))
            shortcut = "self" in empt or "?" in empt
            shortcut_op = (not shortcut) and "nfa" in empt
            edges = [(canon_state(e[2]), canon_state(e[3])) for e in p.events if e[0] == "eps"]
            ws = {field_path(w[1]): w[2] for w in heap_writes(p) if w[0] == ("sym", "self")}
            start = canon_state(ws["start_state"]) if "start_state" in ws else "S0"
            end = canon_state(ws["end_state"]) if "end_state" in ws else "E0"
            shifted = [e for e in p.events if e[0] == "shift"]
            appended = [e for e in p.events if e[0] == "append"]
            uses_operand = bname in ("concat", "alternation")
            if shortcut:
                # the receiver is the fresh NFA (language {ε}); its states are replaced by the operand's
                start = {"S1raw": "S1", "E1raw": "E1"}.get(start, start)
                end = {"S1raw": "S1", "E1raw": "E1"}.get(end, end)
                took_states = "states" in ws and S.vstr(ws["states"]) == "nfa.states"
                ob("C02.a", "%s:shortcut-takes-operand-states" % bname, took_states, "shortcut writes states := %s" % (S.vstr(ws["states"]) if "states" in ws else None), fn.loc())
            elif uses_operand and not shortcut_op:
                ok_shift = len(shifted) == 1 and S.vstr(shifted[0][3]) == "Vec::len(&self.states)" and len(appended) == 1
                ob("C02.b", "%s:operand-shifted-by-own-state-count-then-appended" % bname, ok_shift,
                   "shift_ids(%s), %d append" % ([S.vstr(e[3]) for e in shifted], len(appended)), fn.loc())
            # build the abstract automaton
            n = A.ENfa()
            n.add_tr("S0", "x0", "E0")
            if uses_operand:
                n.add_tr("S1", "x1", "E1")
            for a, b in edges:
                n.add_eps(a, b)
            n.start = start
            n.ends = {end}
            exp = expected
            if shortcut:
                exp = A.subst(expected, "x0", ("eps",))
                # under the guard the receiver has no edges: x0 = ε and S0 == E0
                n.add_eps("S0", "E0")
                n.add_eps("E0", "S0")
            if shortcut_op:
                # under the guard the argument has no edges: x1 = ε (X·ε = X holds, X|ε = X does not)
                exp = A.subst(expected, "x1", ("eps",))
                n.add_eps("S1", "E1")
                n.add_eps("E1", "S1")
            ok, wit = A.equivalent(n, A.regex_nfa(exp), alphabet=["x0", "x1"] if uses_operand else ["x0"])
            key = "%s:%s" % (bname, "identity-shortcut" if shortcut else ("operand-identity-shortcut" if shortcut_op else "general"))
            detail = "start=%s end=%s ε-edges=%s accepts %s %s" % (start, end, edges, "exactly" if ok else "NOT", A.show(exp))
            if not ok:
                detail += " (differs on the word %s)" % (" ".join(wit) if wit else "ε")
            rule = "C01.g" if (shortcut or shortcut_op) else "C02.a"
            ob(rule, key, ok, detail, fn.loc())
            if shortcut or shortcut_op:
                ob("C02.g", key, ok, detail, fn.loc())
            sample("C02.a", {"builder": bname, "path": "shortcut" if shortcut else "general", "start": start, "end": end, "eps_edges": edges, "language": A.show(exp), "equivalent": ok})
            # fragment invariants preserved: no edge into the final start, none out of the final end
            into_start = [e for e in edges if e[1] == start]
            out_of_end = [e for e in edges if e[0] == end]
            ob("C02.a", "%s:start-has-no-incoming-edge" % bname, not into_start, "edges into the new start: %s" % into_start, fn.loc())
            ob("C02.a", "%s:end-has-no-outgoing-edge" % bname, not out_of_end, "edges out of the new end: %s" % out_of_end, fn.loc())

    # ---------------------------------------------------------------- who may call the low-level mutators (C02.b)
    allowed = {
        r"Nfa::new_state$": r"Nfa::(alternation|zero_or_one|one_or_more|zero_or_more|try_from_ast)$",
        r"Nfa::add_epsilon_transition$": r"Nfa::(concat|alternation|zero_or_one|one_or_more|zero_or_more)$",
        r"Nfa::add_transition$": r"Nfa::try_from_ast$",
        r"Nfa::shift_ids$": r"(Nfa::(concat|alternation)|MultiPatternNfa::try_from_patterns)$",
        r"Nfa::append$": r"Nfa::(concat|alternation)$",
        r"Nfa::add_state$": r"Nfa::new_state$",
        r"Nfa::set_start_state$": r"Nfa::(concat|alternation|zero_or_one|one_or_more|zero_or_more|try_from_ast)$",
        r"Nfa::set_end_state$": r"Nfa::(concat|alternation|zero_or_one|one_or_more|zero_or_more|try_from_ast)$",
    }
    for callee, who in allowed.items():
        cs = callers_of(F, r"internal::nfa::" + callee)
        if "C02.b" in want:
            ctx.floor("C02.b", "callers of " + callee.strip("$"), len(cs), 1)
        for fn, bb, t in cs:
            ok = re.search(who, fn.name) is not None
            ob("C02.b", "caller:%s<-%s" % (callee.strip("$"), M.short_name(fn.name)), ok,
               "%s is called from %s%s" % (callee.strip("$"), fn.name, "" if ok else " (not one of the builders)"), fn.loc(bb))
    # direct writes of the state graph fields outside the builders
    for adt, fld, who in (("Nfa", "states", r"Nfa::(add_state|add_transition|add_epsilon_transition|shift_ids|append|concat|alternation|try_from_ast|new)$"),
                          ("Nfa", "start_state", r"Nfa::(set_start_state|shift_ids|new|concat|alternation|zero_or_one|one_or_more|zero_or_more|try_from_ast)$"),
                          ("Nfa", "end_state", r"Nfa::(set_end_state|shift_ids|new|concat|alternation|zero_or_one|one_or_more|zero_or_more|try_from_ast)$"),
                          ("NfaState", "transitions", r"(NfaState::offset|Nfa::add_transition)$"),
                          ("NfaState", "epsilon_transitions", r"(NfaState::offset|Nfa::add_epsilon_transition)$")):
        for fn0 in F.fns.values():
            if is_derived(fn0):
                continue
            dw = F.direct_writes(fn0)
            for (a, f_), sites in dw.items():
                if f_ == fld and a.endswith("::" + adt):
                    for fn, b2 in owners(F, fn0):
                        ok = re.search(who, fn.name) is not None
                        ob("C02.b", "writer:%s.%s<-%s" % (adt, fld, M.short_name(fn.name)), ok, "%s writes %s.%s" % (fn.name, adt, fld), fn.loc(b2 if b2 is not None else sites[0][0]))
    # shift_ids offsets every state id
    so = F.fn(r"internal::nfa::NfaState::offset$")
    ctx.analysed_fn(so)
    w = {"%s.%s" % (a.split("::")[-1], f_) for fn_ in [so] + list(F.closures_of(so)) for (a, f_) in F.direct_writes(fn_)}   # (closures written in the function included)
    need = {"NfaState.state", "NfaTransition.target_state", "EpsilonTransition.target_state"}
    ob("C02.b", "NfaState::offset-shifts-every-id-field", need <= w, "fields written by NfaState::offset: %s (every StateID of a state: its own id, transition targets, epsilon targets)" % sorted(w), so.loc())
    # every StateID-typed field of the three types is covered
    idf = set()
    for tn in ("internal::nfa::NfaState", "internal::nfa::NfaTransition", "internal::nfa::EpsilonTransition"):
        a_ = F.adts.get(tn)
        if a_:
            for f_ in a_["variants"][0]["fields"]:
                if f_["ty"]["s"] == "internal::ids::StateID":
                    idf.add("%s.%s" % (tn.split("::")[-1], f_["name"]))
    ob("C02.b", "NfaState::offset-covers-all-StateID-fields", idf <= w and bool(idf), "StateID fields %s, written %s" % (sorted(idf), sorted(w)), so.loc())
    ex, paths = run_fn(so, F, BaseModel())
    adds = set()
    for p in paths:
        for e in p.events:
            if e[0] == "write" and e[2][0] != "local" and not (e[2][0] == "sym" and str(e[2][1]).startswith("__")):
                v = strip_ids(e[4])
                fp = re.sub(r"\.0$", "", field_path(e[3]))
                # new value = StateID::new(old id + offset)
                lin, c = S.linear(v)
                adds.add((fp.split(".")[-1], any(S.vstr(a_) == "(offset as u32)" or "offset" in S.vstr(a_) for a_ in lin) and len(lin) == 2 and c == 0))
    ob("C02.b", "NfaState::offset-adds-the-offset", bool(adds) and all(ok for _, ok in adds), "writes: %s" % sorted(adds), so.loc())
    sh = F.fn(r"internal::nfa::Nfa::shift_ids$")
    ctx.analysed_fn(sh)
    ex, paths = run_fn(sh, F, BaseModel())
    for p in ret_paths(paths):
        ws = {re.sub(r"\.0$", "", field_path(w_[1])): strip_ids(w_[2]) for w_ in heap_writes(p) if w_[0] == ("sym", "self")}
        ok = "start_state" in ws and "end_state" in ws
        if ok:
            for f_ in ("start_state", "end_state"):
                lin, c = S.linear(ws[f_])
                ok = ok and len(lin) == 2 and c == 0 and any("offset" in S.vstr(a_) for a_ in lin) and any(S.vstr(a_) == "self." + f_ for a_ in lin)
        ob("C02.b", "shift_ids-shifts-start-and-end", ok, "start/end := %s" % {k: S.vstr(v) for k, v in ws.items()}, sh.loc())
        r = p.end[1]
        rn = strip_ids(r)
        # the shifted values, or the two fields read back after they were shifted in place
        ok_r = rn[0] == "tuple" and len(rn[1]) == 2 and ((rn[1][0] == ws.get("start_state") and rn[1][1] == ws.get("end_state"))
                                                          or (S.fstr(rn) == "(self.start_state, self.end_state)" and "start_state" in ws and "end_state" in ws))
        ob("C02.b", "shift_ids-returns-shifted-start-and-end", ok_r, "returns %s" % S.vstr(r), sh.loc())
    # every state is shifted: the loop ranges over all states
    calls = [M.call_name(t) for bb, t in sh.calls()]
    adapters = [c for c in calls if re.search(r"Iterator>::(skip|take|filter|step_by|rev|skip_while|take_while)", c)]
    calls_all = calls + [M.call_name(t) for c_ in F.closures_of(sh) for bb, t in c_.calls()]
    ob("C02.b", "shift_ids-visits-every-state", any(re.search(r"iter_mut$", c) for c in calls) and not adapters and any(re.search(r"NfaState::offset$", c) for c in calls_all),
       "calls in shift_ids: %s" % [M.short_name(c) for c in calls], sh.loc())
    ap = F.fn(r"internal::nfa::Nfa::append$")
    ex, paths = run_fn(ap, F, BaseModel())
    okap = False
    for p in paths:
        # `self.states.append(&mut nfa.states)` / `self.states.extend(nfa.states)` / `extend_from_slice(&nfa.states)`: the operand's
        # whole state vector, in order, behind the receiver's
        for c in p.calls(r"Vec::<.*NfaState>::(append|extend_from_slice)$|iter::Extend<.*NfaState>>::extend(::<.*>)?$"):
            def plain(v):
                t_ = S.vstr(v)
                while True:
                    t2 = re.sub(r"^(&|mut:|\*)+", "", t_)
                    t2 = re.sub(r"^(?:AsMut>::as_mut|AsRef>::as_ref|Vec::as_mut_slice|Vec::as_slice|DerefMut>::deref_mut|Deref>::deref)\((.*)\)$", r"\1", t2)
                    if t2 == t_:
                        return t_
                    t_ = t2
            okap = plain(c[3][0]) == "self.states" and plain(c[3][1]) == "nfa.states"
    ob("C02.b", "append-moves-all-operand-states", okap, "Vec::append(self.states, nfa.states)", ap.loc())
    ns = F.fn(r"internal::nfa::Nfa::new_state$")
    ex, paths = run_fn(ns, F, BaseModel(), inline=r"Nfa::add_state$|NfaState::new$|ids::StateID::new$")
    for p in ret_paths(paths):
        r = p.end[1]
        ok = "Vec::len(&self.states)" in S.vstr(r)
        pushes = p.calls(r"Vec::<.*NfaState>::push$")
        ok2 = len(pushes) == 1 and S.mentions(pushes[0][3][1], lambda x: x == r or (x[0] == "cast" and x[2] == r)) or (len(pushes) == 1 and S.vstr(r) in S.vstr(pushes[0][3][1]))
        ob("C02.b", "new_state-id-is-index-of-pushed-state", ok and bool(ok2), "returns %s, pushes %s" % (S.vstr(r), [S.vstr(x[3][1]) for x in pushes]), ns.loc())
