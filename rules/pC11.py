from . import cursor
LEVEL = "other"
EXPLANATION = ("Effect purity of the peek path (transitive field-write summary + per-path heap writes), sibling agreement of "
               "peek_n with next_match (same retry-by-one-char protocol on a cloned cursor, same haystack/cursor contract, same "
               "offset shift exactly once), transition lookup keyed by the pushed match and not entered, decision order of the "
               "result classification; all by path-sensitive abstract interpretation of the MIR.")
RULES = {"C11.a", "C11.b", "C11.c", "C11.d", "C11.e"}


def check(ctx):
    # peek_n runs on a clone of the real cursor and next() on the cursor itself: they agree only while the cursor's fields
    # describe one position (C09.a: repositioning resets all of them; C10.b: reset totality)
    # ... and only if both hand the automaton the same view of the input: the rest of the input from the own offset, with
    # a clone of the own cursor (C04.c: the contract of next_match and of peek_n, each checked against the same reference)
    # (C10.a: the public iterator forwards next / peek_n / set_offset to the implementation as they are — a wrapper that
    # latches, caches or filters makes the two disagree although the implementation's siblings agree)
    cursor.analyze(ctx, RULES | {"C09.a", "C10.b", "C04.c", "C10.a"})
    # the mode switch a peek reports is decided by the same transition lookup next() uses
    from . import pC06
    pC06.transition_lookup_rules(ctx)
    # ... and next() switches exactly when that lookup says so (one lookup, in the current mode, keyed by the match)
    pC06.mode_switch_rules(ctx)
    from .common import cache_foundation
    cache_foundation(ctx)
