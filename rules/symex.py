"""symex: path-sensitive abstract interpretation of one MIR body (or an acyclic region of it).

Values are symbolic terms; branches whose condition is not decided by the abstract state fork,
and the decision is recorded as an *assumption* (term -> outcome) so that later tests of the
same term are consistent on that path.  No solver is involved and nothing is executed
concretely: rules inspect, per path, the assumptions (a valuation of the atoms the code
branches on), the calls made, the writes performed and the value returned, and compare them
with a table.  Loops are handled by cutting the back edges the caller names (the region is
then acyclic) or by a visit bound.

Value forms (tuples):
  ("int", n) ("bool", b) ("const", text) ("unit",)
  ("sym", name)                         opaque input
  ("adt", path, variant, fields)        known aggregate (Option::Some(x) ...)
  ("tuple", fields)
  ("ref", loc) with loc = ("loc", root, path); root = ("local", n) | value
  ("app", fname, args)                  uninterpreted pure application
  ("field", v, name) ("downcast", v, variant) ("index", v, i) ("deref", v)
  ("add", a, b) ("sub", a, b) ("binop", op, a, b) ("not", v) ("cmp", a, b) ("discr", v)
  ("isvar", v, variant)                 bool: v is in `variant`
  ("cast", to, v) ("closure", key, caps) ("havoc", tag)
"""
import re

from . import mirlib as M

MAX_PATHS = 20000


class Path:
    __slots__ = ("locals", "heap", "assume", "events", "conds", "end", "visits", "trace")

    def __init__(self):
        self.locals = {}
        self.heap = {}
        self.assume = {}
        self.events = []
        self.conds = []
        self.end = None
        self.visits = {}
        self.trace = []

    def fork(self):
        p = Path()
        p.locals = dict(self.locals)
        p.heap = dict(self.heap)
        p.assume = dict(self.assume)
        p.events = list(self.events)
        p.conds = list(self.conds)
        p.visits = dict(self.visits)
        p.trace = list(self.trace)
        return p

    # -- queries used by rules
    def calls(self, pattern):
        rx = re.compile(pattern)
        from .mirlib import strip_own_generics
        return [e for e in self.events if e[0] == "call" and (rx.search(e[2]) or rx.search(strip_own_generics(e[2])))]

    def writes(self):
        return [e for e in self.events if e[0] == "write"]


IDENTITY_CALLS = re.compile(
    r"(::clone::Clone>::clone$|::ops::Deref>::deref$|::ops::DerefMut>::deref_mut$|::IntoIterator>::into_iter$"
    r"|::convert::Into<.*>>::into$|::convert::From<.*>>::from$|::convert::AsRef<.*>>::as_ref$"
    r"|ids::\w+::(new|as_usize|id)$|::borrow::Borrow<.*>>::borrow$|Option::<.*>::as_ref$|Option::<.*>::as_mut$"
    r"|Option::<.*>::copied$|Option::<.*>::cloned$|::iter::Iterator>::by_ref$|<impl \[.*\]>::iter$|Vec::<.*>::as_slice$"
    r"|Box::<.*>::new$|::as_str$|std::string::ToString>::to_string$|Arc::<.*>::new$)")


def is_const(v):
    return v[0] in ("int", "bool", "const", "unit")


_MAXD = [7]


def fstr(v):
    """vstr without depth truncation (for structural string tests)."""
    old = _MAXD[0]
    _MAXD[0] = 60
    try:
        return vstr(v)
    finally:
        _MAXD[0] = old


def vstr(v, d=0):
    if not isinstance(v, tuple) or not v:
        return str(v)
    if d > _MAXD[0]:
        return "…"
    k = v[0]
    if k in ("int", "bool"):
        return str(v[1])
    if k == "const":
        return str(v[1])
    if k == "sym":
        return v[1]
    if k == "adt":
        return "%s(%s)" % (v[2], ", ".join(vstr(x, d + 1) for x in v[3]))
    if k == "tuple":
        return "(%s)" % ", ".join(vstr(x, d + 1) for x in v[1])
    if k in ("array", "vec"):
        return "%s[%s]" % ("vec!" if k == "vec" else "", ", ".join(vstr(x, d + 1) for x in v[1]))
    if k == "upd":
        return "%s{%s:=%s}" % (vstr(v[1], d + 1), ".".join(str(st[1]) for st in v[2]), vstr(v[3], d + 1))
    if k == "ref":
        if len(v) > 3:
            return "&" + vstr(v[3], d + 1)
        return "&" + vstr(v[1], d + 1)
    if k == "loc":
        r = v[1]
        s = ("_%d" % r[2]) if r[0] == "local" else vstr(r, d + 1)
        for st in v[2]:
            s += ".%s" % (vstr(st[1], d + 1) if isinstance(st[1], tuple) else st[1])
        return s
    if k == "app":
        return "%s(%s)" % (M.short_name(v[1]), ", ".join(vstr(x, d + 1) for x in v[2]))
    if k == "field":
        return "%s.%s" % (vstr(v[1], d + 1), v[2])
    if k == "downcast":
        return "(%s as %s)" % (vstr(v[1], d + 1), v[2])
    if k == "index":
        return "%s[%s]" % (vstr(v[1], d + 1), vstr(v[2], d + 1))
    if k == "deref":
        return "*" + vstr(v[1], d + 1)
    if k in ("add", "sub"):
        return "(%s %s %s)" % (vstr(v[1], d + 1), "+" if k == "add" else "-", vstr(v[2], d + 1))
    if k == "binop":
        return "(%s %s %s)" % (vstr(v[2], d + 1), v[1], vstr(v[3], d + 1))
    if k == "not":
        return "!" + vstr(v[1], d + 1)
    if k == "cmp":
        return "cmp(%s, %s)" % (vstr(v[1], d + 1), vstr(v[2], d + 1))
    if k == "discr":
        return "discr(%s)" % vstr(v[1], d + 1)
    if k == "isvar":
        return "is_%s(%s)" % (v[2], vstr(v[1], d + 1))
    if k == "cast":
        return "(%s as %s)" % (vstr(v[2], d + 1), v[1])
    if k == "closure":
        return "closure#%s" % v[1].split("::")[-1]
    if k == "boxptr":
        return "box(%s)" % vstr(v[1], d + 1)
    return str(v)


def subterms(v):
    """Every sub-term of a value (pre-order)."""
    st = [v]
    while st:
        x = st.pop()
        if not isinstance(x, tuple) or not x:
            continue
        if isinstance(x[0], str):
            yield x
        for y in x[1:] if isinstance(x[0], str) else x:
            if isinstance(y, tuple):
                st.append(y)


def step_names(v):
    """Field names occurring in the location paths of references inside a term."""
    out = []
    for x in subterms(v):
        if x[0] == "loc":
            for st in x[2]:
                if st[0] == "f":
                    out.append(st[1])
        elif x[0] == "field":
            out.append(x[2])
    return out


def mentions(v, pred):
    return any(pred(x) for x in subterms(v))


def linear(v):
    """Linear form of an integer term: ({atom: coef}, const)."""
    if v[0] == "int":
        return {}, v[1]
    if v[0] in ("add", "sub"):
        a, ca = linear(v[1])
        b, cb = linear(v[2])
        sgn = 1 if v[0] == "add" else -1
        out = dict(a)
        for k, c in b.items():
            out[k] = out.get(k, 0) + sgn * c
            if out[k] == 0:
                del out[k]
        return out, ca + sgn * cb
    if v[0] == "cast":
        return linear(v[2])
    return {v: 1}, 0


def lin_diff(a, b):
    """Linear form of a - b."""
    return linear(("sub", a, b))


_VOCAB = None


_TVOCAB = None
KEEP_AS_ADT = set()     # filled when facts are loaded (mirlib.Facts): unknown structs with a hand-written Display


def is_unknown_struct(path):
    """A type of the crate (not std, not a dependency) that is not in rules/vocabulary_types.txt."""
    global _TVOCAB
    path = str(path or "").split("<")[0]
    if not path or not path.startswith(("internal::", "scanner", "pattern::", "find_matches", "match_type::", "span::", "position::", "with_positions::", "errors::")):
        return False
    if _TVOCAB is None:
        import os
        try:
            with open(os.path.join(os.path.dirname(__file__), "vocabulary_types.txt")) as fh:
                _TVOCAB = set(l.strip() for l in fh if l.strip())
        except OSError:
            _TVOCAB = set()
    if not _TVOCAB:
        return False
    if path in KEEP_AS_ADT:
        return False        # a new type with its own Display: rules look its Display up by the type (node names, labels)
    return path not in _TVOCAB and "span::Span" != path and "with_positions::WithPositions" != path


def vocabulary():
    """Names of the crate's functions the rules were written against (rules/vocabulary.txt).  A function that is not in
    this inventory is a helper somebody introduced later: the rules know nothing about it by name, so its body is analysed
    as part of its callers (inlined), exactly as if the code had been written in place."""
    global _VOCAB
    if _VOCAB is None:
        import os
        try:
            with open(os.path.join(os.path.dirname(__file__), "vocabulary.txt")) as fh:
                _VOCAB = set(l.rstrip("\n") for l in fh if l.strip())
        except OSError:
            _VOCAB = set()
    return _VOCAB


def is_unknown_helper(fn):
    return fn.kind != "Closure" and fn.name not in vocabulary()


# transparent arithmetic of the id newtypes (macro generated): always analysed in place
ALWAYS_INLINE = r"^<internal::ids::\w+ as std::ops::(Add|AddAssign)<\w+>>::(add|add_assign)$"


def self_ty_of(it):
    """name of the innermost call an iterator value is built from (e.g. `<impl [T]>::iter`), '' if unknown"""
    n = 0
    while isinstance(it, tuple) and it and it[0] == "app" and it[2] and n < 8:
        nm = str(it[1])
        if not re.search(r"iter::Iterator>::", nm):
            return nm
        it = it[2][0]
        n += 1
    return ""


def find_index_loops(fn, worklists=False):
    """Counting loops over a collection: `let mut i = 0; while i < v.len() { .. v[i] ..; i += 1 }`.
    {header bb: {"counter": local, "coll": place json of v}} for loops with exactly this shape: the counter has one definition
    outside the loop and one inside, `i = i + 1`, in a block that dominates every back edge; a guard `i < len(v)` inside the
    loop whose false edge leaves the loop.  The engine analyses such a loop like `for item in v` (counter = index@bbH,
    v[counter] = item@bbH); anything that deviates from the shape is left alone."""
    cached = getattr(fn, "_index_loops_w" if worklists else "_index_loops", None)
    if cached is not None:
        return cached
    out = {}
    try:
        loops = fn.natural_loops()
        defs = fn.defs()
        backs = fn.back_edges()
        for h, body in loops.items():
            srcs = [a for a, b in backs if b == h]
            for i, ds in defs.items():
                if i >= len(fn.locals) or fn.locals[i]["ty"] != "usize":
                    continue
                if any(d["kind"] == "borrow_mut" for d in ds):
                    continue
                full = [d for d in ds if not d["partial"]]
                if len(full) != 2 or len(ds) != 2:
                    continue
                ins = [d for d in full if d["bb"] in body]
                outs = [d for d in full if d["bb"] not in body]
                if len(ins) != 1 or len(outs) != 1 or ins[0]["kind"] != "assign" or outs[0]["kind"] != "assign":
                    continue
                rv = ins[0]["stmt"]["rv"]
                ok_inc = False
                if rv["k"] == "use" and rv["op"]["k"] in ("copy", "move") and len(rv["op"]["p"]["pj"]) == 1 and rv["op"]["p"]["pj"][0]["k"] == "field" and rv["op"]["p"]["pj"][0]["i"] == 0:
                    d2 = fn.single_def(rv["op"]["p"]["l"])
                    if d2 and d2["kind"] == "assign" and d2["stmt"]["rv"]["k"] == "binop" and d2["stmt"]["rv"]["op"] in ("AddWithOverflow", "Add"):
                        a, b = d2["stmt"]["rv"]["a"], d2["stmt"]["rv"]["b"]
                        ok_inc = a["k"] in ("copy", "move") and a["p"]["l"] == i and not a["p"]["pj"] and b["k"] == "const" and str(b.get("val", b.get("s", ""))).split("_")[0] in ("1",)
                elif rv["k"] == "binop" and rv["op"] == "Add":
                    a, b = rv["a"], rv["b"]
                    ok_inc = a["k"] in ("copy", "move") and a["p"]["l"] == i and not a["p"]["pj"] and b["k"] == "const" and str(b.get("val", b.get("s", ""))).split("_")[0] in ("1",)
                if not ok_inc or not all(fn.dominates(ins[0]["bb"], s_) for s_ in srcs):
                    continue
                # the guard
                coll = None
                for g in sorted(body):
                    t = fn.term(g)
                    if t["k"] != "switch" or t.get("discr_ty") != "bool":
                        continue
                    dl = t["discr"]["p"]["l"] if t["discr"].get("k") in ("copy", "move") and not t["discr"]["p"]["pj"] else None
                    dd = fn.single_def(dl) if dl is not None else None
                    if not (dd and dd["kind"] == "assign" and dd["stmt"]["rv"]["k"] == "binop" and dd["stmt"]["rv"]["op"] == "Lt"):
                        continue
                    a, b = dd["stmt"]["rv"]["a"], dd["stmt"]["rv"]["b"]
                    if a["k"] not in ("copy", "move") or b["k"] not in ("copy", "move") or a["p"]["pj"] or b["p"]["pj"]:
                        continue
                    da = fn.single_def(a["p"]["l"])
                    is_i = a["p"]["l"] == i or (da and da["kind"] == "assign" and da["stmt"]["rv"]["k"] == "use" and da["stmt"]["rv"]["op"]["k"] in ("copy", "move") and da["stmt"]["rv"]["op"]["p"]["l"] == i and not da["stmt"]["rv"]["op"]["p"]["pj"])
                    db = fn.single_def(b["p"]["l"])
                    if not is_i or not db:
                        continue
                    # false edge leaves the loop, true edge stays
                    false_t = [tb for v_, tb in t["targets"] if v_ == 0]
                    true_t = t["otherwise"] if false_t else None
                    if not false_t or false_t[0] in body or true_t not in body:
                        continue
                    if not all(fn.dominates(g, x) for x in body if x not in (h,) and not fn.dominates(x, g)):
                        continue
                    cplace = None
                    if db["kind"] == "call" and re.search(r"Vec::<.*>::len$|<impl \[.*\]>::len$" + (r"|::len$" if worklists else ""), M.call_name(db["term"])) and db["term"]["args"] and db["term"]["args"][0].get("k") in ("copy", "move"):
                        dr = fn.single_def(db["term"]["args"][0]["p"]["l"])
                        if dr and dr["kind"] == "assign" and dr["stmt"]["rv"]["k"] == "ref":
                            cplace = dr["stmt"]["rv"]["p"]
                    elif db["kind"] == "assign" and db["stmt"]["rv"]["k"] in ("len",) :
                        cplace = db["stmt"]["rv"].get("p")
                    elif db["kind"] == "assign" and db["stmt"]["rv"]["k"] == "unop" and db["stmt"]["rv"]["op"] == "PtrMetadata" and db["stmt"]["rv"]["a"].get("k") in ("copy", "move"):
                        cplace = db["stmt"]["rv"]["a"]["p"]
                    if cplace is not None:
                        coll = cplace
                        break
                if coll is not None:
                    # a collection that is changed inside the loop (a work list that grows while it is processed) is not a
                    # plain walk over its elements
                    mutated = False
                    for x in body:
                        for st in fn.blocks[x]["stmts"]:
                            if st["k"] == "assign":
                                rv_ = st["rv"]
                                if rv_["k"] in ("ref", "rawptr") and rv_.get("mut") and rv_["p"]["l"] == coll["l"] and [e_.get("k") for e_ in rv_["p"]["pj"]][:len(coll["pj"])] == [e_.get("k") for e_ in coll["pj"]]:
                                    mutated = True
                                if st["p"]["l"] == coll["l"] and coll["l"] >= 1:
                                    mutated = True
                    if not mutated:
                        out[h] = {"counter": i, "coll": coll, "inc_bb": ins[0]["bb"]}
                    elif worklists:
                        # a work list processed by position: `while done < list.len() { let cur = id(done); done += 1; .. list grows .. }`
                        out[h] = {"counter": i, "coll": coll, "inc_bb": ins[0]["bb"], "worklist": True}
                    break
    except Exception:
        out = {}
    setattr(fn, "_index_loops_w" if worklists else "_index_loops", out)
    return out


def find_slice_cursor_loops(fn):
    """Loops that walk a slice with a shrinking cursor: `let mut rest = v.as_slice(); while let Some((item, tail)) =
    rest.split_first() { ..; rest = tail; }`.  {bb of the split_first call: {"header": h, "rest": local}} for loops of exactly
    this shape (the cursor has one definition outside the loop and one inside, `rest = tail` of this very call, in a block that
    dominates every back edge).  Analysed like `for item in v`."""
    cached = getattr(fn, "_slice_cursor_loops", None)
    if cached is not None:
        return cached
    out = {}
    try:
        loops = fn.natural_loops()
        defs = fn.defs()
        backs = fn.back_edges()

        def origin(l, depth=0):
            # follow reborrows / copies back to a user local
            d = fn.single_def(l)
            if depth > 4 or d is None or d["kind"] != "assign":
                return l
            rv = d["stmt"]["rv"]
            if rv["k"] == "ref" and [e["k"] for e in rv["p"]["pj"]] == ["deref"]:
                return origin(rv["p"]["l"], depth + 1)
            if rv["k"] == "use" and rv["op"].get("k") in ("copy", "move") and not rv["op"]["p"]["pj"]:
                return origin(rv["op"]["p"]["l"], depth + 1)
            return l
        for h, body in loops.items():
            srcs = [a for a, b in backs if b == h]
            for c in sorted(body):
                t = fn.term(c)
                if t["k"] != "call" or not re.search(r"<impl \[.*\]>::split_first$", M.call_name(t)) or not t["args"] or t["args"][0].get("k") not in ("copy", "move"):
                    continue
                rest = origin(t["args"][0]["p"]["l"])
                ds = defs.get(rest, [])
                full = [d for d in ds if not d["partial"]]
                if len(full) != 2 or any(d["kind"] == "borrow_mut" for d in ds):
                    continue
                ins = [d for d in full if d["bb"] in body]
                if len(ins) != 1 or ins[0]["kind"] != "assign":
                    continue
                rv = ins[0]["stmt"]["rv"]
                tl = None
                if rv["k"] == "ref" and [e["k"] for e in rv["p"]["pj"]] == ["deref"]:
                    tl = rv["p"]["l"]
                elif rv["k"] == "use" and rv["op"].get("k") in ("copy", "move") and not rv["op"]["p"]["pj"]:
                    tl = rv["op"]["p"]["l"]
                if tl is None:
                    continue
                # tail = (R as Some).0.1 of this call
                n_ = 0
                ok_tail = False
                while n_ < 4:
                    n_ += 1
                    d = fn.single_def(tl)
                    if d is None or d["kind"] != "assign":
                        break
                    r2 = d["stmt"]["rv"]
                    if r2["k"] == "use" and r2["op"].get("k") in ("copy", "move"):
                        pj = r2["op"]["p"]["pj"]
                        if [e["k"] for e in pj] == ["downcast", "field", "field"] and pj[1]["i"] == 0 and pj[2]["i"] == 1 and r2["op"]["p"]["l"] == t["dest"]["l"]:
                            ok_tail = True
                            break
                        if not pj:
                            tl = r2["op"]["p"]["l"]
                            continue
                    if r2["k"] == "ref" and [e["k"] for e in r2["p"]["pj"]] == ["deref"]:
                        tl = r2["p"]["l"]
                        continue
                    break
                if not ok_tail:
                    continue
                if not all(fn.dominates(c, s_) and fn.dominates(ins[0]["bb"], s_) for s_ in srcs):
                    continue
                out[c] = {"header": h, "rest": rest}
    except Exception:
        out = {}
    fn._slice_cursor_loops = out
    return out


_CMP_COMPLEMENT = {"Eq": "Ne", "Ne": "Eq", "Lt": "Ge", "Ge": "Lt", "Le": "Gt", "Gt": "Le"}
_CMP_SWAP = {"Eq": "Eq", "Ne": "Ne", "Lt": "Gt", "Gt": "Lt", "Le": "Ge", "Ge": "Le"}


class Engine:
    _next_frame = [0]

    skip_debug_only = True

    def __init__(self, fn, facts=None, model=None, cut_edges=(), stop_blocks=(), visit_limit=1,
                 max_paths=MAX_PATHS, opaque_calls=True, depth=0, inline=None, max_depth=5, stack=(), desugar=None, worklist_counters=False):
        Engine._next_frame[0] += 1
        self.fid = Engine._next_frame[0]
        self.depth = depth
        self.stack = tuple(stack) + (fn.name,)
        self.desugar = desugar
        self.inline = inline
        self.worklist_counters = worklist_counters
        self.index_loops = find_index_loops(fn, worklists=worklist_counters) if facts is not None else {}
        self.slice_cursors = find_slice_cursor_loops(fn) if facts is not None else {}
        self.max_depth = max_depth
        self.fn = fn
        self.facts = facts
        self.model = model
        self.cut = set(cut_edges)
        self.stop = set(stop_blocks)
        self.visit_limit = visit_limit
        self.max_paths = max_paths
        self.truncated = False

    # ---- places -------------------------------------------------------------------------
    def loc_of_place(self, path, p):
        """Resolve a place to a location ("loc", root, steps)."""
        root = ("local", self.fid, p["l"])
        steps = ()
        for e in p["pj"]:
            k = e["k"]
            if k == "deref":
                cur = self.read_loc(path, ("loc", root, steps))
                if cur[0] == "ref":
                    root, steps = cur[1][1], cur[1][2]
                elif cur[0] == "boxptr":
                    root, steps = cur[1], ()
                else:
                    # pointer to an opaque object: the object itself becomes the root
                    root, steps = ("deref", cur) if cur[0] != "sym" else cur, ()
            elif k == "field":
                # a struct of the crate that the rules have never heard of (introduced later to carry a few values around) is a
                # tuple with names: its fields are addressed by position
                fname = e.get("n", str(e["i"]))
                if is_unknown_struct(e.get("adt", "")):
                    fname = str(e["i"])
                steps = steps + (("f", fname, e["i"], e.get("adt", "")),)
            elif k == "downcast":
                steps = steps + (("d", e.get("n", str(e["i"]))),)
            elif k == "index":
                steps = steps + (("i", path.locals.get((self.fid, e["l"]), ("sym", "_%d" % e["l"]))),)
            elif k == "cidx":
                steps = steps + (("i", ("int", e["off"])),)
            else:
                steps = steps + (("x", k),)
        return ("loc", root, steps)

    def read_loc(self, path, loc):
        _, root, steps = loc
        if root[0] == "local":
            base = path.locals.get((root[1], root[2]), ("sym", "_%d" % root[2]))
            v = base
            consumed = ()
            for st in steps:
                v = self.project(path, v, st, ("loc", root, consumed))
                consumed = consumed + (st,)
            return v
        # heap object
        key = (root, steps)
        if key in path.heap:
            return path.heap[key]
        # a written prefix?
        for n in range(len(steps) - 1, -1, -1):
            k2 = (root, steps[:n])
            if k2 in path.heap:
                v = path.heap[k2]
                for st in steps[n:]:
                    v = self.project(path, v, st, None)
                return v
        v = root
        for st in steps:
            v = self.project(path, v, st, None)
        return v

    def project(self, path, v, st, loc):
        k = st[0]
        if v[0] == "upd":
            # functional update of an opaque value: look through it
            _, base, usteps, uval = v
            if usteps and usteps[0][:2] == st[:2]:
                if len(usteps) == 1:
                    return uval
                return ("upd", self.project(path, base, st, None), usteps[1:], uval)
            if k != "d":
                return self.project(path, base, st, None)
        if k == "f":
            name, idx = st[1], st[2]
            adt = st[3] if len(st) > 3 else ""
            # Box<T> is modelled by its content: Box.0 / Unique.pointer / NonNull.pointer are the
            # pointer to that content
            if adt in ("std::boxed::Box",) and idx == 0 and v[0] != "boxptr":
                return ("boxptr", v)
            if v[0] == "boxptr" and adt in ("std::ptr::Unique", "std::ptr::NonNull"):
                return v
            if v[0] == "adt" and idx < len(v[3]):
                return v[3][idx]
            if v[0] == "tuple" and idx < len(v[1]):
                return v[1][idx]
            if v[0] == "closure" and idx < len(v[2]):
                return v[2][idx]
            if v[0] == "ref":
                # auto-deref (field of a reference cannot happen in MIR, be lenient)
                return self.project(path, self.read_loc(path, v[1]), st, None)
            return ("field", v, name)
        if k == "d":
            if v[0] == "adt":
                return v
            return ("downcast", v, st[1])
        if k == "i":
            ix = st[1]
            if ix[0] == "int" and v[0] in ("array", "vec", "tuple") and 0 <= ix[1] < len(v[1]):
                return v[1][ix[1]]          # element of a known array (`let [a, b] = [x, y]`)
            if ix[0] == "sym" and str(ix[1]).startswith("index@bb"):
                h_ = int(str(ix[1])[len("index@bb"):])
                cv = path.assume.get(("index-loop", h_))
                if cv is not None and (cv == v or (v[0] == "ref" and self.deref_val(path, v) == cv)):
                    return ("sym", "item@bb%d" % h_)
            return ("index", v, st[1])
        return ("proj", v, st[1])

    def write_loc(self, path, loc, val, bb=None, note=None):
        _, root, steps = loc
        if root[0] == "local":
            lk = (root[1], root[2])
            if not steps:
                path.locals[lk] = val
            else:
                base = path.locals.get(lk, ("sym", "_%d" % root[2]))
                path.locals[lk] = self.update(base, steps, val)
            path.events.append(("write", bb, root, steps, val))
        else:
            path.heap[(root, steps)] = val
            # invalidate extensions of this location
            for k in [k for k in path.heap if k[0] == root and len(k[1]) > len(steps) and k[1][:len(steps)] == steps]:
                del path.heap[k]
            path.events.append(("write", bb, root, steps, val))

    def update(self, base, steps, val):
        if not steps:
            return val
        st = steps[0]
        if st[0] == "f":
            idx = st[2]
            if base[0] == "adt" and idx < len(base[3]):
                fs = list(base[3])
                fs[idx] = self.update(fs[idx], steps[1:], val)
                return ("adt", base[1], base[2], tuple(fs))
            if base[0] == "tuple" and idx < len(base[1]):
                fs = list(base[1])
                fs[idx] = self.update(fs[idx], steps[1:], val)
                return ("tuple", tuple(fs))
            return ("upd", base, steps, val)
        if st[0] == "d":
            return self.update(base, steps[1:], val)
        return ("upd", base, steps, val)

    def read_place(self, path, p):
        return self.read_loc(path, self.loc_of_place(path, p))

    # ---- operands / rvalues ------------------------------------------------------------------
    def operand(self, path, o):
        k = o["k"]
        if k in ("copy", "move"):
            return self.read_place(path, o["p"])
        if k == "const":
            if "val" in o:
                if o["ty"] == "bool":
                    return ("bool", bool(o["val"]))
                if o["ty"] == "char":
                    return ("const", repr(chr(o["val"])) if o["val"] < 0x110000 else o["s"])
                v = o["val"]
                # signed interpretation for small negative discriminants is not needed
                return ("int", v)
            if "promoted" in o:
                v = self.eval_promoted(path, o)
                if v is not None:
                    return v
            if o.get("const_def") and self.facts is not None and o["const_def"] in self.facts.fns and self.depth < self.max_depth:
                v = self.eval_named_const(path, self.facts.fns[o["const_def"]])
                if v is not None:
                    return v
            if o.get("fn"):
                return ("fn", o.get("fn_resolved") or o["fn"], o.get("fn_path"))
            if o.get("static"):
                return ("ref", ("loc", ("sym", "static:" + o["static_path"].split("::")[-1]), ()), False)
            if o.get("ty") == "()":
                return ("unit",)
            return ("const", o.get("s"))
        return ("sym", "op?")

    def eval_named_const(self, path, cfn):
        """Value of a named constant (`const X: T = expr;`): its initialiser body is run like a function without
        arguments (pure by construction); only a single straight result is used."""
        if cfn.name in self.stack:
            return None
        try:
            sub = Engine(cfn, self.facts, self.model, cut_edges=cfn.back_edges(), visit_limit=1, max_paths=50,
                         depth=self.depth + 1, inline=r".", max_depth=self.max_depth, stack=self.stack, desugar=None)
            outs = sub.run(0, path.fork())
        except Exception:
            return None
        rets = [p.end[1] for p in outs if p.end and p.end[0] == "return"]
        if len(rets) == 1 and len(outs) == 1:
            return rets[0]
        return None

    def eval_promoted(self, path, o):
        """Value of a promoted constant (`&CONST`): straight-line evaluation of its tiny body into a
        reference to a constant value."""
        owner = None
        if self.facts is not None:
            owner = self.facts.fns.get(o.get("promoted_of"))
        if owner is None:
            owner = self.fn
        proms = owner.j.get("promoted") or []
        i = o["promoted"]
        if i >= len(proms):
            return None
        body = proms[i]
        if len(body["blocks"]) != 1:
            return None
        vals = {}
        for st in body["blocks"][0]["stmts"]:
            if st["k"] != "assign" or st["p"]["pj"]:
                return None
            rv = st["rv"]
            if rv["k"] == "aggregate":
                fs = []
                for f in rv["fields"]:
                    if f["k"] == "const":
                        fs.append(self.operand(path, f))
                    elif f["k"] in ("copy", "move") and not f["p"]["pj"] and f["p"]["l"] in vals:
                        fs.append(vals[f["p"]["l"]])
                    else:
                        return None
                ak = rv.get("ak")
                if ak == "adt":
                    vals[st["p"]["l"]] = ("adt", rv["path"], rv["variant"], tuple(fs))
                elif ak == "array":
                    vals[st["p"]["l"]] = ("array", tuple(fs))
                else:
                    vals[st["p"]["l"]] = ("tuple", tuple(fs))
            elif rv["k"] == "use" and rv["op"]["k"] == "const":
                vals[st["p"]["l"]] = self.operand(path, rv["op"])
            elif rv["k"] == "ref" and not rv["p"]["pj"] and rv["p"]["l"] in vals:
                vals[st["p"]["l"]] = ("ref", ("loc", vals[rv["p"]["l"]], ()), False)
            else:
                return None
        return vals.get(0)

    def rvalue(self, path, rv, bb):
        k = rv["k"]
        if k == "use":
            return self.operand(path, rv["op"])
        if k in ("ref", "rawptr"):
            return ("ref", self.loc_of_place(path, rv["p"]), bool(rv.get("mut")))
        if k == "binop":
            a = self.operand(path, rv["a"])
            b = self.operand(path, rv["b"])
            return self.binop(rv["op"], a, b)
        if k == "unop":
            a = self.operand(path, rv["a"])
            if rv["op"] == "Not":
                return self.neg(a)
            if rv["op"] == "PtrMetadata":
                return ("app", "len", (a,))
            return ("app", rv["op"], (a,))
        if k == "cast":
            v = self.operand(path, rv["op"])
            ck = rv["ck"]
            if ck.startswith("PointerCoercion") or ck in ("PtrToPtr", "Transmute"):
                return v
            if ck == "IntToInt":
                if v[0] == "int":
                    return v
                return ("cast", rv["to"], v)
            return ("cast", rv["to"], v)
        if k == "aggregate":
            fs = tuple(self.operand(path, f) for f in rv["fields"])
            ak = rv.get("ak")
            if ak == "adt" and is_unknown_struct(rv["path"]) and not rv.get("variant_is_enum"):
                return ("tuple", fs) if fs else ("unit",)
            if ak == "adt":
                # `Self { ..x }` / a struct rebuilt from all fields of one value, in order: that value (a plain move)
                fnames = rv.get("field_names") or []
                if len(fs) >= 2 and len(fnames) == len(fs) and all(f[0] == "field" and len(f) == 3 and f[1] == fs[0][1] and str(f[2]) == str(n_) for f, n_ in zip(fs, fnames)) \
                        and all(self._field_of_same_adt(o_, rv["path"]) for o_ in rv["fields"]):
                    return fs[0][1]
                return ("adt", rv["path"], rv["variant"], fs)
            if ak == "tuple":
                return ("tuple", fs) if fs else ("unit",)
            if ak == "closure":
                return ("closure", rv["closure"], fs)
            if ak == "array":
                return ("array", fs)
            return ("tuple", fs)
        if k == "discr":
            v = self.read_place(path, rv["p"])
            if v[0] == "adt":
                for name, dv in rv.get("variants", []):
                    if name == v[2]:
                        return ("int", dv)
            return ("discr", v, tuple((n, d) for n, d in rv.get("variants", [])))
        if k == "repeat":
            return ("app", "repeat", (self.operand(path, rv["op"]),))
        return ("havoc", rv.get("s", k))

    @staticmethod
    def _field_of_same_adt(o, path):
        """the operand reads a field of a value of the very type that is being built (not of another type with equal field names)"""
        p = o.get("p") if o.get("k") in ("copy", "move") else None
        if not p or not p["pj"] or p["pj"][-1]["k"] != "field":
            return False
        a = str(p["pj"][-1].get("adt", ""))
        return a == path or a.split("<")[0] == str(path).split("<")[0]

    def binop(self, op, a, b):
        if op in ("Add", "AddWithOverflow", "AddUnchecked"):
            v = self.arith("add", a, b)
            return ("tuple", (v, ("bool", False))) if op == "AddWithOverflow" else v
        if op in ("Sub", "SubWithOverflow", "SubUnchecked"):
            v = self.arith("sub", a, b)
            return ("tuple", (v, ("bool", False))) if op == "SubWithOverflow" else v
        if op in ("Mul", "MulWithOverflow"):
            v = ("app", "mul", (a, b))
            return ("tuple", (v, ("bool", False))) if op == "MulWithOverflow" else v
        if op in ("Eq", "Ne", "Lt", "Le", "Gt", "Ge"):
            if a[0] in ("int", "bool") and b[0] in ("int", "bool"):
                x, y = a[1], b[1]
                r = {"Eq": x == y, "Ne": x != y, "Lt": x < y, "Le": x <= y, "Gt": x > y, "Ge": x >= y}[op]
                return ("bool", r)
            if a[0] == "adt" and b[0] == "adt" and not a[3] and not b[3] and a[1] == b[1] and op in ("Eq", "Ne"):
                return ("bool", (a[2] == b[2]) == (op == "Eq"))
            if a == b and op in ("Eq", "Le", "Ge"):
                return ("bool", True)
            if a == b and op in ("Ne", "Lt", "Gt"):
                return ("bool", False)
            return ("binop", op, a, b)
        if op in ("BitAnd", "BitOr", "BitXor") and a[0] == "bool" and b[0] == "bool":
            x, y = a[1], b[1]
            return ("bool", {"BitAnd": x and y, "BitOr": x or y, "BitXor": x != y}[op])
        return ("binop", op, a, b)

    def arith(self, k, a, b):
        if a[0] == "int" and b[0] == "int":
            return ("int", a[1] + b[1] if k == "add" else a[1] - b[1])
        if b == ("int", 0):
            return a
        if k == "add" and a == ("int", 0):
            return b
        return (k, a, b)

    def neg(self, a):
        if a[0] == "bool":
            return ("bool", not a[1])
        if a[0] == "not":
            return a[1]
        return ("not", a)

    # ---- branching -----------------------------------------------------------------------------
    def decide(self, path, v):
        """Known outcome of a branch term under the path's assumptions, or None.
        For bools returns True/False; for discr/cmp returns the discriminant value."""
        if v[0] == "bool":
            return v[1]
        if v[0] == "int":
            return v[1]
        if v in path.assume:
            return path.assume[v]
        if v[0] == "binop" and len(v) == 4 and v[1] in _CMP_COMPLEMENT:
            # the same comparison asked the other way round: `a != b` known false answers `a == b`, `a < b` answers `a >= b`,
            # `b > a`, `b <= a`
            op, a_, b_ = v[1], v[2], v[3]
            for o2, x_, y_, flip in ((_CMP_COMPLEMENT[op], a_, b_, True), (_CMP_SWAP[op], b_, a_, False), (_CMP_COMPLEMENT[_CMP_SWAP[op]], b_, a_, True)):
                r = path.assume.get(("binop", o2, x_, y_))
                if isinstance(r, bool):
                    return (not r) if flip else r
        if v[0] == "not":
            r = self.decide(path, v[1])
            return None if r is None else (not r)
        if v[0] == "isvar":
            d = self.known_variant(path, v[1])
            if d is not None:
                return d == v[2]
        if v[0] == "discr":
            d = self.known_variant(path, v[1])
            if d is not None:
                for n, dv in v[2]:
                    if n == d:
                        return dv
        return None

    def known_variant(self, path, v):
        if v[0] == "adt":
            return v[2]
        return path.assume.get(("variant", v))

    def assume(self, path, v, outcome):
        """Record that branch term v had `outcome` (bool or discriminant value)."""
        if v[0] == "not":
            return self.assume(path, v[1], not outcome)
        if v[0] == "isvar":
            if outcome:
                path.assume[("variant", v[1])] = v[2]
            else:
                path.assume[v] = False
                # two-variant enums: the other one
                other = {"None": "Some", "Some": "None", "Ok": "Err", "Err": "Ok"}.get(v[2])
                if other:
                    path.assume[("variant", v[1])] = other
            path.conds.append((v, outcome))
            return
        if v[0] == "discr":
            for n, dv in v[2]:
                if dv == outcome:
                    path.assume[("variant", v[1])] = n
            path.assume[v] = outcome
            path.conds.append((v, outcome))
            return
        path.assume[v] = outcome
        path.conds.append((v, outcome))
        if v[0] == "binop" and v[1] == "Lt" and isinstance(outcome, bool) and v[2][0] == "sym" and str(v[2][1]).startswith("index@bb"):
            h_ = int(str(v[2][1])[len("index@bb"):])
            cv = path.assume.get(("index-loop", h_))
            if cv is not None:
                # the guard of a counting loop over a collection: one more element / no element left
                if outcome:
                    path.events.append(("iter-item", h_, "index-loop", cv, ("sym", "item@bb%d" % h_)))
                else:
                    path.events.append(("iter-exhausted", h_, "index-loop", cv))

    # ---- calls ---------------------------------------------------------------------------------
    def deref_val(self, path, v):
        """Read through references (for by-ref arguments of modelled pure calls)."""
        n = 0
        while v[0] in ("ref", "boxptr") and n < 8:
            v = self.read_loc(path, v[1]) if v[0] == "ref" else v[1]
            n += 1
        return v

    def default_call(self, path, bb, t, args):
        """Returns list of (ret, fork_assumption or None)."""
        name = M.call_name(t)
        res = t.get("resolved_path") or ""
        nm = name
        if re.search(r"<(usize|u8|u16|u32|u64|i32|i64|isize) as std::convert::From<bool>>::from$", nm) and len(args) == 1:
            # `usize::from(flag)`: 0 or 1 — a branch on the flag
            c_ = args[0]
            d_ = self.decide(path, c_)
            if c_ == ("bool", True) or d_ is True:
                return [(("int", 1), None)]
            if c_ == ("bool", False) or d_ is False:
                return [(("int", 0), None)]
            return [(("int", 0), [(c_, False)]), (("int", 1), [(c_, True)])]
        m_ = re.match(r"^<(bool|u8|u16|u32|u64|u128|usize|i8|i16|i32|i64|i128|isize|char) as std::default::Default>::default$", nm)
        if m_ and not args:
            # the default of a primitive (a derived Default of a small struct carries these)
            return [((("bool", False) if m_.group(1) == "bool" else (("const", "'\\0'") if m_.group(1) == "char" else ("int", 0))), None)]
        if IDENTITY_CALLS.search(nm) and args:
            a0 = args[0]
            if re.search(r"Option::<.*>::(as_ref|as_mut|copied|cloned)$", nm):
                return [(self.deref_val(path, a0), None)]
            if re.search(r"(clone::Clone>::clone|ids::\w+::(as_usize|id))$", nm):
                v = self.deref_val(path, a0)
                return [(v, None)]
            if re.search(r"Deref>::deref$|DerefMut>::deref_mut$|AsRef<.*>>::as_ref$|Borrow<.*>>::borrow$|::as_str$|::as_slice$|<impl \[.*\]>::iter$|by_ref$", nm):
                return [(a0, None)]
            return [(a0, None)]
        m = re.search(r"Option::<.*>::(is_none|is_some)$", nm)
        if m:
            v = self.deref_val(path, args[0])
            if v[0] == "adt":
                return [(("bool", (v[2] == "None") == (m.group(1) == "is_none")), None)]
            return [(("isvar", v, "None" if m.group(1) == "is_none" else "Some"), None)]
        m = re.search(r"Result::<.*>::(is_ok|is_err)$", nm)
        if m:
            v = self.deref_val(path, args[0])
            if v[0] == "adt":
                return [(("bool", (v[2] == "Ok") == (m.group(1) == "is_ok")), None)]
            return [(("isvar", v, "Ok" if m.group(1) == "is_ok" else "Err"), None)]
        if re.search(r"Option::<.*>::(get_or_insert|insert)$", nm) and args and args[0][0] == "ref":
            loc = args[0][1]
            cur = self.read_loc(path, loc)
            kv = self.known_variant(path, cur)
            newv = ("adt", "std::option::Option", "Some", (args[1],))
            if nm.endswith("::insert") or kv == "None":
                return [(("ref", ("loc", loc[1], loc[2] + (("d", "Some"), ("f", "0", 0, "std::option::Option"))), True), None, [(loc, newv)])]
            if kv == "Some":
                return [(("ref", ("loc", loc[1], loc[2] + (("d", "Some"), ("f", "0", 0, "std::option::Option"))), True), None)]
            r_ = ("ref", ("loc", loc[1], loc[2] + (("d", "Some"), ("f", "0", 0, "std::option::Option"))), True)
            return [(r_, [(("isvar", cur, "None"), True)], [(loc, newv)]), (r_, [(("isvar", cur, "Some"), True)])]
        if re.search(r"option::Option::<.*>::transpose$", nm) and args:
            v = self.deref_val(path, args[0]) if args[0][0] == "ref" else args[0]
            RES_, OPT_ = "std::result::Result", "std::option::Option"
            if v[0] == "adt" and v[2] == "None":
                return [(("adt", RES_, "Ok", (("adt", OPT_, "None", ()),)), None)]
            if v[0] == "adt" and v[2] == "Some" and v[3] and v[3][0][0] == "adt" and v[3][0][2] == "Ok":
                return [(("adt", RES_, "Ok", (("adt", OPT_, "Some", (v[3][0][3][0],)),)), None)]
            if v[0] == "adt" and v[2] == "Some" and v[3] and v[3][0][0] == "adt" and v[3][0][2] == "Err":
                return [(("adt", RES_, "Err", (v[3][0][3][0],)), None)]
        if re.search(r"ops::(RangeInclusive|Range)::<.*>::contains(::<.*>)?$|ops::RangeBounds<.*>>::contains(::<.*>)?$", nm) and len(args) == 2:
            # `(lo..=hi).contains(&x)` is `lo <= x && x <= hi` (`lo..hi`: `x < hi`): analysed as the two comparisons it abbreviates
            r = self.deref_val(path, args[0]) if args[0][0] == "ref" else args[0]
            x = self.deref_val(path, args[1]) if args[1][0] == "ref" else args[1]
            lo = hi = None
            if r[0] == "app" and re.search(r"RangeInclusive::<.*>::new$", str(r[1])) and len(r[2]) == 2:
                lo, hi, hop = r[2][0], r[2][1], "Le"
            elif r[0] == "adt" and r[1].endswith("ops::Range") and len(r[3]) == 2:
                lo, hi, hop = r[3][0], r[3][1], "Lt"
            if lo is not None:
                c1, c2 = self.binop("Le", lo, x), self.binop(hop, x, hi)
                return [(("bool", False), [(c1, False)]), (("bool", False), [(c1, True), (c2, False)]), (("bool", True), [(c1, True), (c2, True)])]
        if re.search(r"mem::replace::<.*>$|mem::replace$", nm) and len(args) == 2 and args[0][0] == "ref":
            loc = args[0][1]
            old_v = self.read_loc(path, loc)
            return [(old_v, None, [(loc, args[1])])]
        if re.search(r"option::Option::<.*>::zip(::<.*>)?$", nm) and len(args) == 2:
            # `a.zip(b)`: Some((x, y)) if both are Some
            OPT_ = "std::option::Option"
            outs_ = []
            a_, b_ = args
            ka, kb = (a_[2] if a_[0] == "adt" else self.known_variant(path, a_)), (b_[2] if b_[0] == "adt" else self.known_variant(path, b_))
            pa = a_[3][0] if a_[0] == "adt" and a_[2] == "Some" else ("field", ("downcast", a_, "Some"), "0")
            pb = b_[3][0] if b_[0] == "adt" and b_[2] == "Some" else ("field", ("downcast", b_, "Some"), "0")
            if ka == "None" or kb == "None":
                return [(("adt", OPT_, "None", ()), None)]
            asm_some = ([(("isvar", a_, "Some"), True)] if ka is None else []) + ([(("isvar", b_, "Some"), True)] if kb is None else [])
            outs_.append((("adt", OPT_, "Some", (("tuple", (pa, pb)),)), asm_some or None))
            if ka is None:
                outs_.insert(0, (("adt", OPT_, "None", ()), [(("isvar", a_, "None"), True)]))
            if kb is None:
                outs_.insert(0, (("adt", OPT_, "None", ()), ([(("isvar", a_, "Some"), True)] if ka is None else []) + [(("isvar", b_, "None"), True)]))
            return outs_
        if re.search(r"ops::Range<.*> as std::iter::ExactSizeIterator>::len$|ops::Range<usize> as .*ExactSizeIterator>::len$", nm) and args:
            r_ = self.deref_val(path, args[0]) if args[0][0] == "ref" else args[0]
            if r_[0] == "adt" and str(r_[1]).endswith("ops::Range") and len(r_[3]) == 2:
                # (a..b).len() == b.saturating_sub(a)
                return [(("app", "saturating_sub", (r_[3][1], r_[3][0])), None)]
        if re.search(r"ops::Range::<.*>::is_empty$", nm) and args:
            r_ = self.deref_val(path, args[0]) if args[0][0] == "ref" else args[0]
            if r_[0] == "adt" and str(r_[1]).endswith("ops::Range") and len(r_[3]) == 2:
                return [(self.binop("Ge", r_[3][0], r_[3][1]), None)]
        if re.search(r"<impl bool>::then_some(::<.*>)?$", nm) and len(args) == 2:
            # `c.then_some(v)`: Some(v) if c else None
            c_ = args[0]
            OPT_ = "std::option::Option"
            d_ = self.decide(path, c_)
            if c_ == ("bool", True) or d_ is True:
                return [(("adt", OPT_, "Some", (args[1],)), None)]
            if c_ == ("bool", False) or d_ is False:
                return [(("adt", OPT_, "None", ()), None)]
            return [(("adt", OPT_, "None", ()), [(c_, False)]), (("adt", OPT_, "Some", (args[1],)), [(c_, True)])]
        m_ = re.search(r"(option::Option|result::Result)::<.*>::(unwrap_or|unwrap_or_default)$", nm)
        if m_ and args:
            # `x.unwrap_or(d)`: the payload if there is one, else d — a branch on the variant like `match`
            v = args[0]
            good = "Some" if "Option" in m_.group(1) else "Ok"
            bad = "None" if good == "Some" else "Err"
            d = args[1] if len(args) > 1 else ("app", "Default::default", ())
            if v[0] == "app" and re.search(r"num::<impl \w+>::checked_sub$|(^|::)checked_sub$", str(v[1])) and len(v[2]) == 2 and (len(args) == 1 or d == ("int", 0)):
                # `a.checked_sub(b).unwrap_or_default()` / `.unwrap_or(0)` is `a.saturating_sub(b)`
                return [(("app", "saturating_sub", (v[2][0], v[2][1])), None)]
            kv = self.known_variant(path, v)
            if v[0] == "adt" and v[2] == good:
                return [(v[3][0], None)]
            if (v[0] == "adt" and v[2] == bad) or kv == bad:
                return [(d, None)]
            pay = ("field", ("downcast", v, good), "0")
            if kv == good:
                return [(pay, None)]
            return [(d, [(("isvar", v, bad), True)]), (pay, [(("isvar", v, good), True)])]
        if re.search(r"option::Option::<.*>::transpose$", nm) and len(args) == 1:
            # `Option<Result<T, E>>::transpose`: None -> Ok(None), Some(Ok(x)) -> Ok(Some(x)), Some(Err(e)) -> Err(e)
            OPT_, RES_ = "std::option::Option", "std::result::Result"
            v = args[0]

            def cases(val, good, bad):
                """[(variant, payload or None, assumptions)] consistent with what is known about val"""
                kv_ = val[2] if val[0] == "adt" else self.known_variant(path, val)
                pay_ = val[3][0] if (val[0] == "adt" and val[2] == good) else ("field", ("downcast", val, good), "0")
                if kv_ == good:
                    return [(good, pay_, [])]
                if kv_ == bad:
                    return [(bad, None, [])]
                return [(bad, None, [(("isvar", val, bad), True)]), (good, pay_, [(("isvar", val, good), True)])]
            outs_ = []
            for var, inner, as1 in cases(v, "Some", "None"):
                if var == "None":
                    outs_.append((("adt", RES_, "Ok", (("adt", OPT_, "None", ()),)), as1 or None))
                    continue
                for var2, x, as2 in cases(inner, "Ok", "Err"):
                    if var2 == "Ok":
                        outs_.append((("adt", RES_, "Ok", (("adt", OPT_, "Some", (x,)),)), (as1 + as2) or None))
                    else:
                        e_ = inner[3][0] if inner[0] == "adt" else ("field", ("downcast", inner, "Err"), "0")
                        outs_.append((("adt", RES_, "Err", (e_,)), (as1 + as2) or None))
            return outs_
        if re.search(r"option::Option::<.*>::replace$", nm) and len(args) == 2 and args[0][0] == "ref":
            # `opt.replace(v)`: the slot becomes Some(v), the old value is returned
            loc = args[0][1]
            return [(self.read_loc(path, loc), None, [(loc, ("adt", "std::option::Option", "Some", (args[1],)))])]
        if re.search(r"mem::take::<.*>$", nm) and len(args) == 1 and args[0][0] == "ref":
            loc = args[0][1]
            old_v = self.read_loc(path, loc)
            dty = (t.get("dest") or {}).get("ty", "")
            dflt = ("app", "Default::default", ())
            if dty == "bool":
                dflt = ("bool", False)
            elif dty in ("usize", "u8", "u16", "u32", "u64", "u128", "isize", "i8", "i16", "i32", "i64", "i128"):
                dflt = ("int", 0)
            elif dty.startswith("std::option::Option<"):
                dflt = ("adt", "std::option::Option", "None", ())
            return [(old_v, None, [(loc, dflt)])]
        if re.search(r"Option::<.*>::(unwrap|expect|unwrap_unchecked)$", nm):
            v = self.deref_val(path, args[0])
            kv = self.known_variant(path, v)
            path.events.append(("unwrap", bb, v, kv))
            if v[0] == "adt" and v[2] == "Some":
                return [(v[3][0], None)]
            if kv == "None":
                return [(("panic", "unwrap on None"), None)]
            return [(("field", ("downcast", v, "Some"), "0"), None)]
        if re.search(r"cmp::Ord>::cmp$|cmp::PartialOrd.*>::partial_cmp$", nm) or re.search(r"::cmp$", res):
            a = self.deref_val(path, args[0])
            b = self.deref_val(path, args[1])
            if a[0] == "int" and b[0] == "int":
                r = "Less" if a[1] < b[1] else ("Equal" if a[1] == b[1] else "Greater")
                return [(("adt", "std::cmp::Ordering", r, ()), None)]
            return [(("cmp", a, b), None)]
        m = re.search(r"cmp::Partial(Ord|Eq)(<.*>)?>::(lt|le|gt|ge|eq|ne)$", nm)
        if m:
            a = self.deref_val(path, args[0])
            b = self.deref_val(path, args[1])
            return [(self.binop(m.group(3).capitalize(), a, b), None)]
        if re.search(r"ops::Try>::branch$", nm):
            x = args[0]
            CF = "std::ops::ControlFlow"
            if x[0] == "adt" and x[2] in ("Ok", "Some"):
                return [(("adt", CF, "Continue", (x[3][0],)), None)]
            if x[0] == "adt" and x[2] == "Err":
                return [(("adt", CF, "Break", (("adt", x[1], "Err", (x[3][0],)),)), None)]
            if x[0] == "adt" and x[2] == "None":
                return [(("adt", CF, "Break", (x,)), None)]
            is_opt = "Option<" in (t.get("callee_self") or "")
            kv = self.known_variant(path, x)
            good, bad = ("Some", "None") if is_opt else ("Ok", "Err")
            outs = []
            if kv in (None, good):
                outs.append((("adt", CF, "Continue", (("field", ("downcast", x, good), "0"),)), None if kv else [(("isvar", x, good), True)]))
            if kv in (None, bad):
                res = ("adt", "std::option::Option", "None", ()) if is_opt else ("adt", "std::result::Result", "Err", (("field", ("downcast", x, "Err"), "0"),))
                outs.append((("adt", CF, "Break", (res,)), None if kv else [(("isvar", x, bad), True)]))
            return outs
        if re.search(r"ops::FromResidual<.*>>::from_residual$", nm):
            r = args[0]
            if r[0] == "adt" and r[2] in ("Err", "None"):
                return [(r, None)]
            return [(("adt", "std::result::Result", "Err", (("field", ("downcast", r, "Err"), "0"),)), None)]
        if re.search(r"usize::saturating_sub$|::saturating_sub$", nm):
            return [(("app", "saturating_sub", (args[0], args[1])), None)]
        if re.search(r"Ord>::min$|::min$", nm) and len(args) == 2:
            return [(("app", "min", (args[0], args[1])), None)]
        if re.search(r"<impl char>::len_utf8$", nm):
            return [(("app", "len_utf8", (self.deref_val(path, args[0]),)), None)]
        if re.search(r"<impl str>::split_at$|<impl \[.*\]>::split_at$", nm) and len(args) == 2:
            # `s.split_at(k)` is `(&s[..k], &s[k..])`
            base = args[0]
            if base[0] == "ref":
                l = base[1]
                mk = lambda nm_: ("ref", ("loc", l[1], l[2] + (("i", ("adt", "std::ops::" + nm_, nm_, (args[1],))),)), False)
            else:
                mk = lambda nm_: ("ref", ("loc", ("deref", base), (("i", ("adt", "std::ops::" + nm_, nm_, (args[1],))),)), False)
            return [(("tuple", (mk("RangeTo"), mk("RangeFrom"))), None)]
        if re.search(r"ops::Index<.*>>::index$|ops::IndexMut<.*>>::index_mut$", nm):
            base = args[0]
            mut = "IndexMut" in nm
            if base[0] == "ref":
                l = base[1]
                return [(("ref", ("loc", l[1], l[2] + (("i", args[1]),)), mut), None)]
            return [(("ref", ("loc", ("deref", base), (("i", args[1]),)), mut), None)]
        return None

    def snapshot(self, path, a):
        """References to locals inside an uninterpreted application carry the pointee's value at
        call time (so that the term shows what the result depends on)."""
        if a[0] == "ref" and a[1][1][0] == "local" and len(a) < 4:
            return ("ref", a[1], a[2] if len(a) > 2 else False, self.read_loc(path, a[1]))
        return a

    def havoc_mut_args(self, path, bb, name, args):
        for a in args:
            if a[0] == "ref" and (len(a) < 3 or a[2]):
                loc = a[1]
                # only locals are havocked implicitly; heap objects are recorded as events
                if loc[1][0] == "local":
                    old = self.read_loc(path, loc)
                    self.write_loc(path, loc, ("app", "mut:" + M.short_name(name), (old,) + tuple(x for x in args if x is not a)), bb)

    # ---- inlining ------------------------------------------------------------------------------
    def inline_target(self, path, t, args):
        """(callee Fn, bound argument list) if this call is to be inlined."""
        name = M.call_name(t)
        if self.facts is None:
            return None
        # calls of known closure values through Fn/FnMut/FnOnce
        if re.search(r"ops::(Fn|FnMut|FnOnce)<.*>>::(call|call_mut|call_once)$", name) and args:
            c = self.deref_val(path, args[0])
            if c[0] == "closure" and c[1] in self.facts.fns:
                callee = self.facts.fns[c[1]]
                if callable(self.inline) and not self.inline(callee.name):
                    return None
                if self.stack.count(callee.name) >= 3:
                    return None
                spread = list(args[1][1]) if len(args) > 1 and args[1][0] == "tuple" else ([] if len(args) < 2 or args[1][0] == "unit" else [args[1]])
                a0 = args[0] if args[0][0] == "ref" else ("ref", ("loc", c, ()), False)
                if re.search(r"call_once$", name) and args[0][0] != "ref":
                    # by-value closure: the body takes the closure by value or by ref depending on its kind
                    a0 = ("ref", ("loc", c, ()), False)
                return (callee, [a0] + spread)
            if c[0] == "fn" and c[1] in self.facts.fns:
                # a function of the crate called through a function value
                callee = self.facts.fns[c[1]]
                if self.stack.count(callee.name) >= 3:
                    return None
                if is_unknown_helper(callee) or (self.inline and (self.inline(callee.name) if callable(self.inline) else re.search(self.inline, callee.name))):
                    spread = list(args[1][1]) if len(args) > 1 and args[1][0] == "tuple" else ([] if len(args) < 2 or args[1][0] == "unit" else [args[1]])
                    return (callee, spread)
            return None
        r = t.get("resolved")
        if r and r in self.facts.fns and t.get("resolved_kind") == "Item":
            callee = self.facts.fns[r]
            if self.stack.count(callee.name) >= 3:
                return None
            ok = False
            if self.inline:
                ok = self.inline(callee.name) if callable(self.inline) else bool(re.search(self.inline, callee.name))
            if not ok:
                # (a twin of a known function is read as a call of that function — except inside that function, whose body it is)
                ok = (is_unknown_helper(callee) and (callee.name not in M.TWINS or M.TWINS[callee.name] in self.stack)) or re.search(ALWAYS_INLINE, callee.name) is not None
            if ok:
                return (callee, list(args))
        return None

    def carrier_target(self, t, args):
        """`x.into()` / `Y::from(x)` where the crate itself provides `impl From<X> for Y` for a type Y the rules do not know (a
        small carrier struct introduced later): the conversion is that impl's body, not the identity."""
        nm_ = M.call_name(t)
        m_ = re.search(r"^<(.*) as std::convert::Into<(.*)>>::into$", nm_)
        tgt_base = m_.group(2).split("<")[0] if m_ else None
        if m_ is None:
            m2_ = re.search(r"^<(.*?) as std::convert::From<.*>>::from$", nm_)
            tgt_base = m2_.group(1).split("<")[0] if m2_ else None
        if tgt_base and self.facts is not None and is_unknown_struct(tgt_base):
            cands = [f_ for f_ in self.facts.fns.values() if re.match(r"^<%s(<.*>)? as std::convert::From<.*>>::from$" % re.escape(tgt_base), f_.name)]
            if len(cands) == 1 and self.stack.count(cands[0].name) < 3:
                return (cands[0], list(args))
        return None

    def do_inline(self, path, bb, t, args, tgt, go):
        callee, bound = tgt
        name = M.call_name(t)
        sub = Engine(callee, self.facts, self.model, cut_edges=callee.back_edges(), visit_limit=self.visit_limit,
                     max_paths=self.max_paths, depth=self.depth + 1, inline=self.inline, max_depth=self.max_depth, stack=self.stack, desugar=self.desugar)
        for i, a in enumerate(bound):
            path.locals[(sub.fid, i + 1)] = a
        path.events.append(("enter", bb, callee.name, tuple(bound), None, t, self.fn.name))
        outs = []
        for sp in sub.run(0, path):
            if sub.truncated:
                self.truncated = True
            e = sp.end
            sp.end = None
            if e and e[0] == "return":
                sp.events.append(("call", bb, name, tuple(args), e[1], t, self.fn.name, tuple(args), "inlined"))
                if t.get("target") is None:
                    sp.end = ("diverge", bb, name)
                    outs.append((None, sp))
                    continue
                self.write_loc(sp, self.loc_of_place(sp, t["dest"]), e[1], bb)
                outs.append(go(t["target"], sp))
            elif e and e[0] == "cut":
                # a loop inside a helper the rules do not know by name: explored like a loop written in place (this path ran
                # one iteration and ends at the back edge; the path that skips the loop goes on)
                sp.events.append(("call", bb, name, tuple(args), None, t, self.fn.name, tuple(args), "inlined-iteration"))
                sp.end = ("cut", bb)
                outs.append((None, sp))
            elif e and e[0] in ("cut", "loop-limit", "stop"):
                # a loop inside the callee: the result is opaque on this path
                ret = ("app", name, tuple(args))
                sp.events.append(("call", bb, name, tuple(args), ret, t, self.fn.name, tuple(args), "opaque-loop"))
                self.havoc_mut_args(sp, bb, name, args)
                if t.get("target") is None:
                    sp.end = ("diverge", bb, name)
                    outs.append((None, sp))
                    continue
                self.write_loc(sp, self.loc_of_place(sp, t["dest"]), ret, bb)
                outs.append(go(t["target"], sp))
            else:
                sp.end = e
                outs.append((None, sp))
        return outs

    # ---- std combinators taking a closure: analysed as the control flow they stand for ---------------------------
    def closure_target(self, path, fval, fargs):
        """(callee Fn, bound args) for calling the closure / fn item value `fval` with `fargs`, or None."""
        c = fval
        n = 0
        while c[0] == "ref" and n < 6:
            c = self.read_loc(path, c[1]) if c[1][0] == "loc" else c
            n += 1
            if c[0] != "ref":
                break
        if c[0] == "closure" and self.facts is not None and c[1] in self.facts.fns:
            callee = self.facts.fns[c[1]]
            if self.stack.count(callee.name) >= 3:
                return None
            a0 = fval if fval[0] == "ref" else ("ref", ("loc", c, ()), False)
            return (callee, [a0] + list(fargs))
        if c[0] == "fn" and self.facts is not None and c[1] in self.facts.fns:
            callee = self.facts.fns[c[1]]
            if self.stack.count(callee.name) >= 3:
                return None
            return (callee, list(fargs))
        if c[0] == "fn" and (self.facts is None or c[1] not in self.facts.fns):
            # a function of another crate used as a function value (`for_each(drop)`, `map(char::is_numeric)`): an opaque call
            return ("extern", c)
        return None

    def call_closure(self, path, bb, fval, fargs):
        """Runs the closure on (a fork of) `path`: [(return value, path)] for the paths that return; paths that end
        otherwise (panic, loop cut inside the closure) are returned with value None and their end set."""
        tgt = self.closure_target(path, fval, fargs)
        if tgt is None:
            return None
        if tgt[0] == "extern":
            c = tgt[1]
            name = c[2] or c[1]
            if re.search(r"mem::drop(::<.*>)?$", str(name)):
                return [(("unit",), path)]
            ret = ("app", name, tuple(fargs))
            path.events.append(("call", bb, name, tuple(fargs), ret, {}, self.fn.name, tuple(fargs)))
            return [(ret, path)]
        callee, bound = tgt
        sub = Engine(callee, self.facts, self.model, cut_edges=callee.back_edges(), visit_limit=self.visit_limit,
                     max_paths=self.max_paths, depth=self.depth + 1, inline=self.inline, max_depth=self.max_depth, stack=self.stack, desugar=self.desugar)
        for i, a in enumerate(bound):
            path.locals[(sub.fid, i + 1)] = a
        path.events.append(("enter", bb, callee.name, tuple(bound), None, None, self.fn.name))
        outs = []
        for sp in sub.run(0, path):
            if sub.truncated:
                self.truncated = True
            e = sp.end
            sp.end = None
            if e and e[0] == "return":
                rv = e[1]
                n_ = 0
                # a "reference to a local of the closure" is an artefact of modelling by-ref pure calls as identities
                while rv[0] == "ref" and rv[1][0] == "loc" and rv[1][1][0] == "local" and rv[1][1][1] == sub.fid and n_ < 6:
                    rv = self.read_loc(sp, rv[1])
                    n_ += 1
                sp.events.append(("call", bb, callee.name, tuple(bound), rv, None, self.fn.name, tuple(bound), "closure"))
                outs.append((rv, sp))
            elif e and e[0] in ("cut", "loop-limit", "stop"):
                ret = ("app", callee.name, tuple(bound))
                outs.append((ret, sp))
            else:
                sp.end = e
                outs.append((None, sp))
        return outs

    def iter_elements(self, path, bb, src, base_item, depth=0):
        """Element(s) the iterator value `src` yields for one element `base_item` of the underlying collection, with lazy
        adaptors applied: [(element or None, path)] — None means the adaptor drops this element (filter / filter_map)."""
        if depth > 4 or src[0] != "app" or len(src[2]) < 1:
            return [(base_item, path)]
        nm = str(src[1])
        m = re.search(r"iter::Iterator>::(map|filter_map|filter|flat_map|enumerate|cloned|copied|by_ref|inspect|take_while|zip)(::<.*>)?$", nm)
        if not m:
            return [(base_item, path)]
        if m.group(1) == "zip":
            # `it.zip(0..)` numbers the elements like enumerate (the pair is (element, number)), `(0..).zip(it)` likewise with the
            # pair the other way round; any other partner is opaque
            def from_zero(x):
                x = self.deref_val(path, x) if x is not None and x[0] == "ref" else x
                return x is not None and x[0] == "adt" and str(x[1]).endswith("RangeFrom") and bool(x[3]) and x[3][0] == ("int", 0)
            other = src[2][1] if len(src[2]) > 1 else None
            if from_zero(src[2][0]) and other is not None:
                outs_z = []
                other = self.deref_val(path, other) if other[0] == "ref" else other
                for el, p_ in self.iter_elements(path, bb, other, base_item, depth + 1):
                    outs_z.append((el if el is None or el in (("dead",), ("stop",)) else ("tuple", (("sym", "index@bb%d" % bb), el)), p_))
                return outs_z
            if not from_zero(other):
                return [(("app", nm, (base_item,)), path)]
        meth = m.group(1)
        if meth == "flat_map":
            # one element of the inner iterator the closure builds for one element of the outer one
            inner0 = src[2][0]
            inner0 = self.deref_val(path, inner0) if inner0[0] == "ref" else inner0
            f0 = src[2][1] if len(src[2]) > 1 else None
            outs0 = []
            for el0, p0 in self.iter_elements(path, bb, inner0, base_item, depth + 1):
                if el0 is None or el0 == ("dead",) or f0 is None or self.closure_target(p0, f0, []) is None:
                    outs0.append((el0 if el0 is None or el0 == ("dead",) else ("app", nm, (el0,)), p0))
                    continue
                rs0 = self.call_closure(p0, bb, f0, [el0])
                if rs0 is None:
                    outs0.append((("app", nm, (el0,)), p0))
                    continue
                for r0, sp0 in rs0:
                    if r0 is None:
                        outs0.append((("dead",), sp0))
                        continue
                    r0v = self.deref_val(sp0, r0) if r0[0] == "ref" else r0
                    inner_item = ("sym", "item@bb%d_in%d" % (bb, depth))
                    its = r0v
                    # items of slice iterators are references
                    if re.search(r"slice::<impl \[|slice::Iter", self_ty_of(its)):
                        inner_item = ("ref", ("loc", inner_item, ()), False)
                    outs0.extend(self.iter_elements(sp0, bb, r0v, inner_item, depth + 1))
            return outs0
        inner = src[2][0]
        inner = self.deref_val(path, inner) if inner[0] == "ref" else inner
        outs = []
        for el, p in self.iter_elements(path, bb, inner, base_item, depth + 1):
            if el is None:
                outs.append((None, p))
                continue
            if meth in ("cloned", "copied", "by_ref", "inspect"):
                outs.append((self.deref_val(p, el) if meth in ("cloned", "copied") and el[0] == "ref" else el, p))
                continue
            if meth == "enumerate":
                outs.append((("tuple", (("sym", "index@bb%d" % bb), el)), p))
                continue
            if meth == "zip":
                outs.append((("tuple", (el, ("sym", "index@bb%d" % bb))), p))
                continue
            f = src[2][1] if len(src[2]) > 1 else None
            if f is None or self.closure_target(p, f, []) is None:
                outs.append((("app", nm, (el,)), p))
                continue
            if el == ("dead",) or el == ("stop",):
                outs.append((el, p))
                continue
            xa = ("ref", ("loc", el, ()), False) if meth in ("filter", "take_while") else el
            rs = self.call_closure(p, bb, f, [xa])
            if rs is None:
                outs.append((("app", nm, (el,)), p))
                continue
            for r, sp in rs:
                if r is None:
                    outs.append((None, sp)) if sp.end is None else outs.append((("dead",), sp))
                elif meth == "map":
                    outs.append((r, sp))
                elif meth == "filter_map":
                    kv = self.known_variant(sp, r)
                    if kv == "Some":
                        outs.append((r[3][0] if r[0] == "adt" else ("field", ("downcast", r, "Some"), "0"), sp))
                    elif kv == "None":
                        outs.append((None, sp))
                    else:
                        pn = sp.fork()
                        self.assume(pn, ("isvar", r, "None"), True)
                        outs.append((None, pn))
                        self.assume(sp, ("isvar", r, "Some"), True)
                        outs.append((("field", ("downcast", r, "Some"), "0"), sp))
                elif meth == "take_while":
                    # the first element the predicate rejects is consumed and ends the iteration
                    d = self.decide(sp, r)
                    if r == ("bool", True) or d is True:
                        outs.append((el, sp))
                    elif r == ("bool", False) or d is False:
                        outs.append((("stop",), sp))
                    else:
                        pn = sp.fork()
                        self.assume(pn, r, False)
                        outs.append((("stop",), pn))
                        self.assume(sp, r, True)
                        outs.append((el, sp))
                else:   # filter
                    d = self.decide(sp, r)
                    if r == ("bool", True) or d is True:
                        outs.append((el, sp))
                    elif r == ("bool", False) or d is False:
                        outs.append((None, sp))
                    else:
                        pn = sp.fork()
                        self.assume(pn, r, False)
                        outs.append((None, pn))
                        self.assume(sp, r, True)
                        outs.append((el, sp))
        return outs

    def combinator(self, path, bb, t, args, go):
        """Option/Result/Iterator methods that take a closure, analysed as the branch or loop they abbreviate (only when the
        closure value is known).  Loop-like methods are explored like a `for` loop: one path without an iteration and one
        path that runs the body once on a fresh item and ends at the 'back edge' (end = ("cut", bb))."""
        nm = M.call_name(t)
        OPT, RES = "std::option::Option", "std::result::Result"

        def finish(p, ret):
            p.events.append(("call", bb, nm, tuple(args), ret, t, self.fn.name, tuple(args), "desugared"))
            if t.get("target") is None:
                p.end = ("diverge", bb, nm)
                return (None, p)
            self.write_loc(p, self.loc_of_place(p, t["dest"]), ret, bb)
            return go(t["target"], p)

        def cut(p, val=None):
            p.events.append(("call", bb, nm, tuple(args), val, t, self.fn.name, tuple(args), "desugared-iteration"))
            p.end = ("cut", bb)
            return (None, p)

        def dead(p):
            return (None, p)

        def variants(v, a, b):
            """[(variant name, path)] consistent with what is known about v"""
            kv = self.known_variant(path, v)
            if kv in (a, b):
                return [(kv, path)]
            pa = path.fork()
            self.assume(pa, ("isvar", v, a), True)
            self.assume(path, ("isvar", v, b), True)
            return [(a, pa), (b, path)]

        def payload(v, var):
            if v[0] == "adt" and v[2] == var:
                return v[3][0]
            return ("field", ("downcast", v, var), "0")

        def on_bool(p, r, if_true, if_false):
            if r == ("bool", True):
                return [if_true(p)]
            if r == ("bool", False):
                return [if_false(p)]
            d = self.decide(p, r) if hasattr(self, "decide") else None
            if d is True:
                return [if_true(p)]
            if d is False:
                return [if_false(p)]
            pt = p.fork()
            self.assume(pt, r, True)
            self.assume(p, r, False)
            return [if_true(pt), if_false(p)]

        if re.search(r"<impl bool>::then(::<.*>)?$", nm) and len(args) == 2 and self.closure_target(path, args[1], []) is not None:
            # `c.then(|| v)`: Some(v) if c (the closure runs only then) else None
            outs = []

            def run_then(p_):
                rs_ = self.call_closure(p_, bb, args[1], [])
                if rs_ is None:
                    return [finish(p_, ("adt", OPT, "Some", (("app", nm, (args[1],)),)))]
                return [dead(sp) if r is None else finish(sp, ("adt", OPT, "Some", (r,))) for r, sp in rs_]
            c_ = args[0]
            if c_ == ("bool", True) or self.decide(path, c_) is True:
                return run_then(path)
            if c_ == ("bool", False) or self.decide(path, c_) is False:
                return [finish(path, ("adt", OPT, "None", ()))]
            pf = path.fork()
            self.assume(pf, c_, False)
            outs.append(finish(pf, ("adt", OPT, "None", ())))
            self.assume(path, c_, True)
            outs.extend(run_then(path))
            return outs
        if re.search(r"array::<impl \[.*; \d+\]>::map(::<.*>)?$|<impl \[.*; N\]>::map(::<.*>)?$", nm) and len(args) == 2 and args[0][0] == "array" and self.closure_target(path, args[1], []) is not None:
            # `[a, b].map(f)` = `[f(a), f(b)]`, evaluated in index order
            partial = [((), path)]
            for el in args[0][1]:
                nxt = []
                for done_, p_ in partial:
                    rs_ = self.call_closure(p_, bb, args[1], [el])
                    if rs_ is None:
                        return None
                    for r, sp in rs_:
                        if r is None:
                            nxt.append((None, sp))
                        else:
                            nxt.append((done_ + (r,), sp))
                partial = [(d_, p_) for d_, p_ in nxt if d_ is not None]
                dead_ = [p_ for d_, p_ in nxt if d_ is None]
                if dead_:
                    return [dead(p_) for p_ in dead_] + ([finish(p_, ("array", d_)) for d_, p_ in partial] if False else []) if not partial else None
            return [finish(p_, ("array", d_)) for d_, p_ in partial]
        m = re.search(r"option::Option::<.*>::(map|map_or|map_or_else|and_then|is_some_and|is_none_or|filter|unwrap_or_else|ok_or_else|or_else|inspect)(::<.*>)?$", nm)
        if m and args:
            meth = m.group(1)
            v = self.deref_val(path, args[0]) if args[0][0] == "ref" else args[0]
            f = args[-1]
            if self.closure_target(path, f, []) is None and meth not in ():
                return None
            outs = []
            for var, p in variants(v, "Some", "None"):
                if var == "None":
                    if meth in ("map", "and_then", "filter", "inspect"):
                        outs.append(finish(p, ("adt", OPT, "None", ())))
                    elif meth == "map_or":
                        outs.append(finish(p, args[1]))
                    elif meth == "is_some_and":
                        outs.append(finish(p, ("bool", False)))
                    elif meth == "is_none_or":
                        outs.append(finish(p, ("bool", True)))
                    elif meth in ("map_or_else", "unwrap_or_else", "ok_or_else", "or_else"):
                        df = args[1]
                        rs = self.call_closure(p, bb, df, [])
                        if rs is None:
                            return None
                        for r, sp in rs:
                            if r is None:
                                outs.append(dead(sp))
                            else:
                                outs.append(finish(sp, ("adt", RES, "Err", (r,)) if meth == "ok_or_else" else r))
                else:
                    x = payload(v, "Some")
                    if meth == "unwrap_or_else":
                        outs.append(finish(p, x))
                        continue
                    if meth == "ok_or_else":
                        outs.append(finish(p, ("adt", RES, "Ok", (x,))))
                        continue
                    if meth == "or_else":
                        outs.append(finish(p, v))
                        continue
                    xa = ("ref", ("loc", x, ()), False) if meth in ("filter", "inspect") else x
                    rs = self.call_closure(p, bb, f, [xa])
                    if rs is None:
                        return None
                    for r, sp in rs:
                        if r is None:
                            outs.append(dead(sp))
                        elif meth == "map":
                            outs.append(finish(sp, ("adt", OPT, "Some", (r,))))
                        elif meth == "inspect":
                            outs.append(finish(sp, v if v[0] == "adt" else ("adt", OPT, "Some", (x,))))      # (the closure only looks at the payload; the option is handed on)
                        elif meth == "filter":
                            outs.extend(on_bool(sp, r, lambda q: finish(q, ("adt", OPT, "Some", (x,))), lambda q: finish(q, ("adt", OPT, "None", ()))))
                        else:
                            outs.append(finish(sp, r))
            return outs
        m = re.search(r"result::Result::<.*>::(map_or_else|map_or)(::<.*>)?$", nm)
        if m and len(args) == 3:
            meth = m.group(1)
            v = self.deref_val(path, args[0]) if args[0][0] == "ref" else args[0]
            if self.closure_target(path, args[2], []) is None or (meth == "map_or_else" and self.closure_target(path, args[1], []) is None):
                return None
            outs = []
            for var, p in variants(v, "Ok", "Err"):
                x = payload(v, var)
                if var == "Err" and meth == "map_or":
                    outs.append(finish(p, args[1]))
                    continue
                rs = self.call_closure(p, bb, args[2] if var == "Ok" else args[1], [x])
                if rs is None:
                    return None
                for r, sp in rs:
                    outs.append(dead(sp) if r is None else finish(sp, r))
            return outs
        m = re.search(r"result::Result::<.*>::(map|map_err|and_then|unwrap_or_else|or_else|inspect|inspect_err)(::<.*>)?$", nm)
        if m and args:
            meth = m.group(1)
            v = self.deref_val(path, args[0]) if args[0][0] == "ref" else args[0]
            f = args[-1]
            if self.closure_target(path, f, []) is None:
                return None
            outs = []
            for var, p in variants(v, "Ok", "Err"):
                x = payload(v, var)
                passes = (var == "Ok" and meth in ("map", "and_then", "inspect")) or (var == "Err" and meth in ("map_err", "unwrap_or_else", "or_else", "inspect_err"))
                if not passes:
                    outs.append(finish(p, x if meth == "unwrap_or_else" else (v if v[0] == "adt" else ("adt", RES, var, (x,)))))
                    continue
                rs = self.call_closure(p, bb, f, [("ref", ("loc", x, ()), False) if meth in ("inspect", "inspect_err") else x])
                if rs is None:
                    return None
                for r, sp in rs:
                    if r is None:
                        outs.append(dead(sp))
                    elif meth in ("inspect", "inspect_err"):
                        outs.append(finish(sp, v if v[0] == "adt" else ("adt", RES, var, (x,))))      # (the closure only looks; the result is handed on)
                    elif meth == "map":
                        outs.append(finish(sp, ("adt", RES, "Ok", (r,))))
                    elif meth == "map_err":
                        outs.append(finish(sp, ("adt", RES, "Err", (r,))))
                    else:
                        outs.append(finish(sp, r))
            return outs
        m = re.search(r"(hash_map|btree_map)::Entry::<.*>::(or_insert_with|or_insert|or_default)(::<.*>)?$", nm)
        if m and args:
            meth = m.group(2)
            ent = args[0]
            outs = []
            po = path.fork()
            self.assume(po, ("isvar", ent, "Occupied"), True)
            outs.append(finish(po, ("ref", ("loc", ("app", "entry-value", (ent,)), ()), True)))
            self.assume(path, ("isvar", ent, "Vacant"), True)
            if meth == "or_insert_with":
                rs = self.call_closure(path, bb, args[1], [])
                if rs is None:
                    return None
            else:
                rs = [((args[1] if meth == "or_insert" else ("app", "Default::default", ())), path)]
            for r, sp in rs:
                if r is None:
                    outs.append(dead(sp))
                    continue
                sp.events.append(("entry-insert", bb, ent, r))
                outs.append(finish(sp, ("ref", ("loc", r, ()), True)))
            return outs
        m = re.search(r"iter::Iterator>::collect(::<.*>)?$|iter::FromIterator<.*>>::from_iter(::<.*>)?$", nm)
        if m and args and "collect" in str(self.desugar):
            # collecting a lazily mapped/filtered iterator: one path for the finished collection (an opaque value, or its
            # Ok/Some form when collecting into a Result/Option), one path that produces one element (the adaptor closures run on
            # a fresh item; the element is recorded as a "collect-item" event) and goes on to the next; an element that is an Err
            # (None) ends a collection into Result (Option) with that value
            src = self.deref_val(path, args[0]) if args[0][0] == "ref" else args[0]
            n_id = 0
            while src[0] == "app" and re.search(r"iter::IntoIterator>::into_iter$", str(src[1])) and len(src[2]) == 1 and n_id < 3:
                src = src[2][0]
                n_id += 1
            if not (src[0] == "app" and re.search(r"iter::Iterator>::(map|filter_map|filter|enumerate|cloned|copied)", str(src[1]))) and not (src[0] == "sym" and not str(src[1]).startswith("item@")):
                return None
            dty = (t.get("dest") or {}).get("ty", "")
            into_res, into_opt = dty.startswith("std::result::Result<"), dty.startswith("std::option::Option<")
            item = ("sym", "item@bb%d" % bb)
            outs = []
            p0 = path.fork()
            whole = ("app", nm, (src,))
            p0.events.append(("iter-exhausted", bb, nm, src))
            outs.append(finish(p0, ("adt", RES, "Ok", (whole,)) if into_res else (("adt", OPT, "Some", (whole,)) if into_opt else whole)))
            path.events.append(("iter-item", bb, nm, src, item))
            for el, pe in self.iter_elements(path, bb, src, item):
                if el is None:
                    outs.append(cut(pe))
                    continue
                if el == ("dead",):
                    outs.append(dead(pe))
                    continue
                if el == ("stop",):
                    outs.append(finish(pe, ("adt", RES, "Ok", (whole,)) if into_res else (("adt", OPT, "Some", (whole,)) if into_opt else whole)))
                    continue
                if into_res or into_opt:
                    good_v, bad_v = ("Ok", "Err") if into_res else ("Some", "None")
                    kv = self.known_variant(pe, el)
                    if kv == bad_v:
                        outs.append(finish(pe, el))
                        continue
                    if kv != good_v:
                        pb = pe.fork()
                        self.assume(pb, ("isvar", el, bad_v), True)
                        outs.append(finish(pb, el if el[0] == "adt" else (("adt", RES, "Err", (("field", ("downcast", el, "Err"), "0"),)) if into_res else ("adt", OPT, "None", ()))))
                        self.assume(pe, ("isvar", el, good_v), True)
                    pe.events.append(("collect-item", bb, ("field", ("downcast", el, good_v), "0") if el[0] != "adt" else el[3][0], el))
                else:
                    pe.events.append(("collect-item", bb, el, el))
                outs.append(cut(pe))
            return outs
        m = re.search(r"iter::Iterator>::(try_fold|fold)(::<.*>)?$", nm)
        if m and len(args) == 3:
            meth = m.group(1)
            f = args[2]
            if self.closure_target(path, f, []) is None:
                return None
            item = ("sym", "item@bb%d" % bb)
            self_ty = t.get("callee_self") or ""
            if self_ty.startswith("std::slice::Iter") or "btree_set::Iter" in self_ty or "hash_map::Iter" in self_ty or "btree_map::Iter" in self_ty:
                item = ("ref", ("loc", item, ()), False)
            hook = getattr(self.model, "iter_item", None)
            dty = (t.get("dest") or {}).get("ty", "")
            src = self.deref_val(path, args[0]) if args[0][0] == "ref" else args[0]
            acc0 = args[1]
            outs = []
            p0 = path.fork()
            p0.events.append(("iter-exhausted", bb, nm, src))
            done = acc0 if meth == "fold" else (("adt", RES, "Ok", (acc0,)) if "Result<" in dty else (("adt", OPT, "Some", (acc0,)) if "Option<" in dty else ("adt", "std::ops::ControlFlow", "Continue", (acc0,))))
            outs.append(finish(p0, done))
            if hook is not None:
                it2 = hook(self, path, bb, t, args)
                if it2 is not None:
                    item = it2
            path.events.append(("iter-item", bb, nm, src, item))
            rs = self.call_closure(path, bb, f, [acc0, item])
            if rs is None:
                return None
            for r, sp in rs:
                if r is None:
                    outs.append(dead(sp))
                elif meth == "fold":
                    outs.append(cut(sp, r))
                else:
                    kv = self.known_variant(sp, r)
                    if kv in ("Err", "None", "Break"):
                        outs.append(finish(sp, r))
                    elif kv in ("Ok", "Some", "Continue"):
                        outs.append(cut(sp, r[3][0] if r[0] == "adt" and r[3] else ("field", ("downcast", r, kv), "0")))   # the new accumulator
                    else:
                        bad_v = "Err" if "Result<" in dty else ("None" if "Option<" in dty else "Break")
                        good_v = "Ok" if "Result<" in dty else ("Some" if "Option<" in dty else "Continue")
                        pb = sp.fork()
                        self.assume(pb, ("isvar", r, bad_v), True)
                        outs.append(finish(pb, r))
                        self.assume(sp, ("isvar", r, good_v), True)
                        outs.append(cut(sp))
            return outs
        if re.search(r"iter::Iterator>::count$", nm) and len(args) == 1:
            # `it.take_while(p).count()`: the number of elements in front of the first one that fails p — the position of that
            # element, or the length when there is none (only this use of count is analysed as a loop)
            src = self.deref_val(path, args[0]) if args[0][0] == "ref" else args[0]
            if src[0] == "app" and re.search(r"iter::Iterator>::take_while(::<.*>)?$", str(src[1])) and len(src[2]) == 2:
                item = ("sym", "item@bb%d" % bb)
                if re.search(r"slice::Iter|slice::<impl \[", self_ty_of(src[2][0]) or "") or "slice::Iter" in (t.get("callee_self") or ""):
                    item = ("ref", ("loc", item, ()), False)
                outs = []
                p0 = path.fork()
                p0.events.append(("iter-exhausted", bb, nm, src))
                base = src[2][0]
                outs.append(finish(p0, ("app", "len", (base,))))
                path.events.append(("iter-item", bb, nm, src, item))
                for el, pe in self.iter_elements(path, bb, src, item):
                    if el == ("stop",):
                        outs.append(finish(pe, ("sym", "index@bb%d" % bb)))
                    elif el == ("dead",):
                        outs.append(dead(pe))
                    else:
                        outs.append(cut(pe))
                return outs
        m = re.search(r"iter::Iterator>::(for_each|try_for_each|position|find|any|all|find_map)(::<.*>)?$", nm)
        if m and len(args) >= 2:
            meth = m.group(1)
            f = args[-1]
            if self.closure_target(path, f, []) is None:
                return None
            item = ("sym", "item@bb%d" % bb)
            self_ty = t.get("callee_self") or ""
            if self_ty.startswith("std::slice::Iter") or "btree_set::Iter" in self_ty or "hash_map::Iter" in self_ty or "btree_map::Iter" in self_ty:
                item = ("ref", ("loc", item, ()), False)
            outs = []
            # no (further) element
            p0 = path.fork()
            dty = (t.get("dest") or {}).get("ty", "")
            exhausted = {"for_each": ("unit",), "position": ("adt", OPT, "None", ()), "find": ("adt", OPT, "None", ()), "find_map": ("adt", OPT, "None", ()),
                         "any": ("bool", False), "all": ("bool", True),
                         "try_for_each": ("adt", RES, "Ok", (("unit",),)) if "Result<" in dty else (("adt", OPT, "Some", (("unit",),)) if "Option<" in dty else ("adt", "std::ops::ControlFlow", "Continue", (("unit",),)))}[meth]
            src = self.deref_val(path, args[0]) if args[0][0] == "ref" else args[0]
            p0.events.append(("iter-exhausted", bb, nm, src))
            outs.append(finish(p0, exhausted))
            # one element
            hook = getattr(self.model, "iter_item", None)
            if hook is not None:
                it2 = hook(self, path, bb, t, args)
                if it2 is not None:
                    item = it2
            path.events.append(("iter-item", bb, nm, src, item))
            rs = []
            for el, pe in self.iter_elements(path, bb, src, item):
                if el is None:
                    outs.append(cut(pe))       # the adaptor chain drops this element: on to the next one
                    continue
                if el == ("dead",):
                    outs.append(dead(pe))
                    continue
                if el == ("stop",):
                    outs.append(finish(pe, exhausted))      # take_while ended the iteration
                    continue
                item = el
                xa = ("ref", ("loc", el, ()), False) if meth == "find" else el
                rs1 = self.call_closure(pe, bb, f, [xa])
                if rs1 is None:
                    return None
                rs.extend(rs1)
            for r, sp in rs:
                if r is None:
                    outs.append(dead(sp))
                elif meth == "for_each":
                    outs.append(cut(sp))
                elif meth == "try_for_each":
                    kv = self.known_variant(sp, r)
                    if kv in ("Err", "None", "Break"):
                        outs.append(finish(sp, r))
                    elif kv in ("Ok", "Some", "Continue"):
                        outs.append(cut(sp))
                    else:
                        bad_v = "Err" if "Result<" in dty else ("None" if "Option<" in dty else "Break")
                        good_v = "Ok" if "Result<" in dty else ("Some" if "Option<" in dty else "Continue")
                        pb = sp.fork()
                        self.assume(pb, ("isvar", r, bad_v), True)
                        outs.append(finish(pb, r))
                        self.assume(sp, ("isvar", r, good_v), True)
                        outs.append(cut(sp))
                elif meth == "position":
                    outs.extend(on_bool(sp, r, lambda q: finish(q, ("adt", OPT, "Some", (("sym", "index@bb%d" % bb),))), cut))
                elif meth == "find":
                    outs.extend(on_bool(sp, r, lambda q: finish(q, ("adt", OPT, "Some", (item,))), cut))
                elif meth == "any":
                    outs.extend(on_bool(sp, r, lambda q: finish(q, ("bool", True)), cut))
                elif meth == "all":
                    outs.extend(on_bool(sp, r, cut, lambda q: finish(q, ("bool", False))))
                elif meth == "find_map":
                    kv = self.known_variant(sp, r)
                    if kv == "Some":
                        outs.append(finish(sp, r))
                    elif kv == "None":
                        outs.append(cut(sp))
                    else:
                        pb = sp.fork()
                        self.assume(pb, ("isvar", r, "Some"), True)
                        outs.append(finish(pb, r))
                        self.assume(sp, ("isvar", r, "None"), True)
                        outs.append(cut(sp))
            return outs
        return None

    # ---- driver -------------------------------------------------------------------------------
    def run(self, start=0, init=None):
        p0 = init or Path()
        work = [(start, p0)]
        done = []
        while work:
            if len(done) + len(work) > self.max_paths:
                self.truncated = True
                break
            bb, path = work.pop()
            nxt = self.step_block(bb, path)
            for (nb, np_) in nxt:
                if nb is None:
                    done.append(np_)
                else:
                    work.append((nb, np_))
        return done

    def step_block(self, bb, path):
        fn = self.fn
        vk = (self.fid, bb)
        path.visits[vk] = path.visits.get(vk, 0) + 1
        if self.depth == 0:
            path.trace.append(bb)
        if path.visits[vk] > self.visit_limit:
            path.end = ("loop-limit", bb)
            return [(None, path)]
        il = self.index_loops.get(bb)
        if il is not None and path.visits[vk] == 1 and ("index-loop", bb) not in path.assume:
            cur = path.locals.get((self.fid, il["counter"]))
            if cur == ("int", 0):
                # entering a counting loop over a collection: analysed as `for item in collection` (see find_index_loops)
                try:
                    cv = self.read_loc(path, self.loc_of_place(path, il["coll"]))
                except Exception:
                    cv = None
                if cv is not None:
                    path.assume[("index-loop", bb)] = cv
                    path.locals[(self.fid, il["counter"])] = ("sym", "index@bb%d" % bb)
        b = fn.blocks[bb]
        for i, s in enumerate(b["stmts"]):
            if s["k"] == "assign":
                v = self.rvalue(path, s["rv"], bb)
                loc = self.loc_of_place(path, s["p"])
                self.write_loc(path, loc, v, bb)
            elif s["k"] == "setdiscr":
                pass
        t = b["term"]
        k = t["k"]

        def go(target, pth):
            if (bb, target) in self.cut:
                pth.end = ("cut", bb, target)
                il_ = self.index_loops.get(target)
                if il_ is not None and ("index-loop", target) in pth.assume:
                    # the next iteration must be about the next element: counter == counter + 1 at the back edge
                    cv_ = pth.locals.get((self.fid, il_["counter"]))
                    lin_ = linear(cv_) if cv_ is not None else None
                    if lin_ != ({("sym", "index@bb%d" % target): 1}, 1):
                        pth.end = ("cut-noncanonical", bb, target)
                for c_, sc_ in self.slice_cursors.items():
                    if sc_["header"] == target and ("slice-cursor", c_) in pth.assume:
                        rv_ = pth.locals.get((self.fid, sc_["rest"]))
                        n_ = 0
                        while rv_ is not None and rv_[0] == "ref" and n_ < 4 and not (rv_[1][0] == "loc" and rv_[1][1] == ("sym", "rest@bb%d" % c_)):
                            rv_ = self.deref_val(pth, rv_)
                            n_ += 1
                        if not (rv_ is not None and ((rv_[0] == "ref" and rv_[1][1] == ("sym", "rest@bb%d" % c_) and not rv_[1][2]) or rv_ == ("sym", "rest@bb%d" % c_))):
                            pth.end = ("cut-noncanonical", bb, target)
                return (None, pth)
            if target in self.stop:
                pth.end = ("stop", target)
                pth.trace.append(target)
                return (None, pth)
            return (target, pth)

        if k == "goto":
            return [go(t["target"], path)]
        if k == "return":
            path.end = ("return", path.locals.get((self.fid, 0), ("unit",)))
            return [(None, path)]
        if k in ("unreachable", "resume", "terminate"):
            path.end = (k,)
            return [(None, path)]
        if k == "drop":
            return [go(t["target"], path)]
        if k == "assert":
            c = self.operand(path, t["cond"])
            # operands of the checked arithmetic the assertion guards (x = a OP b; assert !x.1), for guard analyses
            opinfo = None
            try:
                cl = t["cond"].get("p", {}).get("l") if isinstance(t["cond"], dict) else None
                for st in reversed(fn.blocks[bb]["stmts"]):
                    if st["k"] == "assign" and st["p"]["l"] == cl and not st["p"]["pj"] and st["rv"]["k"] == "binop" and st["rv"]["op"].endswith("WithOverflow"):
                        opinfo = (st["rv"]["op"], self.operand(path, st["rv"]["a"]), self.operand(path, st["rv"]["b"]))
                        break
            except Exception:
                opinfo = None
            path.events.append(("assert", bb, t["msg"], c, opinfo))
            return [go(t["target"], path)]
        if k == "switch":
            if Engine.skip_debug_only and t.get("targets") and re.search(r"(^|::)cfg!$", str(t.get("exp", ""))):
                # `if cfg!(debug_assertions) { .. }` / `debug_assert!(..)`: code that exists in debug builds only.  It is effect-free
                # (premise <Cxx>.z, rules/profile.py) and its panic sites are accounted by the panic inventory, so the shape rules
                # follow the release build's path
                path.events.append(("debug-only-skipped", bb))
                return [go(t["targets"][0][1], path)]
            d = self.operand(path, t["discr"])
            known = self.decide(path, d)
            targets = t["targets"]
            if self.model is not None and known is None:
                r = self.model.switch(self, path, bb, d, t)
                if r is not None:
                    known = r
            if known is not None:
                kv = int(known) if isinstance(known, bool) else known
                for val, tb in targets:
                    if val == kv:
                        return [go(tb, path)]
                return [go(t["otherwise"], path)]
            outs = []
            is_bool = t["discr_ty"] == "bool"
            for val, tb in targets:
                if fn.is_unreachable_block(tb):
                    continue
                np_ = path.fork()
                self.assume(np_, d, bool(val) if is_bool else val)
                outs.append(go(tb, np_))
            ob = t["otherwise"]
            if not fn.is_unreachable_block(ob):
                np_ = path.fork()
                if is_bool and len(targets) == 1:
                    self.assume(np_, d, not bool(targets[0][0]))
                elif d[0] == "discr":
                    taken = {v for v, _ in targets}
                    rest = [dv for _, dv in d[2] if dv not in taken]
                    if len(rest) == 1:
                        self.assume(np_, d, rest[0])
                    else:
                        np_.conds.append((d, ("otherwise", tuple(sorted(taken)))))
                else:
                    np_.conds.append((d, ("otherwise", tuple(sorted(v for v, _ in targets)))))
                outs.append(go(ob, np_))
            return outs
        if k == "call":
            args = [self.operand(path, a) for a in t["args"]]
            if not t.get("callee") and isinstance(t.get("func"), dict) and t["func"].get("k") in ("copy", "move"):
                # a call through a function pointer whose value is known (a fn item or a non-capturing closure coerced to `fn`):
                # analysed as the direct call it stands for
                try:
                    fv = self.operand(path, t["func"])
                    n_ = 0
                    while fv[0] == "ref" and n_ < 4:
                        fv = self.deref_val(path, fv)
                        n_ += 1
                except Exception:
                    fv = ("unknown",)
                if fv[0] == "closure":
                    t = dict(t)
                    t["callee_full"] = t["callee_path"] = "<fn-pointer as std::ops::Fn<(..)>>::call"
                    args = [fv, ("tuple", tuple(args))]
                elif fv[0] == "fn":
                    t = dict(t)
                    t["callee"] = fv[1]
                    t["callee_full"] = t["callee_path"] = (self.facts.fns[fv[1]].name if self.facts is not None and fv[1] in self.facts.fns else (fv[2] or fv[1]))
                    if self.facts is not None and fv[1] in self.facts.fns:
                        t["resolved"], t["resolved_kind"], t["resolved_path"] = fv[1], "Item", t["callee_full"]
            name = M.call_name(t)
            snap0 = tuple(self.snapshot(path, a) for a in args)
            outcomes = None
            sc = self.slice_cursors.get(bb)
            if sc is not None and args and ("slice-cursor", bb) not in path.assume:
                # the split_first of a shrinking-cursor walk over a slice: no element left / one more element and the rest
                cv = self.deref_val(path, args[0]) if args[0][0] == "ref" else args[0]
                n_ = 0
                while cv[0] == "ref" and n_ < 4:
                    cv = self.deref_val(path, cv)
                    n_ += 1
                path.assume[("slice-cursor", bb)] = cv
                item = ("ref", ("loc", ("sym", "item@bb%d" % bb), ()), False)
                rest = ("ref", ("loc", ("sym", "rest@bb%d" % bb), ()), False)
                OPT_ = "std::option::Option"
                pe = path.fork()
                pe.events.append(("iter-exhausted", bb, "slice-cursor", cv))
                pe.events.append(("call", bb, name, tuple(args), ("adt", OPT_, "None", ()), t, self.fn.name, snap0))
                self.write_loc(pe, self.loc_of_place(pe, t["dest"]), ("adt", OPT_, "None", ()), bb)
                path.events.append(("iter-item", bb, "slice-cursor", cv, ("sym", "item@bb%d" % bb)))
                val = ("adt", OPT_, "Some", (("tuple", (item, rest)),))
                path.events.append(("call", bb, name, tuple(args), val, t, self.fn.name, snap0))
                self.write_loc(path, self.loc_of_place(path, t["dest"]), val, bb)
                return [go(t["target"], pe), go(t["target"], path)]
            if self.depth < self.max_depth and re.search(r"convert::(Into|From)<", name):
                ctgt = self.carrier_target(t, args)
                if ctgt is not None:
                    return self.do_inline(path, bb, t, args, ctgt, go)
            if self.model is not None:
                outcomes = self.model.call(self, path, bb, t, args)
            if outcomes is None:
                outcomes = self.default_call(path, bb, t, args)
            if outcomes is None and self.desugar and self.depth < self.max_depth and re.search(self.desugar, name):
                outs_ = self.combinator(path, bb, t, args, go)
                if outs_ is not None:
                    return outs_
            if outcomes is None and self.depth < self.max_depth:
                tgt = self.inline_target(path, t, args)
                if tgt is not None:
                    return self.do_inline(path, bb, t, args, tgt, go)
            if outcomes is None:
                snap = tuple(self.snapshot(path, a) for a in args)
                ret = ("app", name, snap)
                path.events.append(("call", bb, name, tuple(args), ret, t, self.fn.name, snap))
                self.havoc_mut_args(path, bb, name, args)
                outcomes = [(ret, None)]
            else:
                path.events.append(("call", bb, name, tuple(args), outcomes[0][0] if len(outcomes) == 1 else None, t, self.fn.name, snap0))
            outs = []
            for n, oc in enumerate(outcomes):
                ret, asm = oc[0], oc[1]
                np_ = path if n == len(outcomes) - 1 else path.fork()
                if len(oc) > 2 and oc[2]:
                    for (wloc, wval) in oc[2]:
                        self.write_loc(np_, wloc, wval, bb)
                if asm:
                    for (term, outcome) in asm:
                        self.assume(np_, term, outcome)
                if ret[0] == "panic":
                    np_.end = ("panic", bb, ret[1])
                    outs.append((None, np_))
                    continue
                if t.get("target") is None:
                    np_.end = ("diverge", bb, name)
                    outs.append((None, np_))
                    continue
                self.write_loc(np_, self.loc_of_place(np_, t["dest"]), ret, bb)
                outs.append(go(t["target"], np_))
            return outs
        path.end = ("unknown-term", k)
        return [(None, path)]
