"""C01 — longest match wins, earlier pattern breaks ties, unmatched input is skipped."""
import re

from . import mirlib as M
from . import symex as S
from . import kernel, cursor, nfa_rules, casts
from .common import BaseModel, run_fn, ret_paths

LEVEL = "other"
EXPLANATION = ("Selection and iteration kernel decided statically: the candidate-selection table of CompiledDfa::find_from "
               "(abstract interpretation over order outcomes: longer extent replaces, equal extent replaces only with a higher "
               "priority, shorter keeps), priority = first index in terminal_ids which is built in pattern order, every matched "
               "transition target is kept for the next character, retry-by-exactly-one-char protocol of next_match, spans made "
               "absolute by adding the reset offset exactly once, add_patterns token type = enumerate index, Thompson identity "
               "shortcut only where ε is the operator's identity, token types never narrowed. That the automaton recognises the "
               "right languages is C02/C03.")
RULES = {"C01.b", "C01.c", "C01.d", "C01.e", "C01.f", "C01.g", "C01.h", "C01.i", "C05.a", "C05.b"}


def check(ctx):
    F = ctx.facts
    # (C12.d: every attempt starts from the start state alone — the scratch buffers of the automaton are cleared on entry)
    kernel.analyze(ctx, {"C01.b", "C01.c", "C01.i", "C05.a", "C05.b", "C05.c", "C12.d"})
    # (C10.a: the public iterator forwards next / peek_n / set_offset / with_offset / advance_to to the implementation as they
    # are and keeps no state of its own — the token rules are stated for the implementation)
    cursor.analyze(ctx, {"C01.d", "C01.e", "C07.b", "C10.a"})
    # (the records handed to the user carry what the scan computed: Match / MatchExt / Span / Position constructors store their
    # arguments)
    from . import pC06 as _p6
    _p6.data_api_rules(ctx, "C01.e")
    nfa_rules.analyze(ctx, {"C01.g"})
    casts.analyze(ctx, {"C01.h"})

    priority_rules(ctx)
    rest(ctx)
    kernel.token_type_uniqueness(ctx, "C01.k", "priority-key-is-the-token-type-but-token-types-may-repeat", "with patterns [x -> 7, [a-z] -> 3, a -> 7] the input \"a\" is reported as type 7 although the pattern with type 3 is listed before the matching pattern with type 7 (priority_of finds the first 7)")
    # (C06.e: the scanned text is the caller's input itself: reported spans are byte offsets into it)
    from . import pC06
    pC06.fresh_iterator_rules(ctx)
    from .common import cache_foundation, language_foundation
    language_foundation(ctx)
    cache_foundation(ctx)


def priority_rules(ctx):
    F = ctx.facts
    # ---- C01.c priority = first position in terminal_ids; terminal_ids in pattern order
    po = F.fn(r"CompiledDfa::priority_of$")
    ctx.analysed_fn(po)
    ex, paths = run_fn(po, F, BaseModel())
    from .common import search_table, is_eq_of, hit_is_index_of
    st = search_table(ex, paths)
    bad = [M.short_name(M.call_name(t)) for bb, t in po.calls(r"Iterator>::(rev|rposition|skip|take|filter|step_by|skip_while|take_while|chain|zip)\b|::(binary_search\w*|sort\w*|partition_point|select_nth\w*)(::<.*>)?$")]
    if bad == ["zip"] and st["source"] and all(re.search(r"zip\(&?\*?self\.terminal_ids, RangeFrom\(0\)\)$", x) for x in st["source"]):
        bad = []        # zip(0..) numbers the elements front to back: enumerate with the pair the other way round
    if bad == ["take_while"] and st["source"] and all(re.search(r"^take_while\(&?\*?self\.terminal_ids, closure#", x) for x in st["source"]) and list(po.calls(r"iter::Iterator>::count$")):
        bad = []        # take_while(!= t).count() *is* the search: the number of entries in front of the first match
    ok_src = bool(st["source"]) and all("self.terminal_ids" in x for x in st["source"]) and not bad
    ctx.ob("C01.c", "priority_of:searches-terminal_ids-front-to-back", ok_src, "search over %s; reordering / non-linear search calls: %s" % (sorted(set(st["source"])), bad), po.loc())
    ctx.floor("C01.c", "paths of priority_of that find the terminal", len(st["hit"]), 1)
    # every way out of priority_of is an outcome of that one search (seed C17k: above 1024 terminals another algorithm answered)
    known_ret = {id(p) for _r, _ic, p in st["hit"]} | {id(p) for _r, p in st.get("exhausted", [])}
    stray = [p for p in paths if p.end and p.end[0] == "return" and id(p) not in known_ret]
    ctx.ob("C01.c", "priority_of:every-result-comes-from-the-one-search", not stray,
           ("%d return path(s) answer without the front-to-back search, e.g. %s under %s" % (len(stray), S.vstr(stray[0].end[1])[:80], [(S.fstr(c)[:50], o) for c, o in stray[0].conds][:3])) if stray else "all results are positions found by the search", po.loc())
    for r, ic, p in st["hit"]:
        good = [c for c, o in ic if o is True and is_eq_of(c, r"item@bb\d+(\.1)?\)?$", r"^\(?\*?terminal_id\)?$")]
        ok = bool(good) and hit_is_index_of(r, good[0])
        ctx.ob("C01.c", "priority_of:first-position-in-terminal_ids", ok, "priority = %s under %s" % (S.vstr(r)[:60], [(S.fstr(c)[:60], o) for c, o in ic]), po.loc())
    for ic, p in st["miss"]:
        ok = any(o is False and is_eq_of(c, r"item@bb\d+(\.1)?\)?$", r"^\(?\*?terminal_id\)?$") for c, o in ic)
        ctx.ob("C01.c", "priority_of:predicate-is-equality-with-the-terminal", ok, "the search moves on under %s" % [(S.fstr(c)[:60], o) for c, o in ic], po.loc())
    # terminal_ids construction: order preserving map over the pattern list, both constructors
    from .cursor import Model as VecModel
    for pat, src in ((r"CompiledDfa as std::convert::From<internal::multi_pattern_nfa::MultiPatternNfa>>::from$", "mp_nfa"),
                     (r"CompiledDfa as std::convert::From<internal::nfa::Nfa>>::from$", "nfa")):
        fn = F.fn(pat)
        ctx.analysed_fn(fn)
        ex, paths = run_fn(fn, F, VecModel(), max_paths=3000)
        found = 0
        for p in paths:
            for c in p.calls(r"Minimizer::minimize$"):
                d = c[3][0]
                if d[0] != "adt" or not d[1].endswith("CompiledDfa"):
                    continue
                found += 1
                tids = d[3][1]
                apps = [x[1] for x in S.subterms(tids) if x[0] == "app"]
                bad = [a for a in apps if re.search(r"Iterator>::(rev|skip|take|filter|step_by|skip_while|take_while|chain|zip)|sort|dedup|reverse|swap|retain", a)]
                uses = S.mentions(tids, lambda x: x == ("sym", src))
                ctx.ob("C01.c", "terminal_ids-in-pattern-order:" + src, not bad and uses,
                       "terminal_ids = %s; reordering/filtering calls: %s" % (S.vstr(tids)[:160], [M.short_name(a) for a in bad]), fn.loc(c[1]))
        ctx.floor("C01.c", "CompiledDfa constructions in " + M.short_name(fn.name) + " from " + src, found, 1)
    # MultiPatternNfa.patterns is filled in pattern order (push in the loop over the input slice)
    tp = F.fn(r"MultiPatternNfa::try_from_patterns$")
    ctx.analysed_fn(tp)
    calls = [M.call_name(t) for bb, t in tp.calls()]
    bad = [c for c in calls if re.search(r"Iterator>::(rev|skip|take|filter|step_by|skip_while|take_while)|sort|reverse|swap", c)]
    ctx.ob("C01.c", "patterns-compiled-in-given-order", not bad and any(re.search(r"add_pattern$", c) for c in calls), "reordering calls in try_from_patterns: %s" % [M.short_name(c) for c in bad], tp.loc())



def rest(ctx):
    F = ctx.facts
    tp = F.fn(r"MultiPatternNfa::try_from_patterns$")
    # ---- C01.f add_patterns: token type = index
    ap = F.fn(r"ScannerBuilder::add_patterns$")
    ctx.analysed_fn(ap)
    ex, paths = run_fn(ap, F, BaseModel())
    # the i-th given pattern string becomes Pattern::new(string, i): the pairs come from enumerate() over the given
    # collection (no reordering / filtering), every Pattern::new takes text and index from the same pair, whatever the
    # loop is written as (map + collect, for + push)
    en = [e for p in paths for e in p.calls(r"Iterator>::enumerate$")]
    ok_en = bool(en) and all(S.mentions(e[3][0], lambda x: x == ("sym", "patterns")) for e in en)
    idx_pos = "0"          # component of the pair that carries the number
    bad = [M.short_name(M.call_name(t)) for f_ in [ap] + list(F.closures_of(ap)) for bb, t in f_.calls(r"Iterator>::(rev|skip|take|filter|filter_map|step_by|skip_while|take_while|chain|zip|cycle)\b|::(sort\w*|reverse|dedup\w*|retain|swap|swap_remove|insert|remove|truncate|pop)$")]
    if not en:
        # numbering by zipping with the natural numbers: (0..).zip(patterns) gives (number, pattern), patterns.zip(0..) the reverse
        def from_zero(x):
            return x[0] == "adt" and str(x[1]).endswith("RangeFrom") and bool(x[3]) and x[3][0] == ("int", 0)
        zp = [e for p in paths for e in p.calls(r"Iterator>::zip(::<.*>)?$")]
        if zp and all(from_zero(e[3][0]) and S.mentions(e[3][1], lambda x: x == ("sym", "patterns")) for e in zp):
            ok_en, idx_pos = True, "0"
            bad = [b_ for b_ in bad if b_ != "zip" and not b_.endswith("::zip")]
        elif zp and all(from_zero(e[3][1]) and S.mentions(e[3][0], lambda x: x == ("sym", "patterns")) for e in zp):
            ok_en, idx_pos = True, "1"
            bad = [b_ for b_ in bad if b_ != "zip" and not b_.endswith("::zip")]
    ctx.ob("C01.f", "add_patterns:enumerates-the-given-patterns", ok_en and not bad, "enumerate over %s; reordering/filtering calls %s" % ([S.vstr(e[3][0])[:40] for e in en][:2], bad), ap.loc())
    n_new = 0
    from .common import fn_items_of
    for body in [ap] + list(F.closures_of(ap)) + fn_items_of(F, ap):
        if body is ap:
            ex_b, ps_b = ex, paths
        else:
            ex_b, ps_b = run_fn(body, F, BaseModel())
        for p in ps_b:
            for pn in p.calls(r"pattern::Pattern::new$"):
                n_new += 1
                idx = S.fstr(pn[3][1])
                txt = S.fstr(ex_b.deref_val(p, pn[3][0]) if pn[3][0][0] == "ref" else pn[3][0])
                m = re.match(r"^\(?(item@bb\d+|arg2%s)\)?\.%s$" % ("" if body.kind == "Closure" else "|arg1", idx_pos), idx)
                ok = m is not None and (m.group(1) + "." + ("1" if idx_pos == "0" else "0")) in txt.replace("(", "").replace(")", "")
                ctx.ob("C01.f", "add_patterns:token-type-is-the-enumerate-index", ok,
                       "Pattern::new(%s, %s) (second argument must be the unmodified index of the pair the text comes from)" % (txt[:50], idx), body.loc())
    ctx.floor("C01.f", "Pattern::new calls in add_patterns", n_new, 1)
    pn = F.fn(r"pattern::Pattern::new$")
    ex, paths = run_fn(pn, F, BaseModel())
    for p in ret_paths(paths):
        r = p.end[1]
        ok = r[0] == "adt" and r[3][0] == ("sym", "pattern") and r[3][1] == ("sym", "token_type")
        ctx.ob("C01.f", "Pattern::new-stores-its-arguments", ok, "Pattern::new returns %s" % S.vstr(r), pn.loc())
    tid = F.fn(r"pattern::Pattern::terminal_id$")
    ex, paths = run_fn(tid, F, BaseModel())
    for p in ret_paths(paths):
        ctx.ob("C01.f", "Pattern::terminal_id-reads-token_type", S.vstr(p.end[1]) == "self.token_type", "returns %s" % S.vstr(p.end[1]), tid.loc())
    # the token type reaches the reported match unchanged: Nfa::set_terminal_id(pattern.terminal_id()) in try_from_patterns
    ex, paths = run_fn(tp, F, BaseModel(), max_paths=4000)
    n = 0
    for p in paths:
        for c in p.calls(r"Nfa::set_terminal_id$"):
            n += 1
            a = c[3][1]
            ok = a[0] == "app" and re.search(r"Pattern::terminal_id$", a[1]) is not None and "item@" in S.vstr(a)
            ctx.ob("C01.h", "nfa-labelled-with-its-own-pattern-token-type", ok, "set_terminal_id(%s)" % S.vstr(a), tp.loc(c[1]))
    ctx.floor("C01.h", "set_terminal_id calls in try_from_patterns", n, 1)