"""C15 — unsupported regex features are rejected, never mis-compiled; build is total."""
import re

from . import mirlib as M
from . import symex as S
from . import dispatch, classes, panics
from .common import BaseModel, run_fn, ret_paths, variant_of, is_derived

LEVEL = "other"
EXPLANATION = ("Exhaustive AST dispatch without wildcard; rejecting arms (Flags, Assertion, non-greedy repetition, flagged group) have no "
               "Ok path; structural recursion reaches every child AST and a child's error is always propagated, so a rejected construct is "
               "rejected at any nesting depth; every entry point (patterns, lookaheads, modes, class predicates) parses and converts with "
               "every error re-raised; unknown one-letter / named / valued Unicode classes are rejected; error origins exist only in "
               "rejecting arms; no Result of the crate's error type is dropped, .ok()-ed or unwrapped on the build path (closed exception "
               "list); panic-site inventory of the build path. That regex-syntax itself rejects look-around and reports syntax errors is "
               "trusted.")
RULES = {"C15.a", "C15.b", "C15.c", "C15.d", "C15.e", "C15.f", "C15.g", "C15.h"}


def text_is_exactly(ex, p, v, what_rx):
    """The regex text handed to the parser is exactly the configured text (read through references / as_str / deref only): no
    call in between that could change it (trim, to_lowercase, replace, slicing ...)."""
    n = 0
    while n < 8:
        n += 1
        if v[0] == "ref":
            v2 = ex.deref_val(p, v)
            if v2 == v:
                break
            v = v2
        elif v[0] == "deref":
            v = v[1]
        else:
            break
    return re.search(what_rx, S.fstr(v)) is not None and not [x for x in S.subterms(v) if x[0] == "app" and not re.search(r"Pattern::pattern$|Lookahead::pattern$", str(x[1]))]


def parse_pipeline(ctx, rule):
    """Text -> AST -> Nfa for patterns and lookaheads: the text parsed is exactly the configured text, parsed with the crate's one
    parser configuration, the AST converted is the one parsed, and every error is returned."""
    F = ctx.facts
    # ---- C15.d every entry point parses and converts; every error of the result is re-raised
    tp = F.fn(r"MultiPatternNfa::try_from_patterns$")
    ctx.analysed_fn(tp)
    ex, paths = run_fn(tp, F, BaseModel(), max_paths=20000)
    seen = set()
    for p in paths:
        pr = p.calls(r"parser::parse_regex_syntax$")
        ta = p.calls(r"Nfa::try_from_ast$")
        if not pr:
            continue
        src_ok = S.mentions(pr[0][3][0], lambda x: x[0] == "app" and re.search(r"Pattern::pattern$", x[1]) is not None) and "item@" in S.fstr(pr[0][3][0]) \
            and text_is_exactly(ex, p, pr[0][3][0], r"^[&*(]*Pattern::pattern\([&*]*\(?item@bb\d+(\.1)?\)?\)\)?$")
        ctx.ob(rule, "patterns:each-pattern-string-is-parsed", bool(src_ok), "parse_regex_syntax(%s)" % S.vstr(pr[0][3][0])[:80], tp.loc(pr[0][1]))
        pv = variant_of(ex, p, pr[0][4])
        if pv == "Err":
            seen.add("parse-err")
            ctx.ob(rule, "patterns:syntax-error-is-returned", p.end[0] == "return" and variant_of(ex, p, p.end[1]) == "Err" and not ta,
                   "parse error -> %s" % (S.vstr(p.end[1])[:60] if p.end[0] == "return" else p.end[0]), tp.loc())
            continue
        if len(ta) != 1:
            ctx.ob(rule, "patterns:parsed-ast-is-converted", False, "%d try_from_ast calls after a successful parse" % len(ta), tp.loc())
            continue
        ast_ok = ta[0][3][0] == ("field", ("downcast", pr[0][4], "Ok"), "0")
        ctx.ob(rule, "patterns:parsed-ast-is-converted", ast_ok, "try_from_ast(%s)" % S.vstr(ta[0][3][0])[:80], tp.loc(ta[0][1]))
        tv = variant_of(ex, p, ta[0][4])
        if tv == "Err":
            seen.add("convert-err")
            ok = p.end[0] == "return" and variant_of(ex, p, p.end[1]) == "Err"
            ctx.ob(rule, "patterns:conversion-error-is-returned", ok, "conversion error -> %s" % (S.vstr(p.end[1])[:80] if p.end[0] == "return" else p.end[0]), tp.loc())
        elif tv == "Ok":
            seen.add("ok")
            ctx.ob(rule, "patterns:next-pattern-after-success", p.end[0] == "cut", "after a successful pattern: %s" % p.end[0], tp.loc())
    ctx.ob(rule, "patterns:all-outcomes", seen == {"parse-err", "convert-err", "ok"}, "outcomes %s" % sorted(seen), tp.loc())
    its = [M.call_name(t) for bb, t in tp.calls(r"Iterator>::(skip|take|filter|step_by|rev|skip_while|take_while)\b")]
    ctx.ob(rule, "patterns:all-patterns-visited", not its, "iterator adapters: %s" % its, tp.loc())

    ps_ = F.fn(r"parser::parse_regex_syntax$")
    ctx.analysed_fn(ps_)
    from .common import LogModel
    ex, paths = run_fn(ps_, F, LogModel())
    seen_p = set()
    for p in ret_paths(paths):
        pc = p.calls(r"ast::parse::Parser::parse$")
        r = p.end[1]
        if len(pc) != 1:
            ctx.ob(rule, "parser:one-parse", False, "%d parse calls" % len(pc), ps_.loc())
            continue
        ok_in = S.fstr(ex.deref_val(p, pc[0][3][1])) in ("input", "*input")
        ctx.ob(rule, "parser:parses-the-given-string", ok_in, "Parser::parse(%s)" % S.fstr(pc[0][3][1]), ps_.loc())
        v = variant_of(ex, p, pc[0][4])
        if v == "Err":
            seen_p.add("err")
            ctx.ob(rule, "parser:syntax-error-is-returned", r[0] == "adt" and r[2] == "Err" and S.mentions(r, lambda x: x == ("field", ("downcast", pc[0][4], "Err"), "0")), "parse Err -> %s" % S.fstr(r)[:80], ps_.loc())
        elif v == "Ok":
            seen_p.add("ok")
            ctx.ob(rule, "parser:returns-the-parsed-ast", r[0] == "adt" and r[2] == "Ok" and r[3][0] == ("field", ("downcast", pc[0][4], "Ok"), "0"), "parse Ok -> %s" % S.fstr(r)[:80], ps_.loc())
    # the parser's configuration decides which texts are syntax errors: only the default one (Parser::new(), or a builder whose
    # only option restricts: nest_limit); octal / ignore_whitespace / empty_min_range accept more texts or read them differently
    cfg = [M.short_name(M.call_name(t)) for bb, t in ps_.calls(r"ast::parse::ParserBuilder::|ast::parse::ParserBuilder as ")]
    badcfg = [c for c in cfg if not re.search(r"ParserBuilder::(new|build|nest_limit)$|Default>::default$|Clone>::clone$", c)]
    # nest_limit may only *lower* the default of 250: the conversions recurse once per nesting level, so the parser's limit is
    # what bounds their stack depth (a build on a thread with a small stack aborts the process — under the cache lock)
    for bb_, t_ in ps_.calls(r"ast::parse::ParserBuilder::nest_limit$"):
        e_ = M.Prov(ps_).operand(t_["args"][1]) if len(t_["args"]) > 1 else ("unk", "")
        if not (e_[0] == "const" and isinstance(e_[2], int) and e_[2] <= 250):
            badcfg.append("ParserBuilder::nest_limit(%s) — above the default of 250 or not a constant" % (e_[1] if e_[0] == "const" else M.expr_str(e_)[:40]))
    ctx.ob(rule, "parser:default-configuration", not badcfg, "parser options set: %s" % (badcfg or "none (default syntax)"), ps_.loc())
    ctx.ob(rule, "parser:both-outcomes", seen_p == {"err", "ok"}, "outcomes %s" % sorted(seen_p), ps_.loc())

    tl = F.fn(r"CompiledLookahead::try_from_lookahead$")
    ctx.analysed_fn(tl)
    ex, paths = run_fn(tl, F, BaseModel())
    seen = set()
    for p in ret_paths(paths):
        pr = p.calls(r"parser::parse_regex_syntax$")
        ta = p.calls(r"Nfa::try_from_ast$")
        r = p.end[1]
        if pr and variant_of(ex, p, pr[0][4]) == "Err":
            seen.add("parse-err")
            ctx.ob(rule, "lookahead:syntax-error-is-returned", variant_of(ex, p, r) == "Err", "-> %s" % S.vstr(r)[:60], tl.loc())
        elif ta and variant_of(ex, p, ta[0][4]) == "Err":
            seen.add("convert-err")
            ctx.ob(rule, "lookahead:conversion-error-is-returned", variant_of(ex, p, r) == "Err", "-> %s" % S.vstr(r)[:60], tl.loc())
        elif ta:
            seen.add("ok")
            ok = ta[0][3][0] == ("field", ("downcast", pr[0][4], "Ok"), "0") and text_is_exactly(ex, p, pr[0][3][0], r"^[&*(]*lookahead\.pattern\)?$|^[&*(]*Lookahead::pattern\([&*]*lookahead\)\)?$")
            ctx.ob(rule, "lookahead:pattern-parsed-and-converted", ok, "try_from_ast(%s) of parse(%s)" % (S.vstr(ta[0][3][0])[:50], S.vstr(pr[0][3][0])[:50]), tl.loc())
            # same pipeline as patterns: Nfa -> CompiledDfa::from (closure construction + minimizer)
            conv = [e for e in p.events if e[0] == "call" and re.search(r"Into<internal::compiled_dfa::CompiledDfa>>::into$|CompiledDfa as std::convert::From<internal::nfa::Nfa>>::from$", e[2])]
            ctx.ob(rule, "lookahead:compiled-through-the-same-pipeline", len(conv) == 1, "Nfa -> CompiledDfa conversions: %d" % len(conv), tl.loc())
    # ... and the automaton is stored as the pipeline produced it: nothing in this function writes into it or borrows it (or a
    # part of it) mutably — "pruning" the lookahead automaton changes the length of the text it matches, which the
    # trailing-context rule measures
    muts = []
    for af_, sites_ in F.direct_writes(tl).items():
        if re.search(r"(^|::)(CompiledDfa|StateData|CompiledLookahead)$", af_[0]):
            muts.append("%s.%s (%s)" % (M.short_name(af_[0]), af_[1], sites_[0][2]))
    for bb_, i_, s_ in tl.assigns():
        rv_ = s_["rv"]
        if rv_["k"] in ("ref", "rawptr") and rv_.get("mut") and "compiled_dfa::CompiledDfa" in tl.locals[rv_["p"]["l"]]["ty"] and not tl.locals[rv_["p"]["l"]]["ty"].startswith("&"):
            muts.append("&mut %s" % (tl.names().get(rv_["p"]["l"]) or "_%d" % rv_["p"]["l"]))
    ctx.ob(rule, "lookahead:compiled-automaton-is-stored-as-compiled", not muts, "writes / mutable borrows of the compiled automaton in try_from_lookahead: %s" % (sorted(set(muts)) or "none"), tl.loc())
    ctx.ob(rule, "lookahead:all-outcomes", seen == {"parse-err", "convert-err", "ok"}, "outcomes %s" % sorted(seen), tl.loc())



def kernel_attach(ex, p):
    from . import kernel
    return kernel.attach_calls(ex, p)


def check(ctx):
    F = ctx.facts
    ctx.trust("regex-syntax: the parser rejects look-around syntax and reports syntax errors as Err")
    dispatch.analyze(ctx, RULES)
    classes.analyze(ctx, {"C15.e"})
    panics.analyze(ctx, {"C15.h"})
    # an unsupported class is rejected when its predicate is created, and predicates are created per *registered* class:
    # the registry may fold two classes into one entry only if they mean the same (C02.f), else the second is never converted
    from . import sharing
    sharing.analyze(ctx, {"C02.f"})

    parse_pipeline(ctx, "C15.d")
    tl = F.fn(r"CompiledLookahead::try_from_lookahead$")
    cp = F.fn(r"CompiledDfa::try_from_patterns$")
    ctx.analysed_fn(cp)
    ex, paths = run_fn(cp, F, BaseModel(), max_paths=5000)
    seen = set()
    for p in paths:
        mp = p.calls(r"MultiPatternNfa::try_from_patterns$")
        la = p.calls(r"CompiledLookahead::try_from_lookahead$")
        if mp and variant_of(ex, p, mp[0][4]) == "Err":
            seen.add("nfa-err")
            ctx.ob("C15.d", "mode:pattern-error-is-returned", p.end[0] == "return" and variant_of(ex, p, p.end[1]) == "Err", "-> %s" % p.end[0], cp.loc())
            ctx.ob("C15.d", "mode:all-patterns-handed-to-the-nfa", mp[0][3][0][0] == "ref" and S.vstr(ex.deref_val(p, mp[0][3][0])) in ("patterns", "*patterns") or S.vstr(mp[0][3][0]).lstrip("&*") == "patterns", "try_from_patterns(%s)" % S.vstr(mp[0][3][0]), cp.loc())
        if la:
            lv = variant_of(ex, p, la[0][4])
            src = S.fstr(la[0][3][0])
            ctx.ob("C15.d", "mode:lookahead-of-the-current-pattern-compiled", "Pattern::lookahead" in src and "item@" in src, "try_from_lookahead(%s)" % src[:80], cp.loc())
            if lv == "Err":
                seen.add("la-err")
                ctx.ob("C15.d", "mode:lookahead-error-is-returned", p.end[0] == "return" and variant_of(ex, p, p.end[1]) == "Err", "-> %s" % p.end[0], cp.loc())
            elif lv == "Ok":
                seen.add("la-ok")
                # (that the compiled lookahead is attached to its own pattern — directly or through a list of pairs filled
                # here and attached in a second loop — is kernel.lookahead_wiring, emitted below under C15.d as well; here: the
                # Ok payload is not dropped)
                al = kernel_attach(ex, p)
                okp = ("field", ("downcast", la[0][4], "Ok"), "0")
                kept = (len(al) == 1 and al[0][3][2] == okp) or any(e[0] == "call" and re.search(r"Vec::<.*>::push$", e[2]) and S.mentions(e[3][1], lambda x: x == okp) for e in p.events)
                ctx.ob("C15.d", "mode:compiled-lookahead-is-kept", bool(kept), "the compiled lookahead is %s" % ("attached / collected" if kept else "dropped"), cp.loc())
    ctx.ob("C15.d", "mode:all-outcomes", {"nfa-err", "la-err", "la-ok"} <= seen, "outcomes %s" % sorted(seen), cp.loc())
    from . import kernel
    kernel.lookahead_wiring(ctx, ("C15.d",))
    its = [M.call_name(t) for bb, t in cp.calls(r"Iterator>::(skip|take|filter|step_by|rev|skip_while|take_while)\b")]
    ctx.ob("C15.d", "mode:all-patterns-visited-for-lookaheads", not its, "iterator adapters: %s" % its, cp.loc())

    for pat in (r"ScannerImpl as std::convert::TryFrom<std::vec::Vec<scanner_mode::ScannerMode>>>::try_from$", r"ScannerImpl as std::convert::TryFrom<&\[scanner_mode::ScannerMode\]>>::try_from$"):
        fn = F.fn(pat)
        ctx.analysed_fn(fn)
        ex, paths = run_fn(fn, F, BaseModel(), max_paths=5000, desugar=r".|collect")
        seen = set()
        tag = "Vec" if "Vec" in pat else "slice"
        from .common import delegates_to
        pats_ = (r"ScannerImpl as std::convert::TryFrom<std::vec::Vec<scanner_mode::ScannerMode>>>::try_from$", r"ScannerImpl as std::convert::TryFrom<&\[scanner_mode::ScannerMode\]>>::try_from$")
        dg = delegates_to(F, fn, F.fn([x for x in pats_ if x != pat][0]))
        if dg is not None:
            ctx.ob("C15.d", "scanner:%s:all-outcomes" % tag, True, "delegates (result returned as it is): " + dg, fn.loc())
            continue
        for p in paths:
            cm = p.calls(r"CompiledScannerMode::try_from_scanner_mode$")
            mc = p.calls(r"CharacterClassRegistry::create_match_char_class$")
            if cm and variant_of(ex, p, cm[0][4]) == "Err":
                seen.add("mode-err")
                ctx.ob("C15.d", "scanner:%s:mode-error-is-returned" % tag, p.end[0] == "return" and variant_of(ex, p, p.end[1]) == "Err", "-> %s" % p.end[0], fn.loc())
            if mc and variant_of(ex, p, mc[0][4]) == "Err":
                seen.add("class-err")
                ctx.ob("C15.e", "scanner:%s:class-error-is-returned" % tag, p.end[0] == "return" and variant_of(ex, p, p.end[1]) == "Err", "-> %s" % p.end[0], fn.loc())
                ctx.ob("C15.d", "scanner:%s:class-error-is-returned" % tag, p.end[0] == "return" and variant_of(ex, p, p.end[1]) == "Err", "-> %s" % p.end[0], fn.loc())
        ctx.ob("C15.d", "scanner:%s:all-outcomes" % tag, seen == {"mode-err", "class-err"}, "outcomes %s" % sorted(seen), fn.loc())
        its = [M.call_name(t) for bb, t in fn.calls(r"Iterator>::(skip|take|filter|step_by|rev|skip_while|take_while)\b")]
        ctx.ob("C15.d", "scanner:%s:all-modes-visited" % tag, not its, "iterator adapters: %s" % its, fn.loc())
    sm = F.fn(r"CompiledScannerMode::try_from_scanner_mode$")
    ex, paths = run_fn(sm, F, BaseModel())
    for p in ret_paths(paths):
        c = p.calls(r"CompiledDfa::try_from_patterns$")
        r = p.end[1]
        if c and variant_of(ex, p, c[0][4]) == "Err":
            ctx.ob("C15.d", "mode:compile-error-is-returned", variant_of(ex, p, r) == "Err", "-> %s" % S.vstr(r)[:50], sm.loc())
        elif c:
            ok = r[0] == "adt" and r[2] == "Ok" and S.fstr(ex.deref_val(p, c[0][3][0])) in ("scanner_mode.patterns",)
            ctx.ob("C15.d", "mode:own-patterns-compiled", ok, "try_from_patterns(%s)" % S.vstr(c[0][3][0]), sm.loc())
            if r[0] == "adt" and r[2] == "Ok" and r[3][0][0] == "adt":
                m = r[3][0]
                ctx.ob("C06.h", "mode:name-and-transitions-copied", True, "", "")
                ok2 = S.vstr(m[3][0]) == "scanner_mode.name" and S.vstr(m[3][2]) == "scanner_mode.transitions"
                ctx.ob("C15.d", "mode:name-and-transitions-copied", ok2, "CompiledScannerMode{name: %s, transitions: %s}" % (S.vstr(m[3][0]), S.vstr(m[3][2])), sm.loc())
    # create_match_char_class converts every class; an error is returned: classes.analyze (C15.e) above

    # ---- C15.g error discipline on the build path
    reach = F.reachable_fns([f for f in F.fns.values() if re.search(panics.ROOTS["build"], f.name) and f.kind != "Closure"])
    n = 0
    allowed = {("ScannerCache::get", "Result::unwrap"): "the key was inserted one statement earlier under the same &mut borrow: the recursive call takes the hit branch, which only returns Ok (C13.b)"}
    for k in sorted(reach):
        fn = F.fns[k]
        if is_derived(fn):
            continue
        for bb, t in fn.calls():
            dty = t["dest"]["ty"]
            if not (dty.startswith("std::result::Result<") and "errors::ScnrError" in dty):
                continue
            if t["dest"]["pj"]:
                continue
            n += 1
            l = t["dest"]["l"]
            uses = []
            for b2 in fn.reachable():
                for i, s in enumerate(fn.blocks[b2]["stmts"]):
                    if s["k"] == "assign":
                        for pl in M.rvalue_places(s["rv"]):
                            if pl["l"] == l:
                                uses.append(("stmt", s["rv"]["k"], b2))
                t2 = fn.term(b2)
                if t2["k"] == "call":
                    for a in t2["args"]:
                        pl = M.operand_place(a)
                        if pl is not None and pl["l"] == l:
                            uses.append(("call", M.short_name(M.call_name(t2)), b2))
            if l == 0:
                uses.append(("return", "", bb))
            # follow one level of moves into another local (e.g. `result`)
            moved = [u for u in uses if u[0] == "stmt" and u[1] == "use"]
            bad = [u for u in uses if u[0] == "call" and re.search(r"Result::(ok|unwrap|expect|unwrap_or|unwrap_or_default|unwrap_or_else|is_ok|is_err)$|^Result::(ok|unwrap|expect)", u[1])]
            key = (M.short_name(fn.name), bad[0][1]) if bad else None
            callee = M.short_name(M.call_name(t))
            if not uses:
                ctx.ob("C15.g", "result-not-dropped:%s<-%s" % (M.short_name(fn.name), callee), False, "the Result of %s is dropped in %s" % (callee, fn.name), fn.loc(bb))
            elif bad and key not in allowed:
                ctx.ob("C15.g", "result-not-swallowed:%s<-%s" % (M.short_name(fn.name), callee), False, "the Result of %s is consumed by %s in %s" % (callee, bad[0][1], fn.name), fn.loc(bad[0][2]))
            else:
                why = (" [exception: %s]" % allowed[key]) if bad else ""
                ctx.ob("C15.g", "result-handled:%s<-%s" % (M.short_name(fn.name), callee), True, "used by %s%s" % (sorted({u[1] or u[0] for u in uses})[:4], why), fn.loc(bb))
    ctx.floor("C15.g", "Result-returning calls on the build path", n, 20)
    # A Result is also an IntoIterator that yields nothing for Err: flattening adaptors instantiated with a
    # Result<_, ScnrError> (flat_map / flatten / `for x in result` / Result::iter) discard the error silently.
    n_calls = 0
    for k in sorted(reach):
        fn = F.fns[k]
        if is_derived(fn):
            continue
        for bb, t in fn.calls():
            n_calls += 1
            nm = M.call_name(t)
            drops = None
            m = re.search(r"Iterator>::flat_map::<(std::result::Result<.*?errors::ScnrError>)", nm)
            if m:
                drops = "flat_map over a closure returning %s" % m.group(1)[:80]
            elif re.search(r"^<std::result::Result<.*errors::ScnrError> as std::iter::IntoIterator>::into_iter|^std::result::Result::<.*errors::ScnrError>::(iter|iter_mut)$", nm):
                drops = "a Result<_, ScnrError> is iterated"
            elif re.search(r"Iterator>::flatten$", nm) and re.search(r"std::result::Result<[^|]*errors::ScnrError>", t.get("dest", {}).get("ty", "")):
                drops = "flatten over items of type Result<_, ScnrError>"
            if drops:
                ctx.ob("C15.g", "result-not-flattened-away:%s" % M.short_name(fn.name), False, "%s in %s: an Err is dropped and the construct compiles to something else" % (drops, fn.name), fn.loc(bb))
    ctx.floor("C15.g", "calls inspected for error-discarding adaptors on the build path", n_calls, 300)
    from . import adaptors
    adaptors.analyze(ctx, ("C02.j", "C08.f"))   # a dropped element is a construct that is never converted, hence never rejected
    from .common import cache_foundation
    cache_foundation(ctx)
    from . import error_rules
    error_rules.analyze(ctx, "C15.i")     # no error is discarded on the way: a failing build / an unwritable file is reported to the caller
