"""C18 — the DOT export is a faithful picture of the compiled automata (dot.rs, scanner_impl.rs)."""
import re

from . import mirlib as M
from . import symex as S
from . import panics
from .common import LogModel, run_fn, ret_paths, variant_of, argval, argstr

ADAPTERS = r"Iterator>::(skip|take|filter|step_by|rev|skip_while|take_while|chain|zip)\b"


def fmt_parts(t, ex=None, p=None):
    """(template bytes as text, [argument values]) of a formatted string term, or None."""
    r = _fmt_parts(t)
    if r is None or ex is None:
        return r
    return r[0], [ex.deref_val(p, v) for v in r[1]]


def text_pieces(t, ex=None, p=None):
    """(literal text, [values]) a piece of text is made of, whether it was built by format!, by `x.to_string() + "lit"` or
    by push_str: the literals concatenated (a format template as the driver prints it), and the displayed values in order."""
    r = fmt_parts(t, ex, p)
    if r is not None:
        return r
    # `X(..).to_string()` of a type of the crate with its own Display: what that impl writes for this value
    if ex is not None and p is not None and ex.facts is not None and t is not None:
        v = t
        n_ = 0
        while v[0] in ("ref", "deref") and n_ < 6:
            v2 = ex.deref_val(p, v) if v[0] == "ref" else v[1]
            if v2 == v:
                break
            v = v2
            n_ += 1
        if v[0] == "adt" and not str(v[1]).startswith("std::") and not str(v[1]).startswith("core::") and not str(v[1]).startswith("alloc::"):
            tyname = str(v[1]).split("::")[-1]
            dfs = [f for f in ex.facts.fns.values() if re.search(r"<(\w+::)*%s(<.*>)? as std::fmt::Display>::fmt$" % re.escape(tyname), f.name)]
            if len(dfs) == 1:
                exd = S.Engine(dfs[0], ex.facts, ex.model, cut_edges=dfs[0].back_edges(), desugar=None)
                ip = p.fork()
                ip.end = None
                ip.locals[(exd.fid, 1)] = ("ref", ("loc", v, ()), False)
                ip.locals[(exd.fid, 2)] = ("sym", "FORMATTER")
                rs_ = [q for q in exd.run(0, ip) if q.end and q.end[0] == "return"]
                if len(rs_) == 1:
                    rr = fmt_parts(rs_[0].end[1], exd, rs_[0])
                    if rr is not None:
                        return rr
    lits, vals = [], []

    def walk(x, depth=0):
        if depth > 8:
            return False
        n_ = 0
        while x[0] in ("ref", "deref") and n_ < 6:
            if x[0] == "ref":
                if ex is not None and p is not None:
                    x2 = ex.deref_val(p, x)
                else:
                    x2 = x[3] if len(x) > 3 else x
                if x2 == x:
                    break
                x = x2
            else:
                x = x[1]
            n_ += 1
        if x[0] == "app" and re.search(r"ops::Add<.*>>::add$", str(x[1])) and len(x[2]) == 2:
            return walk(x[2][0], depth + 1) and walk(x[2][1], depth + 1)
        if x[0] == "app" and re.search(r"<impl \[.*\]>::(concat|join)(::<.*>)?$|slice::Concat<.*>>::concat$", str(x[1])) and x[2]:
            # [a, "/", b, ..].concat()
            if re.search(r"join", str(x[1])) and (len(x[2]) < 2 or S.fstr(x[2][1]).strip('&*') != '""'):
                return False
            arr = x[2][0]
            n2 = 0
            while arr[0] in ("ref", "deref") and n2 < 6:
                arr = (ex.deref_val(p, arr) if ex is not None else (arr[3] if len(arr) > 3 else arr)) if arr[0] == "ref" else arr[1]
                n2 += 1
            if arr[0] not in ("array", "vec"):
                return False
            return all(walk(a_, depth + 1) for a_ in arr[1])
        if x[0] == "const" and isinstance(x[1], str) and x[1].startswith('"'):
            lits.append(x[1].strip('"'))
            return True
        if x[0] == "app" and re.search(r"fmt::|format", str(x[1])):
            return False
        vals.append(x)
        return True
    if t is not None and walk(t) and (lits or vals) and any(x_[0] == "app" and re.search(r"ops::Add<.*>>::add$|::concat(::<.*>)?$|::join(::<.*>)?$", str(x_[1])) for x_ in S.subterms(t)):
        return "".join(lits), vals
    return None


def template_pieces(tpl):
    """Pieces of a compiled format template as the driver prints it (b"..."): [("lit", text) | ("arg",)], or None.
    Encoding (rustc's fmt::Arguments::new templates): a byte n < 0x80 announces a literal of n bytes, 0xc0 the next argument,
    0x00 ends the template."""
    import ast
    m = re.search(r'b"(?:[^"\\]|\\.)*"', tpl)
    if not m:
        return None
    try:
        bs = ast.literal_eval(m.group(0))
    except Exception:
        return None
    out, i = [], 0
    while i < len(bs):
        b = bs[i]
        if b == 0:
            break
        if b == 0xC0:
            out.append(("arg",))
            i += 1
        elif b < 0x80:
            out.append(("lit", bs[i + 1:i + 1 + b].decode("utf-8", "replace")))
            i += 1 + b
        else:
            return None
    return out


def node_name_parts(fp):
    """(prefix value, id value) of a node name `"<prefix><id>"` — the id may be an argument or a literal number that the
    compiler folded into the template (`format!("\"{}{}\"", prefix, 0)`)."""
    if fp is None:
        return None
    if len(fp[1]) == 2:
        return fp[1][0], fp[1][1]
    tp = template_pieces(fp[0]) if isinstance(fp[0], str) else None
    if tp and len(fp[1]) == 1 and [x[0] for x in tp] == ["lit", "arg", "lit"] and tp[0][1] == '"':
        m = re.match(r'^(\d+)"$', tp[2][1])
        if m:
            return fp[1][0], ("int", int(m.group(1)))
    return None


def _fmt_parts(t):
    for x in S.subterms(t):
        if x[0] == "app" and re.search(r"fmt::Arguments::<.*>::new::", x[1]):
            tpl = S.fstr(x[2][0])
            arr = x[2][1]
            n = 0
            while arr[0] == "ref" and n < 4:
                arr = arr[3] if len(arr) > 3 else arr[1][1]
                n += 1
            vals = []
            if arr[0] == "array":
                for a in arr[1]:
                    v = a[2][0] if a[0] == "app" else a
                    k = 0
                    while v[0] == "ref" and k < 4:
                        if len(v) > 3:
                            v = v[3]
                        elif v[1][1][0] == "local":
                            break           # a reference to a local without a snapshot: resolved against the path by fmt_parts
                        else:
                            v = v[1][1] if not v[1][2] else v
                            if v[0] == "ref" and len(v) <= 3 and v[1][2]:
                                break
                        k += 1
                    vals.append(v)
            return tpl, vals
    return None


TEXT_TY = r"::<&*(str|std::string::String|std::borrow::Cow<'_, str>|char)>$"


def unescaped_label_texts(ex, p, sl):
    """Free-text pieces of a label (a `set_label` call event) that do not go through one of std's escapes.  The DOT writer only
    puts quotes around a label, so `"` and `\` in it must have been escaped by the caller.  A piece is free text when it is
    displayed with a text type (&str, String, char: the type argument of its fmt::Argument constructor, i.e. resolved by the
    compiler) and its value is not a constant."""
    parts = text_pieces(argval(sl, 1), ex, p)
    if parts is None:
        return []
    bad = []
    for v in parts[1]:
        if S.mentions(v, lambda x: x[0] == "app" and re.search(r"::escape_(debug|default)$", str(x[1])) is not None):
            continue
        if not S.mentions(v, lambda x: x[0] in ("sym", "field", "heap", "local")):
            continue       # a constant
        ty = None
        for e_ in p.events:
            if e_[0] == "call" and re.search(r"fmt::rt::Argument::<'_>::new_(display|debug)::<", e_[2]) and e_[3]:
                a_ = ex.deref_val(p, e_[3][0]) if e_[3][0][0] == "ref" else e_[3][0]
                if a_ == v or S.fstr(a_).lstrip("&*") == S.fstr(v).lstrip("&*"):
                    ty = e_[2]
        if ty is not None and re.search(TEXT_TY, ty):
            bad.append(S.fstr(v)[:80])
    return bad


def is_text_of(ex, p, v, target):
    """v is `target` turned into text — through references, to_string / as_str / String::from / into only."""
    n = 0
    while n < 10 and v != target:
        n += 1
        if v[0] == "ref":
            v2 = ex.deref_val(p, v)
            if v2 == v:
                break
            v = v2
        elif v[0] == "deref":
            v = v[1]
        elif v[0] == "app" and len(v[2]) == 1 and re.search(r"(::to_string|::as_str|Deref>::deref|String::from|From<.*>>::from|Into<.*>>::into|AsRef<.*>>::as_ref|Borrow<.*>>::borrow|::to_owned|::clone)$", str(v[1])):
            v = v[2][0]
        else:
            break
    return v == target


def nolook_path(p, item):
    from .common import cond_variant
    for c_, o_ in p.conds:
        cv = cond_variant(c_, o_)
        if cv is not None and cv[1] == "None" and "get_character_class" in S.fstr(cv[0]) and (item + ".0") in S.fstr(cv[0]):
            return True
    return False


def analyze(ctx, want):
    F = ctx.facts

    def ob(rule, key, ok, detail, loc=""):
        if rule in want:
            ctx.ob(rule, key, ok, detail, loc)

    def sample(rule, obj):
        if rule in want:
            obj = dict(obj)
            obj["rule"] = rule
            ctx.sample(obj)

    ctx.trust("dot-writer produces well-formed DOT and quotes labels; it unwraps its own write errors (a full disk mid-file is outside the 'cannot be written to' clause)")

    rd = F.fn(r"internal::dot::render_compiled_dfa$")
    ctx.analysed_fn(rd)
    # the private helper is analysed in the vocabulary of its caller's main call (the one with the empty node prefix): its
    # parameters are named after what compiled_dfa_render passes (`compiled_dfa`, or `compiled_dfa.states` and
    # `compiled_dfa.end_states` when the helper takes the two lists instead of the automaton)
    from .common import caller_view
    cr0 = F.fn(r"internal::dot::compiled_dfa_render$")
    pv0 = M.Prov(cr0)

    def main_call(t_):
        def bare_(e_):
            while e_[0] in ("ref", "deref"):
                e_ = e_[1]
            return e_
        return any(e_[0] == "const" and str(e_[1]) == '""' for e_ in (bare_(pv0.operand(a_)) for a_ in t_["args"]))
    presets = {}
    if "compiled_dfa" not in [rd.names().get(a_) for a_ in range(1, rd.argc + 1)]:
        presets = {k_: v_ for k_, v_ in caller_view(cr0, rd, r"dot::render_compiled_dfa$", main_call).items() if "compiled_dfa" in S.fstr(v_)}
    ex, paths = run_fn(rd, F, LogModel(), max_paths=5000, presets=presets)
    node_cases = set()
    edge_seen = 0
    node_ranges = set()      # (lower bound, printed upper bound) of the loops that draw nodes; ("const", k) for a node drawn outside a loop
    for p in paths:
        nn = p.calls(r"Scope::<.*>::node_named")
        ed = p.calls(r"Scope::<.*>::edge::")
        sl = p.calls(r"::set_label$")
        for sl_ in sl:
            bad_ = unescaped_label_texts(ex, p, sl_)
            ob("C18.c", "label-text-is-escaped:render_compiled_dfa", not bad_, "unescaped free text in a label: %s" % bad_ if bad_ else "every free-text piece of the label goes through escape_default / escape_debug", rd.loc(sl_[1]))
        if len(nn) == 2 and not any(e_[0] == "call" and re.search(r"iter::Iterator>::next$", e_[2]) for e_ in p.events[:p.events.index(nn[0])]):
            # the start state drawn before the loop and the first iteration of the loop on one path: the first node is checked on
            # the paths that stop before the loop is entered ... or here, if there is no such path
            i0, i1 = p.events.index(nn[0]), p.events.index(nn[1])
            fp0 = text_pieces(argval(nn[0], 1), ex, p)
            np0 = node_name_parts(fp0)
            id0 = np0[1] if np0 else None
            sl0 = [e_ for e_ in p.events[i0:i1] if e_[0] == "call" and re.search(r"::set_label$", e_[2])]
            lab0 = ex.deref_val(p, argval(sl0[-1], 1)) if sl0 else None
            ok0 = fp0 is not None and S.fstr(fp0[1][0]).lstrip("&*") == "node_prefix" and id0 == ("int", 0)
            ob("C18.a", "one-node-per-state-named-prefix+id", ok0, "node_named(%s) before the loop" % ([S.fstr(v)[:30] for v in fp0[1]] if fp0 else None), rd.loc(nn[0][1]))
            if ok0:
                ne = [(c, o) for c, o in p.conds if c[0] == "app" and re.search(r"::is_empty$", str(c[1])) and "compiled_dfa.states" in S.fstr(c)]
                if ne and ne[0][1] is False:
                    node_ranges.add(("const", 0))
                else:
                    ob("C18.a", "start-node-drawn-iff-there-is-a-state", False, "node 0 is drawn outside the loop without a test that the automaton has a state", rd.loc(nn[0][1]))
                node_cases.add("start")
                ob("C18.b", "start-state-labelled-with-its-id", lab0 is not None and S.fstr(lab0).strip('&*"') in ("0",), "label %s" % (S.fstr(lab0)[:60] if lab0 else None), rd.loc())
                blue = [e_ for e_ in p.events[i0:i1] if e_[0] == "call" and re.search(r"set_color$", e_[2]) and "Blue" in S.fstr(argval(e_, 1))]
            nn = [nn[1]]
            sl = [e_ for e_ in p.events[i1:] if e_[0] == "call" and re.search(r"::set_label$", e_[2])]
        if nn:
            # one node per loop iteration, named prefix+id — or, for the start state taken out of the loop, prefix+0 drawn once
            # when there is a state at all
            fp = text_pieces(argval(nn[0], 1), ex, p)
            npp = node_name_parts(fp)
            if npp is not None and len(fp[1]) == 1:
                fp = (fp[0], [npp[0], npp[1]])
            idv = fp[1][1] if fp and len(fp[1]) == 2 else None
            peeled = idv == ("int", 0) and not any(e_[0] == "call" and re.search(r"iter::Iterator>::next$", e_[2]) for e_ in p.events[:p.events.index(nn[0])])
            ok = len(nn) == 1 and fp is not None and len(fp[1]) == 2 and S.fstr(fp[1][0]).lstrip("&*") == "node_prefix" and ("item@" in S.fstr(fp[1][1]) or peeled)
            ob("C18.a", "one-node-per-state-named-prefix+id", ok, "node_named(%s)" % (fp[1] and [S.fstr(v)[:30] for v in fp[1]] if fp else None), rd.loc(nn[0][1]))
            if peeled:
                ne = [(c, o) for c, o in p.conds if c[0] == "app" and re.search(r"::is_empty$", str(c[1])) and "compiled_dfa.states" in S.fstr(c)]
                from .common import ordering_of
                nz = ordering_of(p.conds, lambda x: x[0] == "app" and re.search(r"(^|::)len$", str(x[1])) is not None and "compiled_dfa.states" in S.fstr(x), lambda x: x == ("int", 0))
                if (ne and ne[-1][1] is False) or nz == {"G"}:
                    node_ranges.add(("const", 0))
                else:
                    ob("C18.a", "start-node-drawn-iff-there-is-a-state", False, "node 0 is drawn outside the loop without a test that the automaton has a state", rd.loc(nn[0][1]))
            else:
                for e_ in p.events:
                    if e_[0] == "call" and re.search(r"Range<usize> as std::iter::Iterator>::next$", e_[2]) and len(e_) > 7 and idv is not None and ("item@bb%d" % e_[1]) in S.fstr(idv):
                        v_ = e_[7][0]
                        n_ = 0
                        while v_[0] == "ref" and len(v_) > 3 and n_ < 4:
                            v_ = v_[3]
                            n_ += 1
                        if v_[0] == "adt" and len(v_[3]) == 2:
                            node_ranges.add((S.fstr(v_[3][0]), S.fstr(v_[3][1])))
                for e_ in p.events:
                    if e_[0] == "call" and re.search(r"iter::Enumerate<.*> as std::iter::Iterator>::next$", e_[2]) and idv is not None and re.search(r"item@bb%d\)?\.0$" % e_[1], S.fstr(idv)):
                        src_ = e_[7][0] if len(e_) > 7 else e_[3][0]
                        node_ranges.add(("0", "enumerate:" + S.fstr(ex.deref_val(p, src_) if src_[0] == "ref" else src_)))
                for e_ in p.events:
                    if e_[0] in ("iter-item",) and idv is not None and ("index@bb%d" % e_[1]) in S.fstr(idv):
                        node_ranges.add(("0", "enumerate:" + S.fstr(e_[3])))
            zero = [(c, o) for c, o in p.conds if c[0] == "binop" and c[1] == "Eq" and ("int", 0) in (c[2], c[3])]
            if peeled:
                zero = [(("binop", "Eq", idv, ("int", 0)), True)]
            # the label that belongs to this node: set between its creation and the next node / edge
            i_n = p.events.index(nn[0])
            nxt_ = [k_ for k_, e_ in enumerate(p.events) if k_ > i_n and e_[0] == "call" and re.search(r"Scope::<.*>::(node_named|edge::)", e_[2])]
            sl = [e_ for e_ in p.events[i_n:(nxt_[0] if nxt_ else len(p.events))] if e_[0] == "call" and re.search(r"::set_label$", e_[2])]
            acc = [(c, o) for c, o in p.conds if c[0] == "field" and c[2] == "0" and "end_states" in S.fstr(c)]
            # (the accepting flags walked directly: `for (id, (is_accepting, terminal)) in end_states.iter().enumerate()` — the list
            # has one entry per state, W_SID in rules/panics.py, so its index is the state id)
            enum_es = {"item@bb%d" % e_[1] for e_ in p.events if e_[0] == "call" and re.search(r"iter::Enumerate<.*> as std::iter::Iterator>::next$", e_[2])
                       and "compiled_dfa.end_states" in S.fstr(e_[7][0] if len(e_) > 7 else e_[3][0])}

            def es_entry(t_):
                """the enumerate item if t_ is `<entry of end_states at the walk's index>.0`"""
                if not (t_[0] == "field" and t_[2] == "0"):
                    return None
                x_ = t_[1]
                while x_[0] in ("deref", "ref"):
                    x_ = x_[1]
                if x_[0] == "field" and x_[2] == "1" and x_[1][0] == "sym" and x_[1][1] in enum_es:
                    return x_[1]
                return None
            acc_item = None
            if not acc and enum_es:
                acc = [(c, o) for c, o in p.conds if es_entry(c) is not None]
                if acc:
                    acc_item = es_entry(acc[-1][0])
            lab = fmt_parts(argval(sl[-1], 1), ex, p) if sl else None
            labv = ex.deref_val(p, argval(sl[-1], 1)) if sl else None
            if zero and zero[-1][1] is True:
                node_cases.add("start")
                ok = labv is not None and (is_text_of(ex, p, labv, idv) or (peeled and S.fstr(labv).strip('&*"') == "0")) and lab is None
                ob("C18.b", "start-state-labelled-with-its-id", ok, "label %s" % (S.fstr(labv)[:60] if labv else None), rd.loc())
            elif acc and acc[-1][1] is True:
                node_cases.add("accepting")
                ok = lab is not None and len(lab[1]) == 2 and lab[1][0] == idv and " T" in lab[0]
                ok2 = ok and S.fstr(lab[1][1]) == S.fstr(acc[-1][0][1]) + ".1" and (S.mentions(acc[-1][0], lambda x: x == idv) or (acc_item is not None and idv == ("field", acc_item, "0")))
                ob("C18.b", "accepting-label-is-(id, token type of the same state)", bool(ok2), "label args %s under test %s" % ([S.fstr(v)[:50] for v in lab[1]] if lab else None, S.fstr(acc[-1][0])[:50]), rd.loc())
                red = [e for e in p.events if e[0] == "call" and re.search(r"set_color$", e[2]) and "Red" in S.fstr(argval(e, 1))]
                ob("C18.b", "accepting-state-marked", len(red) == 1, "%d red markers" % len(red), rd.loc())
            elif acc:
                node_cases.add("plain")
                ok = labv is not None and is_text_of(ex, p, labv, idv) and lab is None
                ob("C18.b", "plain-state-labelled-with-its-id", ok, "label %s" % (S.fstr(labv)[:60] if labv else None), rd.loc())
        sl = p.calls(r"::set_label$")      # (the node checks above narrowed it to the node's own label)
        if ed:
            edge_seen += 1
            e = ed[0]
            f1, f2 = text_pieces(argval(e, 1), ex, p), text_pieces(argval(e, 2), ex, p)
            lab = fmt_parts(argval(sl[-1], 1), ex, p) if sl else None
            ok = f1 is not None and f2 is not None and len(f1[1]) == 2 and len(f2[1]) == 2
            if ok:
                src, dst = f1[1][1], f2[1][1]
                pre_ok = S.fstr(f1[1][0]).lstrip("&*") == "node_prefix" and S.fstr(f2[1][0]).lstrip("&*") == "node_prefix"
                # src = index of the outer item (enumerate), dst = .1 of the inner item
                # (two nested loops: item of the outer enumerate / item of the inner one; or one loop over a flat_map chain: the
                # enumerate index of the outer element / the element of the inner iterator)
                so = re.match(r"(item@bb\d+)\.0$|(index@bb\d+)$", S.fstr(src).lstrip("&*"))
                do = re.match(r"(item@bb\d+(?:_in\d+)?)\.1$", S.fstr(dst).lstrip("&*"))
                ok = pre_ok and so is not None and do is not None and (so.group(1) or so.group(2)) != do.group(1)
                if ok and lab is not None and len(lab[1]) == 2:
                    cid = S.fstr(lab[1][1])
                    ccs = S.fstr(lab[1][0])
                    same = cid == do.group(1) + ".0" and (do.group(1) + ".0") in ccs and "get_character_class" in ccs and "character_class_registry" in ccs
                    if not same and cid == do.group(1) + ".0":
                        # the class is not registered (lookup answered None on this path): the placeholder text
                        from .common import cond_variant
                        nolook = [c_ for c_, o_ in p.conds if cond_variant(c_, o_) is not None and cond_variant(c_, o_)[1] == "None" and "get_character_class" in S.fstr(cond_variant(c_, o_)[0]) and (do.group(1) + ".0") in S.fstr(cond_variant(c_, o_)[0])]
                        same = bool(nolook) and lab[1][0][0] in ("const", "app", "ref", "local", "deref") and not S.mentions(lab[1][0], lambda x: x[0] == "sym" and x[1].startswith("item@"))
                    ob("C18.b", "edge-label-is-the-class-of-the-same-transition", same and "C#" in lab[0], "label args %s" % [S.fstr(v)[:70] for v in lab[1]], rd.loc())
                    if "get_character_class" in ccs and not nolook_path(p, do.group(1)):
                        # the class text is free text (it may contain `"` and `\`), and the DOT writer only puts quotes around
                        # a label: the text must go through one of std's escapes, which escape both characters
                        esc = S.mentions(lab[1][0], lambda x: x[0] == "app" and re.search(r"::escape_(debug|default)$", str(x[1])) is not None)
                        ob("C18.c", "edge-label-class-text-is-escaped", bool(esc), "class text in the label: %s" % ccs[:160], rd.loc())
                else:
                    ob("C18.b", "edge-label-present", False, "edge without a two-part label", rd.loc())
            ob("C18.b", "edge-endpoints-are-(state, target) of-the-same-transition", bool(ok), "edge(%s, %s)" % ([S.fstr(v)[:30] for v in f1[1]] if f1 else None, [S.fstr(v)[:30] for v in f2[1]] if f2 else None), rd.loc(e[1]))
    ob("C18.a", "node-cases-complete", node_cases == {"start", "accepting", "plain"}, "cases %s" % sorted(node_cases), rd.loc())
    # every state gets its node: the node loop runs over 0..states.len() (or over the states themselves), or the start state is
    # drawn on its own and the loop runs over 1..states.len()
    lens = r"^(Vec::len|slice::len|len)\(&?\*?compiled_dfa\.states\)$"
    whole = any(lo == "0" and (re.match(lens, hi) or (hi.startswith("enumerate:") and re.search(r"compiled_dfa\.(states|end_states)\b", hi))) for lo, hi in node_ranges if lo != "const")
    peeled_ok = ("const", 0) in node_ranges and any(lo == "1" and re.match(lens, hi) for lo, hi in node_ranges if lo != "const")
    ob("C18.a", "node-loop-covers-every-state", (whole and ("const", 0) not in node_ranges) or (peeled_ok and not whole), "nodes drawn for %s" % sorted(node_ranges, key=str), rd.loc())
    ob("C18.a", "every-transition-draws-an-edge", edge_seen >= 1, "%d edge paths" % edge_seen, rd.loc())
    its = [M.call_name(t) for bb, t in rd.calls(ADAPTERS)]
    ob("C18.a", "no-filter-on-states-or-transitions", not its, "iterator adapters: %s" % its, rd.loc())
    # loop sources: 0..states.len(), states.iter().enumerate(), state.transitions.iter()
    from .common import loop_sources
    ls = loop_sources(ex, paths)
    srcs = sorted(set(s_ for _, s_ in ls))
    # one walk over all states for the nodes, one for the edges (by index range or by enumerate), and one over the transitions
    # of the state at hand
    over_states = {bb_ for bb_, s_ in ls if re.search(r"compiled_dfa\.(states|end_states)\b", s_) and "transitions" not in s_}
    trans_in_closure = any((af[1] == "transitions") for c_ in F.closures_of(rd) for bb_, i_, st_ in c_.assigns() for pl_ in M.rvalue_places(st_["rv"]) for af in M.place_fields(pl_))
    ok = len(over_states) >= 2 and (any("transitions" in s_ for s_ in srcs) or trans_in_closure)
    ob("C18.a", "loops-range-over-all-states-and-transitions", ok, "loop sources: %s" % srcs, rd.loc())
    # an edge is drawn on every iteration of the transition loop: no conditional before it
    inner = [h for h, b in rd.natural_loops().items() if not any(h2 != h and h2 in b for h2 in rd.natural_loops())]
    sample("C18.a", {"loop_sources": srcs})

    # the class text of an edge label is looked up by the id on the transition: the registry's lookup answers with the entry
    # at exactly that index (or None)
    gc = F.fn(r"CharacterClassRegistry::get_character_class$")
    ctx.analysed_fn(gc)
    exg, pg = run_fn(gc, F, LogModel())
    for p_ in ret_paths(pg):
        got_ = re.sub(r"[&*()]", "", S.fstr(p_.end[1]))
        ob("C18.b", "class-lookup-by-the-given-id", got_ in ("slice::getself.character_classes, id", "Vec::getself.character_classes, id") or re.match(r"^(slice|Vec)::getself\.character_classes, (CharClassID::as_usize)?id( as usize)?$", got_) is not None,
           "get_character_class(id) returns %s" % S.fstr(p_.end[1])[:100], gc.loc())

    # ids and token types appear in node names and labels through the Display impl of the id newtypes: it prints the number
    # itself — as it is, through no narrower type and no arithmetic
    n_disp = 0
    for fd in sorted((f_ for f_ in F.fns.values() if re.match(r"^<internal::ids::\w+ as std::fmt::Display>::fmt$", f_.name)), key=lambda f_: f_.name):
        n_disp += 1
        exd, pd = run_fn(fd, F, LogModel())
        for p_ in ret_paths(pd):
            nd = [e_ for e_ in p_.events if e_[0] == "call" and re.search(r"fmt::rt::Argument::<'_>::new_(display|debug)::<", e_[2])]
            dl = [e_ for e_ in p_.events if e_[0] == "call" and re.search(r"^<(u8|u16|u32|u64|usize|u128) as std::fmt::(Display|Debug)>::fmt$", e_[2])]
            shown = [re.sub(r"[&*()]", "", S.fstr(argval(e_, 0))) for e_ in nd + dl]
            tpl = [e_ for e_ in p_.events if e_[0] == "call" and re.search(r"fmt::Arguments::<'_>::new", e_[2])]
            plain = all(re.search(r"\\xc0\\x00\"?$", S.fstr(argval(e_, 0))) and S.fstr(argval(e_, 0)).count("xc0") == 1 for e_ in tpl)
            ob("C18.b", "id-display-prints-the-number:" + M.short_name(fd.name.split(" as ")[0].lstrip("<")), shown == ["self.0"] and plain,
               "Display for %s shows %s%s" % (M.short_name(fd.name.split(" as ")[0].lstrip("<")), shown, "" if plain else " inside other text"), fd.loc())
    if "C18.b" in want:
        ctx.floor("C18.b", "Display impls of the id newtypes", n_disp, 4)

    cr = F.fn(r"internal::dot::compiled_dfa_render$")
    ctx.analysed_fn(cr)
    ex, paths = run_fn(cr, F, LogModel(), max_paths=5000, desugar=r".|collect")
    main_ok = False
    main_seen, main_bad = 0, False
    la_ok = False
    # two-phase form: the (label, prefix, automaton) of every lookahead is collected first and the clusters are drawn in a second
    # loop over the collected triples.  Each triple is then checked as if it were drawn where it was built: the second loop's
    # element is replaced by the triple, and the conditions are those under which the triple was built.
    elems = []
    for q in paths:
        for e_ in q.events:
            if e_[0] == "collect-item":
                v_ = ex.deref_val(q, e_[2]) if e_[2][0] == "ref" else e_[2]
                if v_[0] == "tuple":
                    elems.append((q, v_, e_[1]))
    coll_src_ok = True

    def subst_with(tup):
        def go(t_):
            if not isinstance(t_, tuple):
                return t_
            if len(t_) == 3 and t_[0] == "field" and isinstance(t_[1], tuple) and str(t_[2]).isdigit():
                b_ = t_[1]
                n_ = 0
                while isinstance(b_, tuple) and b_ and b_[0] in ("deref", "ref") and n_ < 6:
                    b_ = b_[1] if b_[0] == "deref" else (b_[1][1] if not b_[1][2] else b_)
                    n_ += 1
                    if b_ and b_[0] == "ref" and b_[1][2]:
                        break
                if isinstance(b_, tuple) and b_[:1] == ("sym",) and str(b_[1]).startswith("item@bb") and int(t_[2]) < len(tup[1]):
                    return tup[1][int(t_[2])]
            if t_[0] == "ref" and len(t_) >= 3 and t_[1][0] == "loc" and isinstance(t_[1][1], tuple) and t_[1][1][:1] == ("sym",) and str(t_[1][1][1]).startswith("item@bb") and t_[1][2] and t_[1][2][0][0] == "f" and str(t_[1][2][0][1]).isdigit() and len(t_[1][2]) == 1 and int(t_[1][2][0][1]) < len(tup[1]):
                return tup[1][int(t_[1][2][0][1])]
            return tuple(go(x) for x in t_)
        return go

    def check_cluster(pc, p2, c, dfa, pre, reg, labarg):
        nonlocal la_ok
        it = re.search(r"(item@bb\d+)", S.fstr(dfa))
        fp = text_pieces(pre, ex, pc)
        cl = p2.calls(r"Scope::<.*>::cluster$")
        lab = fmt_parts(labarg, ex, pc) if labarg is not None else None
        okc = it is not None and fp is not None and len(fp[1]) == 1 and S.fstr(fp[1][0]).lstrip("&*") == it.group(1) + ".0" and "_" in fp[0] and len(cl) >= 1
        okl = lab is not None and len(lab[1]) == 2 and S.fstr(lab[1][0]).lstrip("&*") == (it.group(1) + ".0" if it else "?") and "LA for T" in lab[0]
        pol = [(cc, o) for cc, o in pc.conds if cc[0] == "field" and cc[2] == "is_positive"]
        okp = False
        if lab is not None and len(lab[1]) == 2 and pol:
            txt = S.fstr(lab[1][1])
            okp = ("Pos" in txt) == (pol[-1][1] is True) and ("Neg" in txt) == (pol[-1][1] is False) and it is not None and it.group(1) in S.fstr(pol[-1][0])
        la_ok = la_ok or (okc and okl)
        ob("C18.b", "lookahead-cluster-keyed-and-labelled-by-its-terminal", bool(okc and okl), "prefix args %s, label args %s" % ([S.fstr(v)[:30] for v in fp[1]] if fp else None, [S.fstr(v)[:30] for v in lab[1]] if lab else None), cr.loc(c[1]))
        ob("C18.b", "lookahead-polarity-label:%s" % ("Pos" if pol and pol[-1][1] else "Neg"), okp, "polarity label %s under is_positive=%s" % (S.fstr(lab[1][1])[:20] if lab and len(lab[1]) == 2 else None, pol[-1][1] if pol else None), cr.loc(c[1]))
        ob("C18.b", "lookahead-automaton-drawn-with-the-scanner-registry", S.fstr(reg).lstrip("&*") == "character_class_registry" and "cluster" in S.fstr(rd_args(c, ex, pc)[3] or ("unit",)), "registry %s, scope %s" % (S.fstr(reg)[:40], S.fstr(rd_args(c, ex, pc)[3] or ("unit",))[:40]), cr.loc(c[1]))
    # the helper's arguments by the type of its parameters (its signature may change): automaton, node prefix, registry, scope
    def rd_args(c_, ex_, p_):
        tys = [rd.locals[a_]["ty"] for a_ in range(1, rd.argc + 1)]
        def at(pred):
            ix = [k_ for k_, t_ in enumerate(tys) if pred(t_)]
            return argval(c_, ix[0]) if len(ix) == 1 and ix[0] < len(c_[3]) else None
        pre_ = at(lambda t_: t_ == "&str")
        reg_ = at(lambda t_: "CharacterClassRegistry" in t_)
        sc_ = at(lambda t_: "Scope" in t_)
        dfa_ = at(lambda t_: "compiled_dfa::CompiledDfa" in t_)
        if pre_ is None:
            # the prefix may be generic (`impl AsRef<str>`): it is the one parameter that is none of the others
            pre_ = at(lambda t_: not any(x_ in t_ for x_ in ("CharacterClassRegistry", "Scope", "compiled_dfa::CompiledDfa", "StateData", "(bool, internal::ids::TerminalID)")))
        if dfa_ is None:
            # the automaton handed over as its two lists: both must come from the same automaton
            st_ = at(lambda t_: "StateData" in t_)
            en_ = at(lambda t_: "(bool, internal::ids::TerminalID)" in t_)
            def base(v_, f_):
                n_ = 0
                while v_ is not None and v_[0] in ("ref", "deref") and n_ < 6:
                    v2_ = ex_.deref_val(p_, v_) if v_[0] == "ref" else v_[1]
                    if v2_ == v_:
                        break
                    v_, n_ = v2_, n_ + 1
                return v_[1] if v_ is not None and v_[0] == "field" and v_[2] == f_ else None
            b1, b2 = base(st_, "states"), base(en_, "end_states")
            dfa_ = b1 if b1 is not None and b1 == b2 else None
        return dfa_, pre_, reg_, sc_
    staged_used = False
    for p in paths:
        for sl_ in p.calls(r"::set_label$"):
            bad_ = unescaped_label_texts(ex, p, sl_)
            ob("C18.c", "label-text-is-escaped:compiled_dfa_render", not bad_, "unescaped free text in a label: %s" % bad_ if bad_ else "every free-text piece of the label goes through escape_default / escape_debug", cr.loc(sl_[1]))
    for p in paths:
        rc = p.calls(r"dot::render_compiled_dfa$")
        for c in rc:
            dfa, pre, reg, scope_ = rd_args(c, ex, p)
            if dfa is None or pre is None or reg is None:
                ob("C18.a", "helper-arguments-recognised", False, "render_compiled_dfa(%s): automaton / prefix / registry arguments not recognised" % ", ".join(S.fstr(a_)[:30] for a_ in c[3]), cr.loc(c[1]))
                continue
            sl = [e for e in p.events if e[0] == "call" and re.search(r"::set_label$", e[2]) and "cluster" in S.fstr(argval(e, 0))]
            labarg = argval(sl[-1], 1) if sl else None
            if S.fstr(dfa).lstrip("&*") == "compiled_dfa":
                this_ok = (S.fstr(reg).lstrip("&*") == "character_class_registry" and S.fstr(pre) in ('&*""', '""', '*""')) or (S.fstr(reg).lstrip("&*") == "character_class_registry" and "\"\"" in S.fstr(pre))
                main_seen = main_seen + 1
                main_bad = main_bad or not this_ok      # every drawing of the main automaton, on every path (not: the last one)
                main_ok = not main_bad
            elif "nfa" in S.fstr(dfa):
                check_cluster(p, p, c, dfa, pre, reg, labarg)
            elif elems and re.search(r"item@bb\d+", S.fstr(dfa)):
                # second phase: this loop walks the collected triples
                staged_used = True
                for q, tup, bbq in elems:
                    sub = subst_with(tup)
                    d2, p2_, l2 = sub(ex.deref_val(p, dfa) if dfa[0] == "ref" else dfa), sub(ex.deref_val(p, pre) if pre[0] == "ref" else pre), (sub(ex.deref_val(p, labarg) if labarg[0] == "ref" else labarg) if labarg is not None else None)
                    if "nfa" in S.fstr(d2):
                        check_cluster(q, p, c, d2, p2_, reg, l2)
    if staged_used:
        # the second loop walks the whole collected list
        from .common import loop_sources as _ls
        srcs2 = [s_ for _, s_ in _ls(ex, paths)]
        for q_ in paths:
            for e_ in q_.events:
                if e_[0] == "call" and re.search(r"iter::Iterator>::next$", e_[2]) and e_[3]:
                    v_ = e_[3][0]
                    n_ = 0
                    while v_[0] == "ref" and n_ < 6:
                        v2_ = ex.deref_val(q_, v_)
                        if v2_ == v_:
                            break
                        v_ = v2_
                        n_ += 1
                    srcs2.append(S.fstr(v_))
        walks = any(re.search(r"collect", s_) and "compiled_dfa.lookaheads" in s_ and not re.search(r"Iterator>::(skip|take|rev|filter|step_by|skip_while|take_while)\b", s_) for s_ in srcs2)
        ob("C18.a", "collected-lookaheads-all-drawn", walks, "second loop over %s" % sorted(set(srcs2))[:3], cr.loc())
    ob("C18.a", "mode-automaton-drawn", main_ok, "render_compiled_dfa(compiled_dfa, \"\", registry, digraph)", cr.loc())
    ob("C18.a", "every-lookahead-drawn-in-a-cluster", la_ok, "lookahead loop draws lookahead.nfa into a fresh cluster", cr.loc())
    its = [M.call_name(t) for bb, t in cr.calls(ADAPTERS)]
    srcs = [s_ for _, s_ in loop_sources(ex, paths)]
    ob("C18.a", "all-lookaheads-visited", not its and any("compiled_dfa.lookaheads" in s for s in srcs), "adapters %s; loop sources %s" % (its, sorted(set(srcs))[:2]), cr.loc())

    gd = F.fn(r"ScannerImpl::generate_compiled_automata_as_dot$")
    ctx.analysed_fn(gd)
    ex, paths = run_fn(gd, F, LogModel(), max_paths=5000)
    seen = set()
    for p in paths:
        fc = p.calls(r"fs::File::create::")
        oo = p.calls(r"fs::OpenOptions::open::")
        path_idx = 0
        if oo and not fc:
            # File::create == OpenOptions::new().write(true).create(true).truncate(true).open(..)
            chain = S.fstr(oo[0][7][0] if len(oo[0]) > 7 else oo[0][3][0])
            flags = {}
            for e in p.events:
                if e[0] == "call":
                    m = re.search(r"fs::OpenOptions::(write|create|truncate|append|create_new|read)$", e[2])
                    if m:
                        flags[m.group(1)] = S.fstr(argval(e, 1))
            ok = flags.get("write") == "True" and flags.get("create") == "True" and flags.get("truncate") == "True" and "append" not in flags
            ob("C18.a", "dot-file-is-created-truncating", ok,
               "the file is opened with OpenOptions flags %s: an existing (longer) file must be truncated, otherwise a stale tail remains after the new graph" % flags, gd.loc(oo[0][1]))
            fc = oo
            path_idx = 1
        elif fc:
            path_idx = 0
            ob("C18.a", "dot-file-is-created-truncating", True, "File::create (write + create + truncate)", gd.loc(fc[0][1]))
        if not fc:
            if p.end[0] == "return":
                r = p.end[1]
                seen.add("done")
                ob("C18.d", "returns-ok-after-all-modes", variant_of(ex, p, r) == "Ok", "-> %s" % S.fstr(r)[:40], gd.loc())
            continue
        fp = text_pieces(argval(fc[0], path_idx), ex, p)
        ok = fp is not None and len(fp[1]) == 3
        if ok:
            a, b, c = [S.fstr(v) for v in fp[1]]
            ok = "target_folder" in a and b.lstrip("&*") == "prefix" and re.search(r"item@bb\d+\.name$", c) is not None and ".dot" in fp[0] and "/" in fp[0] and "_" in fp[0]
        ob("C18.c", "file-name-is-folder/prefix_mode.dot", bool(ok), "File::create(%s; template %s)" % ([S.fstr(v)[:40] for v in fp[1]] if fp else None, fp[0] if fp else None), gd.loc(fc[0][1]))
        fv = variant_of(ex, p, fc[0][4])
        if fv == "Err":
            seen.add("io-err")
            ok = p.end[0] == "return" and variant_of(ex, p, p.end[1]) == "Err"
            ob("C18.d", "io-error-is-returned-not-unwrapped", ok, "File::create Err -> %s" % (S.fstr(p.end[1])[:50] if p.end[0] == "return" else p.end[0]), gd.loc())
        elif fv == "Ok":
            seen.add("io-ok")
            rc = p.calls(r"dot::compiled_dfa_render(::|$)")
            ok = len(rc) == 1
            if ok:
                mi_ = re.search(r"(item@bb\d+)", S.fstr(fp[1][2])) if fp and len(fp[1]) > 2 else None
                item = mi_.group(1) if mi_ else "?"
                # the sink is the file created for this very mode (behind references / a wrapper built around it): a sink that
                # outlives the iteration — a buffer shared by all modes — carries one mode's text into the next mode's file
                filev = ("field", ("downcast", fc[0][4], "Ok"), "0")
                sink = argval(rc[0], 3)
                n_ = 0
                while sink[0] == "ref" and n_ < 4 and not S.mentions(sink, lambda x: x == filev):
                    sink = ex.deref_val(p, sink)
                    n_ += 1
                ok_sink = S.mentions(sink, lambda x: x == filev)
                ok = S.fstr(argval(rc[0], 0)).lstrip("&*") == item + ".dfa" and "self.character_classes" in S.fstr(argval(rc[0], 2)) and ok_sink
            ob("C18.a", "each-mode-rendered-into-its-own-file", bool(ok), "compiled_dfa_render(%s, .., %s, sink %s) for the file of %s" % (S.fstr(argval(rc[0], 0))[:40] if rc else None, S.fstr(argval(rc[0], 2))[:40] if rc else None, S.fstr(argval(rc[0], 3))[:50] if rc else None, item if rc else None), gd.loc())
    ob("C18.d", "all-outcomes", {"io-err", "io-ok", "done"} <= seen, "outcomes %s" % sorted(seen), gd.loc())
    its = [M.call_name(t) for bb, t in gd.calls(ADAPTERS)]
    srcs = [s_ for _, s_ in loop_sources(ex, paths)]
    ob("C18.a", "one-file-per-mode", not its and any("self.scanner_modes" in s for s in srcs), "adapters %s; loop sources %s" % (its, sorted(set(srcs))[:2]), gd.loc())
    unw = [M.call_name(t) for bb, t in gd.calls(r"Result::<.*>::(unwrap|expect)$")]
    ob("C18.d", "no-unwrap-of-io-results", not unw, "Result unwraps: %s" % unw, gd.loc())
    pub = F.fn(r"scanner::Scanner::generate_compiled_automata_as_dot$")
    ex, paths = run_fn(pub, F, LogModel())
    for p in ret_paths(paths):
        c = p.calls(r"ScannerImpl::generate_compiled_automata_as_dot$")
        ok = len(c) == 1 and S.fstr(c[0][3][0]).lstrip("&") == "self.inner" and S.fstr(c[0][3][1]).lstrip("&*") == "prefix" and S.fstr(c[0][3][2]).lstrip("&*") == "target_folder" and p.end[1] == c[0][4]
        ob("C18.c", "public-entry-forwards-prefix-and-folder", ok, "forwards (%s)" % (", ".join(S.fstr(a)[:30] for a in c[0][3]) if c else None), pub.loc())
    panics.analyze(ctx, {"C18.d"} & want)
