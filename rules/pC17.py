from . import casts
LEVEL = "other"
EXPLANATION = ("Cast and width audit over the MIR of the whole crate: every integer-to-integer cast is classified by the role "
               "of its operand (value provenance: count/index of states, groups, classes vs. user supplied token types); indices "
               "that count automaton states or partition groups must never pass through a type narrower than the state id; the "
               "group-id alias must be at least as wide as the state-id alias. usize->u32 casts on counts are accepted under the "
               "stated memory-bound assumption and listed. No comparison with a size threshold anywhere in the library (no algorithm "
               "switch above N elements); the size-independent side conditions of the pipeline and the priority search are re-checked. "
               "Says nothing about build time or memory of such automata.")
RULES = {"C17.a", "C17.c"}


def check(ctx):
    casts.analyze(ctx, RULES)
    # the tie-breaker reads the priority as a position found by one front-to-back search, whatever the number of terminals
    from .pC01 import priority_rules
    priority_rules(ctx)
    # "compiles correctly": the size-independent side conditions of the pipeline are part of this property too
    from .common import cache_foundation, language_foundation
    language_foundation(ctx)
    cache_foundation(ctx)
