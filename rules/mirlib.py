"""mirlib: CFG / dominator / def-use / provenance helpers over the fact file written by
driver/ (scnr-facts).  Pure python3, stdlib only.  Nothing here executes scnr; every answer is
computed from the MIR of the type-checked crate."""
import json
import re
from collections import defaultdict, deque


class AnchorMissing(Exception):
    """Raised when a rule cannot find the construct it is anchored in (fail closed)."""


# --------------------------------------------------------------------------------------------
# Places / operands helpers


def place_str(p):
    s = "_%d" % p["l"]
    for e in p["pj"]:
        k = e["k"]
        if k == "deref":
            s = "(*%s)" % s
        elif k == "field":
            s = "%s.%s" % (s, e.get("n", e["i"]))
        elif k == "index":
            s = "%s[_%d]" % (s, e["l"])
        elif k == "downcast":
            s = "(%s as %s)" % (s, e.get("n", e["i"]))
        elif k == "cidx":
            s = "%s[%s%d]" % (s, "-" if e["from_end"] else "", e["off"])
        else:
            s = "%s.<%s>" % (s, k)
    return s


def op_str(o):
    if o is None:
        return "?"
    if o["k"] in ("copy", "move"):
        return place_str(o["p"])
    if o["k"] == "const":
        return "const %s" % o.get("s")
    return o.get("s", "?")


def place_fields(p):
    """List of (adt, field name) for every field projection of a place."""
    out = []
    for e in p["pj"]:
        if e["k"] == "field":
            out.append((e.get("adt") or e.get("closure") or "?", e.get("n", str(e["i"]))))
    return out


def place_locals(p):
    ls = [p["l"]]
    for e in p["pj"]:
        if e["k"] == "index":
            ls.append(e["l"])
    return ls


def operand_place(o):
    if o and o["k"] in ("copy", "move"):
        return o["p"]
    return None


def rvalue_operands(rv):
    k = rv["k"]
    if k in ("use", "repeat", "cast"):
        return [rv["op"]]
    if k == "binop":
        return [rv["a"], rv["b"]]
    if k == "unop":
        return [rv["a"]]
    if k == "aggregate":
        return list(rv["fields"])
    return []


def rvalue_places(rv):
    """Places read by an rvalue (operands + ref/discr/rawptr places)."""
    out = []
    for o in rvalue_operands(rv):
        p = operand_place(o)
        if p is not None:
            out.append(p)
    if rv["k"] in ("ref", "discr", "rawptr"):
        out.append(rv["p"])
    return out


# --------------------------------------------------------------------------------------------


class Fn:
    """One MIR body with CFG utilities."""

    def __init__(self, j, facts):
        self.j = j
        self.facts = facts
        self.key = j["key"]
        self.name = j["name"]
        self.kind = j["kind"]
        self.file = j["file"]
        self.line = j["ln"]
        self.blocks = j["blocks"]
        self.n = len(self.blocks)
        self.argc = j["argc"]
        self.locals = j["locals"]
        self._succ = None
        self._pred = None
        self._dom = None
        self._pdom = None
        self._names = None
        self._reach = None
        self._defs = None

    def __repr__(self):
        return "<Fn %s>" % self.name

    def loc(self, bb=None, idx=None):
        """file:line of a block's terminator or statement."""
        if bb is None or not isinstance(bb, int) or bb < 0 or bb >= len(self.blocks):
            # (an event recorded inside an inlined callee / closure carries that body's block number)
            return "%s:%d" % (self.file, self.line)
        b = self.blocks[bb]
        if idx is None or idx >= len(b["stmts"]):
            return "%s:%d" % (self.file, b["term"]["ln"])
        return "%s:%d" % (self.file, b["stmts"][idx]["ln"])

    # ---- CFG (normal edges only; unwind/cleanup edges are ignored on purpose: a panic is
    # reported by the panic inventory, not followed as control flow)
    def term(self, bb):
        return self.blocks[bb]["term"]

    def succ(self, bb):
        if self._succ is None:
            self._succ = []
            for b in self.blocks:
                t = b["term"]
                k = t["k"]
                if k == "goto":
                    s = [t["target"]]
                elif k == "switch":
                    s = [x[1] for x in t["targets"]] + [t["otherwise"]]
                elif k in ("call", "drop", "assert"):
                    s = [t["target"]] if t.get("target") is not None else []
                else:
                    s = []
                # keep order, drop duplicates
                seen = []
                for x in s:
                    if x not in seen:
                        seen.append(x)
                self._succ.append(seen)
        return self._succ[bb]

    def pred(self, bb):
        if self._pred is None:
            self._pred = [[] for _ in range(self.n)]
            for b in range(self.n):
                if self.blocks[b]["cleanup"]:
                    continue
                for s in self.succ(b):
                    self._pred[s].append(b)
        return self._pred[bb]

    def reachable(self):
        if self._reach is None:
            seen = {0}
            dq = deque([0])
            while dq:
                b = dq.popleft()
                for s in self.succ(b):
                    if s not in seen:
                        seen.add(s)
                        dq.append(s)
            self._reach = seen
        return self._reach

    def is_unreachable_block(self, bb):
        return self.term(bb)["k"] == "unreachable"

    def reach_from(self, starts, cut_edges=frozenset(), stop_blocks=frozenset()):
        """Blocks reachable from `starts` without traversing edges in cut_edges and without
        leaving stop_blocks (stop blocks are included but not expanded)."""
        seen = set(starts)
        dq = deque(starts)
        while dq:
            b = dq.popleft()
            if b in stop_blocks:
                continue
            for s in self.succ(b):
                if (b, s) in cut_edges:
                    continue
                if s not in seen:
                    seen.add(s)
                    dq.append(s)
        return seen

    def dominators(self):
        """dom[b] = set of blocks dominating b (including b)."""
        if self._dom is None:
            reach = self.reachable()
            allb = set(reach)
            dom = {b: set(allb) for b in reach}
            dom[0] = {0}
            changed = True
            order = self.rpo()
            while changed:
                changed = False
                for b in order:
                    if b == 0:
                        continue
                    ps = [p for p in self.pred(b) if p in reach]
                    if not ps:
                        continue
                    new = set.intersection(*[dom[p] for p in ps]) | {b}
                    if new != dom[b]:
                        dom[b] = new
                        changed = True
            self._dom = dom
        return self._dom

    def rpo(self):
        seen = set()
        order = []

        def dfs(b):
            stack = [(b, iter(self.succ(b)))]
            seen.add(b)
            while stack:
                node, it = stack[-1]
                adv = False
                for s in it:
                    if s not in seen:
                        seen.add(s)
                        stack.append((s, iter(self.succ(s))))
                        adv = True
                        break
                if not adv:
                    order.append(node)
                    stack.pop()

        dfs(0)
        order.reverse()
        return order

    def dominates(self, a, b):
        d = self.dominators()
        return b in d and a in d[b]

    def exits(self):
        """Blocks that end the function normally (return)."""
        return [b for b in self.reachable() if self.term(b)["k"] == "return"]

    def postdominators(self):
        """pdom[b] = blocks that post-dominate b w.r.t. normal `return` exits.  Blocks that
        cannot reach a return (diverging: panics) are given the full set (vacuous)."""
        if self._pdom is None:
            reach = self.reachable()
            exits = set(self.exits())
            # blocks that can reach an exit
            can = set(exits)
            dq = deque(exits)
            while dq:
                b = dq.popleft()
                for p in self.pred(b):
                    if p in reach and p not in can:
                        can.add(p)
                        dq.append(p)
            pd = {b: set(can) for b in can}
            for e in exits:
                pd[e] = {e}
            changed = True
            while changed:
                changed = False
                for b in can:
                    if b in exits:
                        continue
                    ss = [s for s in self.succ(b) if s in can]
                    if not ss:
                        continue
                    new = set.intersection(*[pd[s] for s in ss]) | {b}
                    if new != pd[b]:
                        pd[b] = new
                        changed = True
            self._pdom = pd
            self._can_exit = can
        return self._pdom

    def back_edges(self):
        dom = self.dominators()
        out = []
        for b in self.reachable():
            for s in self.succ(b):
                if s in dom.get(b, ()):  # s dominates b
                    out.append((b, s))
        return out

    def natural_loops(self):
        """header -> set of blocks of the natural loop (union over back edges to header)."""
        loops = defaultdict(set)
        for (t, h) in self.back_edges():
            body = {h, t}
            st = [t]
            while st:
                x = st.pop()
                if x == h:
                    continue
                for p in self.pred(x):
                    if p not in body and p in self.reachable():
                        body.add(p)
                        st.append(p)
            loops[h] |= body
        return dict(loops)

    # ---- names
    def names(self):
        """local index -> user variable name (direct locals only)."""
        if self._names is None:
            self._names = {}
            for d in self.j["debug"]:
                p = d.get("p")
                if p is not None and not p["pj"]:
                    self._names.setdefault(p["l"], d["name"])
        return self._names

    def local_named(self, name):
        return [l for l, n in self.names().items() if n == name]

    def upvar_names(self):
        """upvar field index -> captured variable name (closures)."""
        out = {}
        for d in self.j["debug"]:
            p = d.get("p")
            if p is not None and p["l"] == 1:
                for e in p["pj"]:
                    if e["k"] == "field":
                        out[e["i"]] = d["name"]
                        break
        return out

    def lname(self, l):
        return self.names().get(l, "_%d" % l)

    # ---- iteration
    def stmts(self):
        for bb in self.reachable():
            for i, s in enumerate(self.blocks[bb]["stmts"]):
                yield bb, i, s

    def assigns(self):
        for bb, i, s in self.stmts():
            if s["k"] == "assign":
                yield bb, i, s

    def calls(self, pattern=None, blocks=None):
        """(bb, terminator) of every call whose callee path matches the regex `pattern`."""
        rx = re.compile(pattern) if pattern else None
        for bb in sorted(self.reachable() if blocks is None else blocks):
            t = self.term(bb)
            if t["k"] != "call":
                continue
            if rx is None or rx.search(call_name(t)) or rx.search(strip_own_generics(call_name(t))):
                yield bb, t

    # ---- definitions
    def defs(self):
        """local -> list of definition sites.  A site is a dict:
        {bb, idx (None = terminator), kind: 'assign'|'call'|'borrow_mut'|'arg', partial: bool, ...}."""
        if self._defs is None:
            d = defaultdict(list)
            for a in range(1, self.argc + 1):
                d[a].append({"bb": -1, "idx": None, "kind": "arg", "partial": False, "arg": a})
            for bb in sorted(self.reachable()):
                b = self.blocks[bb]
                for i, s in enumerate(b["stmts"]):
                    if s["k"] == "assign":
                        p = s["p"]
                        d[p["l"]].append({"bb": bb, "idx": i, "kind": "assign",
                                          "partial": bool(p["pj"]), "stmt": s})
                        rv = s["rv"]
                        if rv["k"] in ("ref", "rawptr") and rv.get("mut"):
                            q = rv["p"]
                            d[q["l"]].append({"bb": bb, "idx": i, "kind": "borrow_mut",
                                              "partial": True, "stmt": s})
                    elif s["k"] == "setdiscr":
                        d[s["p"]["l"]].append({"bb": bb, "idx": i, "kind": "assign",
                                               "partial": True, "stmt": s})
                t = b["term"]
                if t["k"] == "call":
                    p = t["dest"]
                    d[p["l"]].append({"bb": bb, "idx": None, "kind": "call",
                                      "partial": bool(p["pj"]), "term": t})
            self._defs = d
        return self._defs

    def single_def(self, l):
        ds = [x for x in self.defs().get(l, []) if not x["partial"]]
        if len(ds) == 1 and not [x for x in self.defs().get(l, []) if x["partial"] and x["kind"] == "assign"]:
            return ds[0]
        return None


CRATE_ROOTS = ("internal::", "scanner::", "scanner_builder::", "scanner_mode::", "pattern::", "find_matches::", "match_type::", "span::", "position::",
               "with_positions::", "errors::")


def strip_own_generics(name):
    """`path::to::f::<A, B>` -> `path::to::f` for functions of the crate (a method made generic over `impl Trait` keeps its name:
    the rules' patterns end in `name$`).  Functions of other crates keep their instantiation (rules match on it)."""
    if not name.endswith(">") or "::<" not in name:
        return name
    if not (name.startswith(CRATE_ROOTS) or (name.startswith("<") and name[1:].startswith(CRATE_ROOTS))):
        return name
    depth = 0
    for i in range(len(name) - 1, -1, -1):
        c = name[i]
        if c == ">":
            depth += 1
        elif c == "<":
            depth -= 1
            if depth == 0:
                return name[:i - 2] if name[:i].endswith("::") else name
    return name


def _no_generics(n):
    prev = None
    while prev != n:
        prev = n
        n = re.sub(r"::<[^<>]*>", "", n)
    return n


def call_name(t):
    """Most specific printable name of a call terminator's callee (a moved function under the name the rules know)."""
    n = t.get("callee_full") or t.get("callee_path") or t.get("callee_ty") or "?"
    b = strip_own_generics(n)      # a function of the crate is named without its own generic arguments
    if ALIASES:
        if b in ALIASES:
            return ALIASES[b]
        nb = _no_generics(b)        # (a call site prints `Type::<'_>::f` where the definition is `Type::<'h>::f`)
        for k_, v_ in ALIASES.items():
            if _no_generics(k_) == nb:
                return v_
    if TWINS and b in TWINS and not t.get("no_twin"):      # (no_twin: the call inside the known function whose body the twin is)
        return TWINS[b]
    return b


def call_resolved(t):
    return t.get("resolved_path") or t.get("callee_path") or "?"


# --------------------------------------------------------------------------------------------
# Expression trees (value provenance, A4)


class Prov:
    """Backward provenance over one function.  expr(local) yields a tree:
       ('const', text, val) | ('arg', i, name) | ('var', local, name)  (multi-def user var, opaque)
       ('field', base, name) | ('deref', e) | ('ref', e, mut) | ('index', base, idx)
       ('downcast', e, variant) | ('call', name, [args], resolved) | ('binop', op, a, b)
       ('unop', op, a) | ('cast', kind, from, to, e) | ('aggr', what, [fields], names)
       ('discr', e) | ('phi', [alts]) | ('cycle', local) | ('unk', text)
    Temporaries with exactly one full definition are expanded; locals with several definitions
    become ('phi', alternatives) (flow-insensitive union of all full defs) unless `opaque_multi`.
    """

    def __init__(self, fn, max_depth=40, opaque_locals=()):
        self.fn = fn
        self.max_depth = max_depth
        self.opaque = set(opaque_locals)

    def operand(self, o, depth=0, stack=()):
        if o["k"] == "const":
            return ("const", o.get("s"), o.get("val"), o.get("fn_path"))
        if o["k"] in ("copy", "move"):
            return self.place(o["p"], depth, stack)
        return ("unk", o.get("s", "?"))

    def place(self, p, depth=0, stack=()):
        e = self.local(p["l"], depth, stack)
        for pr in p["pj"]:
            k = pr["k"]
            if k == "deref":
                if e[0] == "ref":
                    e = e[1]
                else:
                    e = ("deref", e)
            elif k == "field":
                nm = pr.get("n", str(pr["i"]))
                # projection of a known aggregate -> pick the field
                if e[0] == "aggr" and pr["i"] < len(e[2]):
                    e = e[2][pr["i"]]
                else:
                    e = ("field", e, nm, pr["i"])
            elif k == "index":
                e = ("index", e, self.local(pr["l"], depth + 1, stack))
            elif k == "downcast":
                e = ("downcast", e, pr.get("n", str(pr["i"])))
            else:
                e = ("proj", e, k)
        return e

    def local(self, l, depth=0, stack=()):
        fn = self.fn
        nm = fn.names().get(l)
        if l in self.opaque:
            return ("var", l, nm)
        if l in stack:
            return ("cycle", l, nm)
        if depth > self.max_depth:
            return ("unk", "depth")
        ds = fn.defs().get(l, [])
        full = [d for d in ds if not d["partial"]]
        part = [d for d in ds if d["partial"]]
        if not ds:
            return ("unk", "undef _%d" % l)
        st = stack + (l,)
        alts = []
        for d in full:
            alts.append(self.def_expr(d, depth + 1, st))
        if part:
            # partially written locals (field by field, or mutated through &mut): keep the
            # alternatives and mark the local as mutated.
            alts.append(("mutated", l, nm, tuple(sorted({(d["bb"], d["idx"] if d["idx"] is not None else -1) for d in part}))))
        if len(alts) == 1:
            return alts[0]
        return ("phi", tuple(alts), l, nm)

    def def_expr(self, d, depth, stack):
        if d["kind"] == "arg":
            return ("arg", d["arg"], self.fn.names().get(d["arg"]))
        if d["kind"] == "call":
            t = d["term"]
            args = tuple(self.operand(a, depth + 1, stack) for a in t["args"])
            return ("call", call_name(t), args, call_resolved(t), d["bb"])
        if d["kind"] == "assign":
            s = d["stmt"]
            if s["k"] != "assign":
                return ("unk", "setdiscr")
            return self.rvalue(s["rv"], depth, stack)
        return ("unk", d["kind"])

    def rvalue(self, rv, depth, stack):
        k = rv["k"]
        if k == "use":
            return self.operand(rv["op"], depth, stack)
        if k == "ref":
            return ("ref", self.place(rv["p"], depth, stack), rv.get("mut", False))
        if k == "rawptr":
            return ("rawptr", self.place(rv["p"], depth, stack), rv.get("mut", False))
        if k == "binop":
            return ("binop", rv["op"], self.operand(rv["a"], depth, stack), self.operand(rv["b"], depth, stack))
        if k == "unop":
            return ("unop", rv["op"], self.operand(rv["a"], depth, stack))
        if k == "cast":
            return ("cast", rv["ck"], rv["from"], rv["to"], self.operand(rv["op"], depth, stack))
        if k == "aggregate":
            what = rv.get("ak")
            if what == "adt":
                what = "%s::%s" % (rv["path"], rv["variant"])
            elif what == "closure":
                what = "closure:%s" % rv["closure"]
            return ("aggr", what, tuple(self.operand(f, depth, stack) for f in rv["fields"]), tuple(rv.get("field_names", ())))
        if k == "discr":
            return ("discr", self.place(rv["p"], depth, stack))
        if k == "repeat":
            return ("repeat", self.operand(rv["op"], depth, stack))
        return ("unk", rv.get("s", k))


def walk_expr(e):
    """Yield every sub-expression (pre-order)."""
    st = [e]
    while st:
        x = st.pop()
        if not isinstance(x, tuple):
            continue
        yield x
        for y in x[1:]:
            if isinstance(y, tuple):
                if y and isinstance(y[0], str):
                    st.append(y)
                else:
                    for z in y:
                        if isinstance(z, tuple):
                            st.append(z)


def expr_calls(e):
    return [x for x in walk_expr(e) if x[0] == "call"]


def expr_has_call(e, pattern):
    rx = re.compile(pattern)
    return any(rx.search(x[1]) or rx.search(x[3]) for x in expr_calls(e))


def expr_fields(e):
    return [x[2] for x in walk_expr(e) if x[0] == "field"]


def expr_leaf_names(e):
    """Names of user variables / args / fields an expression depends on."""
    out = set()
    for x in walk_expr(e):
        if x[0] == "arg" and x[2]:
            out.add(x[2])
        elif x[0] in ("var", "cycle") and x[2]:
            out.add(x[2])
        elif x[0] == "phi" and len(x) > 3 and x[3]:
            out.add(x[3])
        elif x[0] == "mutated" and x[2]:
            out.add(x[2])
        elif x[0] == "field":
            out.add("." + x[2])
    return out


def expr_str(e, depth=0):
    if not isinstance(e, tuple):
        return str(e)
    if depth > 8:
        return "…"
    k = e[0]
    if k == "const":
        return "const(%s)" % (e[1],)
    if k == "arg":
        return "arg:%s" % (e[2] or e[1])
    if k in ("var", "cycle"):
        return "%s:%s" % (k, e[2] or e[1])
    if k == "field":
        return "%s.%s" % (expr_str(e[1], depth + 1), e[2])
    if k == "deref":
        return "*%s" % expr_str(e[1], depth + 1)
    if k == "ref":
        return "&%s" % expr_str(e[1], depth + 1)
    if k == "index":
        return "%s[%s]" % (expr_str(e[1], depth + 1), expr_str(e[2], depth + 1))
    if k == "downcast":
        return "(%s as %s)" % (expr_str(e[1], depth + 1), e[2])
    if k == "call":
        return "%s(%s)" % (short_name(e[1]), ", ".join(expr_str(a, depth + 1) for a in e[2]))
    if k == "binop":
        return "(%s %s %s)" % (expr_str(e[2], depth + 1), e[1], expr_str(e[3], depth + 1))
    if k == "unop":
        return "%s(%s)" % (e[1], expr_str(e[2], depth + 1))
    if k == "cast":
        return "(%s as %s)" % (expr_str(e[4], depth + 1), e[3])
    if k == "aggr":
        return "%s{%s}" % (short_name(e[1]), ", ".join(expr_str(a, depth + 1) for a in e[2]))
    if k == "discr":
        return "discr(%s)" % expr_str(e[1], depth + 1)
    if k == "phi":
        return "phi[%s](%s)" % (e[3] or e[2], " | ".join(expr_str(a, depth + 1) for a in e[1]))
    if k == "mutated":
        return "mut:%s" % (e[2] or e[1])
    return "%s" % (e,)


def short_name(s):
    s = re.sub(r"<[^<>]*>", "", s)
    s = re.sub(r"<[^<>]*>", "", s)
    parts = [p for p in s.split("::") if p]
    return "::".join(parts[-2:]) if parts else s


# --------------------------------------------------------------------------------------------


ALIASES = {}       # function name in the analysed tree -> the name the rules know it by (set when Facts are loaded)
TWINS = {}         # name of a later-added function that computes exactly what a known function computes (a by-reference / by-slice
                   # variant written next to it) -> the known function's name (common.find_twins, set per run)


def _aliases(names):
    """A function the rules know as a method `mod::Type::name` that now exists as a free function `mod::name` of the same module
    (or the reverse) — and no longer under its old name — is the same function moved: it is analysed under the known name,
    its receiver-typed first parameter is called `self`."""
    import os
    try:
        with open(os.path.join(os.path.dirname(__file__), "vocabulary.txt")) as fh:
            voc = set(l.rstrip("\n") for l in fh if l.strip())
    except OSError:
        return {}
    def split(n):
        n2 = re.sub(r"::<[^<>]*>", "", n)
        parts = n2.split("::")
        return parts
    present = set(names)
    by_last = defaultdict(list)
    for v in voc:
        if v.startswith("<") or "{closure" in v or v in present:
            continue
        p = split(v)
        by_last[p[-1]].append((v, p))
    out = {}
    for n in sorted(present):
        if n in voc or n.startswith("<") or "{closure" in n:
            continue
        p = split(n)
        cands = []
        for v, vp in by_last.get(p[-1], []):
            # method -> free fn of the same module, or free fn -> method of a type in the same module
            if (len(vp) == len(p) + 1 and vp[:-2] == p[:-1]) or (len(p) == len(vp) + 1 and p[:-2] == vp[:-1]):
                cands.append((v, vp))
        if len(cands) == 1:
            out[n] = cands[0][0]
    return out


_VOCSIGS = None


def vocabulary_sigs():
    """rules/vocabulary_sigs.json (tools/gen_vocab_sigs): parameter names / types of the known functions, fields of the known structs"""
    global _VOCSIGS
    if _VOCSIGS is None:
        import os
        try:
            with open(os.path.join(os.path.dirname(__file__), "vocabulary_sigs.json")) as fh:
                _VOCSIGS = json.load(fh)
        except (OSError, ValueError):
            _VOCSIGS = {"functions": {}, "adts": {}}
    return _VOCSIGS


def _renamed_functions(functions):
    """{present name: known name} for private functions that were only *renamed*: a known function (not a trait method) is gone,
    and in the same impl / module there is exactly one function the rules do not know with the same parameter and return types
    (and no other missing known function has that signature).  The function is analysed under the known name — the rules are
    checked against its body as it is, so a wrong guess can only produce a report, never hide one."""
    ref = vocabulary_sigs()["functions"]
    if not ref:
        return {}
    present = {f["name"]: f for f in functions if f.get("kind") != "Closure"}
    import os
    try:
        with open(os.path.join(os.path.dirname(__file__), "vocabulary.txt")) as fh:
            voc = set(l.rstrip("\n") for l in fh if l.strip())
    except OSError:
        return {}

    def sig_of(f):
        argc = f.get("argc", 0)
        return (tuple(f["locals"][i]["ty"] for i in range(1, argc + 1)), f["locals"][0]["ty"])

    def scope(n):
        return re.sub(r"::<[^<>]*>", "", n).rsplit("::", 1)[0]
    missing = {}
    for n, r in ref.items():
        if n in present or n.startswith("<"):
            continue
        missing.setdefault((scope(n), tuple(r["tys"]), r["ret"]), []).append(n)
    unknown = {}
    for n, f in present.items():
        if n in voc or n.startswith("<") or f.get("exp"):
            continue
        unknown.setdefault((scope(n),) + sig_of(f), []).append(n)
    out = {}
    for k, ms in missing.items():
        us = unknown.get(k, [])
        if len(ms) == 1 and len(us) == 1:
            out[us[0]] = ms[0]
    # moved, not renamed: the same last name and signature in another module / impl block (unique both ways)
    def last(n):
        return re.sub(r"::<[^<>]*>", "", n).rsplit("::", 1)[-1]
    m2, u2 = {}, {}
    for (sc, tys, ret), ms in missing.items():
        for n in ms:
            if n not in out.values():
                m2.setdefault((last(n), tys, ret), []).append(n)
    for k, us in unknown.items():
        for n in us:
            if n not in out:
                u2.setdefault((last(n),) + k[1:], []).append(n)
    for k, ms in m2.items():
        us = u2.get(k, [])
        if len(ms) == 1 and len(us) == 1:
            out[us[0]] = ms[0]
    return out


def _lifetime_aliases(functions):
    """{present name: known name} for functions whose printed name differs from a known one only in how a lifetime is spelled
    (`impl Iterator for FindMatches<'_>` written as `impl<'h> Iterator for FindMatches<'h>`)."""
    import os
    try:
        with open(os.path.join(os.path.dirname(__file__), "vocabulary.txt")) as fh:
            voc = set(l.rstrip("\n") for l in fh if l.strip())
    except OSError:
        return {}
    present = {f["name"] for f in functions}
    norm = lambda n: re.sub(r"'\w+", "'_", n)
    gone = {}
    for v in voc:
        if v not in present and "{closure" not in v:
            gone.setdefault(norm(v), []).append(v)
    out = {}
    for n in present:
        if n in voc or "{closure" in n:
            continue
        vs = gone.get(norm(n), [])
        if len(vs) == 1:
            out[n] = vs[0]
    return out


def _replaced_functions(j, taken):
    """{present name: known name} for a private function that took a known function's place under another name AND another
    signature (`fn priority_of(&self, id)` -> `fn terminal_rank(ranking: &[TerminalID], wanted: TerminalID)`): the known function
    is gone, and exactly one function the rules do not know is called from exactly the functions that called it in the reference
    tree (rules/vocabulary_sigs.json, "callers"), returning the same type.  `taken`: names already explained otherwise."""
    ref = vocabulary_sigs()["functions"]
    import os
    try:
        with open(os.path.join(os.path.dirname(__file__), "vocabulary.txt")) as fh:
            voc = set(l.rstrip("\n") for l in fh if l.strip())
    except OSError:
        return {}
    fns = j["functions"]
    present = {f["name"] for f in fns}
    key2name = {f["key"]: f["name"] for f in fns}
    root_of = {c["key"]: c.get("root") for c in j.get("closures", [])}
    cur_callers = {}
    for f in fns:
        owner = key2name.get(root_of.get(f["key"]) or f["key"], f["name"])
        for b in f.get("blocks", []):
            t = b.get("term") or {}
            if t.get("k") == "call":
                n = key2name.get(t.get("resolved") or t.get("callee"))
                if n and n != owner:
                    cur_callers.setdefault(n, set()).add(owner)
    missing = {n: r for n, r in ref.items() if n not in present and not n.startswith("<") and r.get("callers") and n not in taken.values()}
    unknown = [f for f in fns if f.get("kind") != "Closure" and f["name"] not in voc and not f["name"].startswith("<") and not f.get("exp") and f["name"] not in taken]
    out = {}
    for n, r in missing.items():
        # (called from the functions that called the known one — or from some of them, when one caller now goes through another)
        hits = [f["name"] for f in unknown if cur_callers.get(f["name"]) and set(cur_callers[f["name"]]) <= set(r["callers"]) and f["locals"][0]["ty"] == r["ret"]]
        exact = [h for h in hits if sorted(cur_callers[h]) == r["callers"]]
        if len(exact) == 1:
            hits = exact
        others = [m for m, r2 in missing.items() if m != n and r2["callers"] == r["callers"] and r2["ret"] == r["ret"]]
        if len(hits) == 1 and not others:
            out[hits[0]] = n
    return out


def _permute_params(j):
    """A known function whose parameters were only *reordered* (same types, each occurring once) is read in the order the rules
    know: its parameter locals are renumbered and the arguments of every direct call are permuted.  (With two parameters of
    one type the order cannot be recovered from the types; nothing is done then.)"""
    ref = vocabulary_sigs()["functions"]
    done = {}
    for f in j["functions"]:
        r = ref.get(f["name"])
        if not r or f.get("kind") == "Closure":
            continue
        argc = f.get("argc", 0)
        cur = [f["locals"][i]["ty"] for i in range(1, argc + 1)]
        if argc != len(r["tys"]) or cur == r["tys"] or sorted(cur) != sorted(r["tys"]) or len(set(cur)) != len(cur):
            continue
        # new local number of the parameter that is now at position c (1-based): the known position of its type
        newl = {c + 1: r["tys"].index(cur[c]) + 1 for c in range(argc)}

        def walk(o):
            if isinstance(o, dict):
                if isinstance(o.get("l"), int) and o["l"] in newl:
                    o["l"] = newl[o["l"]]
                for v in o.values():
                    if isinstance(v, (dict, list)):
                        walk(v)
            elif isinstance(o, list):
                for v in o:
                    if isinstance(v, (dict, list)):
                        walk(v)
        walk(f.get("blocks", []))
        walk(f.get("debug", []))
        walk(f.get("promoted", []))
        for d in f.get("debug", []):
            if d.get("arg") in newl:
                d["arg"] = newl[d["arg"]]
        locs = list(f["locals"])
        for c in range(1, argc + 1):
            f["locals"][newl[c]] = locs[c]
        done[f["key"]] = newl
    if done:
        for f in j["functions"]:
            for b in f.get("blocks", []):
                t = b.get("term") or {}
                if t.get("k") == "call":
                    nl = done.get(t.get("resolved")) or done.get(t.get("callee"))
                    if nl and len(t.get("args", [])) == len(nl):
                        old = list(t["args"])
                        for c in range(1, len(nl) + 1):
                            t["args"][nl[c] - 1] = old[c - 1]
        j["permuted_params"] = {k: {str(a): b for a, b in v.items()} for k, v in done.items()}


def _canonical_names(j):
    """Parameters and struct fields that were only renamed are read under the names the rules know (rules/vocabulary_sigs.json):
    a parameter of a known function by its position (types unchanged), a field of a known struct by its index (same number of
    fields, same type at that index, the known name not in use elsewhere in the struct).  Rewrites the fact base in place."""
    ref = vocabulary_sigs()
    # ---- parameters
    by_key = {}
    for f in j["functions"]:
        by_key[f["key"]] = f
    closures_of = {}
    for c in j.get("closures", []):
        closures_of.setdefault(c.get("root"), []).append(c.get("key"))
    for f in j["functions"]:
        r = ref["functions"].get(f["name"])
        if not r or f.get("kind") == "Closure":
            continue
        argc = f.get("argc", 0)
        cur_tys = [f["locals"][i]["ty"] for i in range(1, argc + 1)]
        same_sig = argc == len(r["args"]) and cur_tys == r["tys"]

        ren = {}
        used = set(d["name"] for d in f.get("debug", []))
        for d in f.get("debug", []):
            a = d.get("arg")
            if a and 1 <= a <= argc and d.get("p") and not d["p"]["pj"]:
                if same_sig:
                    want = r["args"][a - 1]
                else:
                    # another signature (a function that took the known one's place): a parameter whose type occurs once here
                    # and once in the known signature is that parameter
                    ty = cur_tys[a - 1]
                    want = r["args"][r["tys"].index(ty)] if cur_tys.count(ty) == 1 and r["tys"].count(ty) == 1 else None
                if want and want != "self" and d["name"] != want and want not in used and d["name"] not in ren:
                    ren[d["name"]] = want
        if not ren:
            continue
        for d in f.get("debug", []):
            if d.get("arg") and d["name"] in ren:
                d["name"] = ren[d["name"]]
        f.setdefault("renamed_params", {}).update(ren)
        for ck in closures_of.get(f["key"], []):
            c = by_key.get(ck)
            if c:
                for d in c.get("debug", []):
                    if d["name"] in ren and d.get("p") and d["p"]["pj"]:      # (a captured variable of the parent)
                        d["name"] = ren[d["name"]]
    # ---- fields
    fmap = {}
    omap = {}
    for a in j.get("adts", []):
        rf = ref["adts"].get(a.get("path"))
        if not rf or str(a.get("kind")).lower() != "struct" or not a.get("variants"):
            continue
        cur = a["variants"][0]["fields"]
        if len(cur) != len(rf):
            continue
        cur_names = [fl["name"] for fl in cur]
        ref_names = [x[0] for x in rf]
        m = {}
        # fields the rules do not know vs. known fields that are gone: paired by position when the type agrees there, else by
        # type when exactly one unknown and one missing field have it (the declaration order may have changed as well)
        unknown = [(i, fl) for i, fl in enumerate(cur) if fl["name"] not in ref_names]
        missing = [(i, x) for i, x in enumerate(rf) if x[0] not in cur_names]
        for i, fl in unknown:
            want, wty = rf[i]
            if want not in cur_names and fl["ty"]["s"] == wty:
                m[fl["name"]] = want
        for i, fl in unknown:
            if fl["name"] in m:
                continue
            ty = fl["ty"]["s"]
            cands = [x[0] for _, x in missing if x[1] == ty and x[0] not in m.values()]
            same = [f2 for _, f2 in unknown if f2["ty"]["s"] == ty and f2["name"] not in m]
            if len(cands) == 1 and len(same) == 1:
                m[fl["name"]] = cands[0]
        if m:
            fmap[a["path"]] = m
            for fl in cur:
                if fl["name"] in m:
                    fl["name"] = m[fl["name"]]
        # the declaration order of the fields (read positionally in struct literals): back to the known order
        now = [fl["name"] for fl in cur]
        if now != ref_names and sorted(now) == sorted(ref_names) and len(set(now)) == len(now):
            omap[a["path"]] = [ref_names.index(n) for n in now]      # current index -> known index
            a["variants"][0]["fields"] = [cur[now.index(n)] for n in ref_names]
    if omap:
        def walk_o(o):
            if isinstance(o, dict):
                if o.get("k") == "field" and o.get("adt") in omap and isinstance(o.get("i"), int) and not o.get("variant") and o["i"] < len(omap[o["adt"]]):
                    o["i"] = omap[o["adt"]][o["i"]]
                if o.get("k") == "aggregate" and o.get("path") in omap and isinstance(o.get("fields"), list) and len(o["fields"]) == len(omap[o["path"]]):
                    perm = omap[o["path"]]
                    nf, nn = [None] * len(perm), [None] * len(perm)
                    for ci, ki in enumerate(perm):
                        nf[ki] = o["fields"][ci]
                        if o.get("field_names") and ci < len(o["field_names"]):
                            nn[ki] = o["field_names"][ci]
                    o["fields"] = nf
                    if o.get("field_names"):
                        o["field_names"] = nn
                for v in o.values():
                    if isinstance(v, (dict, list)):
                        walk_o(v)
            elif isinstance(o, list):
                for v in o:
                    if isinstance(v, (dict, list)):
                        walk_o(v)
        walk_o(j["functions"])
        j["reordered_fields"] = {k: v for k, v in omap.items()}
    if fmap:
        def walk(o):
            if isinstance(o, dict):
                if o.get("k") == "field" and o.get("adt") in fmap and o.get("n") in fmap[o["adt"]]:
                    o["n"] = fmap[o["adt"]][o["n"]]
                if o.get("k") == "aggregate" and o.get("path") in fmap and o.get("field_names"):
                    o["field_names"] = [fmap[o["path"]].get(n, n) for n in o["field_names"]]
                for v in o.values():
                    if isinstance(v, (dict, list)):
                        walk(v)
            elif isinstance(o, list):
                for v in o:
                    if isinstance(v, (dict, list)):
                        walk(v)
        walk(j["functions"])
        j["renamed_fields"] = fmap


def _renamed_types(j):
    """{new last name: known last name} for private types that were only renamed: a known struct / enum is gone and exactly one
    type the rules do not know, in the same module, has the same variants and fields (names and types, its own name apart)."""
    ref = vocabulary_sigs().get("shapes") or {}
    if not ref:
        return {}
    cur = {}
    for a in j.get("adts", []):
        cur[a["path"]] = [str(a.get("kind")).lower()] + [[v["name"], [[fl["name"], fl["ty"]["s"]] for fl in v["fields"]]] for v in a.get("variants", [])]
    missing = [p for p in ref if p not in cur]
    unknown = [p for p in cur if p not in ref]
    out = {}
    for m in missing:
        mod, mlast = m.rsplit("::", 1) if "::" in m else ("", m)
        hits = []
        for u in unknown:
            umod, ulast = u.rsplit("::", 1) if "::" in u else ("", u)
            if umod != mod:
                continue
            txt = json.dumps(cur[u])
            txt = re.sub(r"\b%s\b" % re.escape(ulast), mlast, txt)
            if json.loads(txt) == ref[m]:
                hits.append(ulast)
        if len(hits) == 1 and hits[0] not in out and not any(p.rsplit("::", 1)[-1] == hits[0] for p in ref):
            out[hits[0]] = mlast
    return out


class Facts:
    def __init__(self, path):
        with open(path) as fh:
            raw = fh.read()
        self.j = json.loads(raw)
        try:
            tr = _renamed_types(self.j)
        except Exception:
            tr = {}
        if tr:
            # a renamed private type: read the whole fact base under the known name (paths, type strings, method names)
            for new_, old_ in tr.items():
                raw = re.sub(r"(?<![\w])%s(?![\w])" % re.escape(new_), old_, raw)
            self.j = json.loads(raw)
            self.j["renamed_types"] = tr
        del raw
        global ALIASES
        ALIASES = _aliases([f["name"] for f in self.j["functions"]])
        for k_, v_ in _lifetime_aliases(self.j["functions"]).items():
            ALIASES.setdefault(k_, v_)
        renamed_ = _renamed_functions(self.j["functions"])
        renamed_.update({k_: v_ for k_, v_ in ALIASES.items() if re.sub(r"'\w+", "'_", k_) == re.sub(r"'\w+", "'_", v_)})
        for k_, v_ in renamed_.items():
            ALIASES.setdefault(k_, v_)
        try:
            for k_, v_ in _replaced_functions(self.j, dict(ALIASES)).items():
                ALIASES.setdefault(k_, v_)
        except Exception:
            pass
        self.aliases = dict(ALIASES)
        self.fns = {}
        self.by_name = defaultdict(list)
        for f in self.j["functions"]:
            for old_, new_ in ALIASES.items():
                if f["name"] == old_ or f["name"].startswith(old_ + "::{closure"):
                    f["alias_of"] = f["name"]
                    if old_ in renamed_:
                        f["alias_kind"] = "renamed"      # (same signature under another name: nothing about its parameters changed)
                    f["name"] = new_ + f["name"][len(old_):]
                    break
        try:
            _permute_params(self.j)
        except Exception:
            pass
        try:
            _canonical_names(self.j)
        except Exception:
            pass
        for f in self.j["functions"]:
            # `log::debug!(..)` written with its path is the macro `debug!`
            for b_ in f.get("blocks", []):
                t_ = b_.get("term")
                if t_:
                    for k_ in ("exp_outer", "exp"):
                        v_ = t_.get(k_)
                        if isinstance(v_, str) and v_.startswith("log::"):
                            t_[k_] = v_[5:]
            fn = Fn(f, self)
            self.fns[fn.key] = fn
            self.by_name[fn.name].append(fn)
        self.adts = {a["path"]: a for a in self.j["adts"]}
        self.impls = self.j["impls"]
        try:
            from . import symex as _S
            _S.KEEP_AS_ADT.clear()
            _S.KEEP_AS_ADT.update(i["self"]["s"].split("<")[0] for i in self.impls if i.get("of_trait") and i.get("trait") == "std::fmt::Display" and not i.get("derived"))
        except Exception:
            pass
        self.closures = {c["key"]: c for c in self.j["closures"]}
        self.statics = self.j["statics"]
        self.unsafe_blocks = self.j["unsafe_blocks"]
        self._cg = None
        self._cb_impls = None
        self._dyn_targets = None

    # -- lookup
    def fn(self, pattern, unique=True):
        """Find a function by regex on its printed path (def_path_str).  Fail closed."""
        rx = re.compile(pattern)
        hits = [f for f in self.fns.values() if rx.search(f.name)]
        if unique:
            if len(hits) != 1:
                raise AnchorMissing("function /%s/: %d matches %s" % (pattern, len(hits), [h.name for h in hits][:5]))
            return hits[0]
        if not hits:
            raise AnchorMissing("function /%s/: no match" % pattern)
        return hits

    def fn_opt(self, pattern):
        rx = re.compile(pattern)
        return [f for f in self.fns.values() if rx.search(f.name)]

    def adt(self, suffix):
        hits = [a for p, a in self.adts.items() if p == suffix or p.endswith("::" + suffix)]
        if len(hits) != 1:
            raise AnchorMissing("adt %s: %d matches" % (suffix, len(hits)))
        return hits[0]

    def closures_of(self, fn):
        """Closure bodies whose typeck root is `fn` (transitively nested)."""
        return [self.fns[c["key"]] for c in self.j["closures"] if c["root"] == fn.key and c["key"] in self.fns]

    def user_fns(self):
        """Functions that are not compiler-generated (derives / serde expansions)."""
        return [f for f in self.fns.values() if not f.j.get("exp")]

    # -- call graph
    def dyn_targets(self):
        """For virtual `Fn::call` through dyn Fn: every closure of the crate, keyed by arity of
        its signature (over-approximation of the dispatch)."""
        if self._dyn_targets is None:
            t = defaultdict(list)
            for c in self.j["closures"]:
                sig = c["sig"]
                m = re.search(r"fn\(\((.*?),?\)\)", sig)
                t["*"].append(c["key"])
            self._dyn_targets = t
        return self._dyn_targets

    def callees(self, fn, blocks=None):
        """Set of local function keys possibly called by fn (resolved callee; dyn Fn -> closures
        coerced to a matching dyn type)."""
        out = set()
        for bb, t in fn.calls(blocks=blocks):
            r = t.get("resolved")
            kind = t.get("resolved_kind")
            if kind == "Virtual" or (t.get("callee_path", "").startswith("std::ops::Fn") and (t.get("callee_self") or "").startswith("dyn")):
                out |= self.virtual_targets(t)
                continue
            if r and r in self.fns:
                out.add(r)
            elif t.get("callee") in self.fns:
                out.add(t["callee"])
            else:
                out |= self.blanket_targets(t)
                out |= self.callback_targets(t)
            # closures passed as arguments to external higher-order functions are invoked there
            # (handled by closure_args below).
        # functions handed over by name (`.map_err(ScnrError::from)`, `.map(Self::helper)`, `let f = helper;`) are called by
        # whoever receives them: considered callable here
        def fn_items(o):
            if isinstance(o, dict):
                if o.get("k") == "const" and o.get("fn_resolved"):
                    yield o
                for v in o.values():
                    if isinstance(v, (dict, list)):
                        yield from fn_items(v)
            elif isinstance(o, list):
                for v in o:
                    yield from fn_items(v)
        for bb2 in (fn.reachable() if blocks is None else blocks):
            t2 = fn.term(bb2)
            srcs = [t2.get("args", [])] if t2.get("k") == "call" else []
            srcs += [st_.get("rv") for st_ in fn.blocks[bb2]["stmts"] if st_.get("k") == "assign"]
            for c_ in fn_items(srcs):
                if c_["fn_resolved"] in self.fns:
                    out.add(c_["fn_resolved"])
                elif c_.get("fn") in self.fns:
                    out.add(c_["fn"])
        # closures created in this function and handed to anything are considered callable here
        for bb2, i, s in fn.assigns():
            if blocks is not None and bb2 not in blocks:
                continue
            rv = s["rv"]
            if rv["k"] == "aggregate" and rv.get("ak") == "closure" and rv["closure"] in self.fns:
                out.add(rv["closure"])
        return out

    def virtual_targets(self, t):
        """Closures that may be the target of a call through `dyn Fn(..)`: every closure of the
        crate whose parameter types equal the argument tuple of the call (type-based dispatch
        over-approximation; closures are the only implementors of Fn in the crate)."""
        targs = t.get("callee_targs") or []
        want = targs[1] if len(targs) > 1 else None
        out = set()
        for c in self.j["closures"]:
            got = "(" + ", ".join(c.get("inputs", [])) + ("," if len(c.get("inputs", [])) == 1 else "") + ")"
            if want is None or norm_ty(got) == norm_ty(want):
                out.add(c["key"])
        return out

    _CALLBACK_TRAITS = ("std::cmp::PartialEq", "std::cmp::PartialOrd", "std::cmp::Ord", "std::hash::Hash", "std::clone::Clone", "std::default::Default")

    def callback_targets(self, t):
        """Hand-written comparison / hashing / cloning impls of the crate that a generic function of std may call back:
        `v.sort()`, `set.insert(x)`, `map.get(k)`, `v.contains(x)`, `v.clone()` on a container run `<T as Ord>::cmp`,
        `<K as Hash>::hash`, `<T as PartialEq>::eq`, `<T as Clone>::clone` of the element type inside std.  Type-based
        over-approximation: every such impl whose Self type occurs in the type arguments of the call."""
        if self._cb_impls is None:
            self._cb_impls = [(re.compile(r"(?<![\w:])" + re.escape(norm_ty(f.j["impl"]["self"])) + r"(?![\w:])"), f.key) for f in self.fns.values()
                              if f.j.get("impl") and f.j["impl"].get("trait") in self._CALLBACK_TRAITS and not f.j.get("exp") and f.kind != "Closure"]
        targs = t.get("callee_targs") or []
        if not targs or not self._cb_impls:
            return set()
        txt = " ".join(norm_ty(x) for x in targs)
        return {k for rx, k in self._cb_impls if rx.search(txt)}

    def blanket_targets(self, t):
        """Local impl fns reached through std blanket impls: `x.into()` -> From::from,
        `x.try_into()` -> TryFrom::try_from, `x.to_string()` -> Display::fmt."""
        path = t.get("callee_path") or ""
        targs = t.get("callee_targs") or []
        out = set()
        m = re.search(r"convert::(Try)?Into::(try_)?into$", path)
        if m and len(targs) >= 2:
            src, dst = norm_ty(targs[0]), norm_ty(targs[1])
            want_trait = "std::convert::TryFrom" if m.group(1) else "std::convert::From"
            for f in self.fns.values():
                im = f.j.get("impl")
                if not im or im.get("trait") != want_trait:
                    continue
                if norm_ty(im["self"]) == dst and norm_ty(src) in norm_ty(im.get("trait_full", "")):
                    out.add(f.key)
        if re.search(r"ops::FromResidual::from_residual$", path) and len(targs) >= 2:
            # `expr?` converts the error with From::from inside std's from_residual: the crate's conversion runs here
            def err_ty(ty):
                m_ = re.match(r"^std::result::Result<(.*)>$", ty.strip())
                if not m_:
                    return None
                depth, parts, cur = 0, [], ""
                for ch in m_.group(1):
                    if ch in "<([":
                        depth += 1
                    elif ch in ">)]":
                        depth -= 1
                    if ch == "," and depth == 0:
                        parts.append(cur)
                        cur = ""
                    else:
                        cur += ch
                parts.append(cur)
                return parts[-1].strip() if len(parts) == 2 else None
            dst, src = err_ty(targs[0]), err_ty(targs[1])
            if dst and src and norm_ty(dst) != norm_ty(src):
                for f in self.fns.values():
                    im = f.j.get("impl")
                    if im and im.get("trait") == "std::convert::From" and norm_ty(im["self"]) == norm_ty(dst) \
                            and norm_ty(im.get("trait_full", "")).endswith(norm_ty("From<%s>>" % src)):
                        out.add(f.key)
        if re.search(r"string::ToString::to_string$", path) and targs:
            src = norm_ty(targs[0])
            for f in self.fns.values():
                im = f.j.get("impl")
                if im and im.get("trait") == "std::fmt::Display" and norm_ty(im["self"]) == src:
                    out.add(f.key)
        return out

    def callgraph(self):
        if self._cg is None:
            self._cg = {k: self.callees(f) for k, f in self.fns.items()}
        return self._cg

    def reachable_fns(self, roots):
        cg = self.callgraph()
        seen = set()
        st = [r.key if isinstance(r, Fn) else r for r in roots]
        while st:
            k = st.pop()
            if k in seen or k not in self.fns:
                continue
            seen.add(k)
            st.extend(cg.get(k, ()))
        return seen

    # -- effects (A3): type-qualified field writes
    def direct_writes(self, fn, blocks=None):
        """{(adt, field)} written directly in fn: assignments through a field projection and
        mutable borrows of a place with a field projection (the borrow may be written through)."""
        out = defaultdict(list)
        for bb, i, s in fn.stmts():
            if blocks is not None and bb not in blocks:
                continue
            if s["k"] == "assign":
                for af in place_fields(s["p"]):
                    out[af].append((bb, i, "assign"))
                rv = s["rv"]
                if rv["k"] in ("ref", "rawptr") and rv.get("mut"):
                    for af in place_fields(rv["p"]):
                        out[af].append((bb, i, "borrow_mut"))
            elif s["k"] == "setdiscr":
                for af in place_fields(s["p"]):
                    out[af].append((bb, i, "setdiscr"))
        for bb in (fn.reachable() if blocks is None else blocks):
            t = fn.term(bb)
            if t["k"] == "call":
                for af in place_fields(t["dest"]):
                    out[af].append((bb, None, "call_dest"))
            if t["k"] == "drop":
                pass
        return out

    def may_write(self, fn, blocks=None, _memo=None):
        """Transitive {(adt, field)} over the call graph from fn (optionally only the calls in
        `blocks` of fn)."""
        out = set(self.direct_writes(fn, blocks).keys())
        for k in self.reachable_fns(self.callees(fn, blocks)):
            out |= set(self.direct_writes(self.fns[k]).keys())
        return out


def norm_ty(s):
    s = re.sub(r"\s+", "", s)
    s = re.sub(r"'[a-z_]+", "'_", s)
    s = s.replace("&'_", "&")
    s = s.replace(",)", ")")
    return s
