"""C06 — scanner modes switch exactly on configured token types."""
import re

from . import mirlib as M
from . import symex as S
from .common import (BaseModel, run_fn, ret_paths, heap_writes, field_writers, aggregates_of,
                     callers_of, is_derived, variant_of, none, some, field_path)

LEVEL = "other"
EXPLANATION = (
    "Static rules over the MIR of the type-checked crate: closed writer set of ScannerImpl.current_mode "
    "(who-may-write), mode purity of the peek path (transitive effect summary), path-sensitive abstract "
    "interpretation of ScannerImpl::find_from / execute_possible_mode_switch / CompiledScannerMode::has_transition "
    "(every path classified by the Option/Ordering outcomes it assumes and compared with the three-way table), "
    "reset-before-return of FindMatchesImpl::new, provenance of the automaton used for the attempt, forwarding "
    "chains of set_mode/current_mode/mode_name. Decides the structural clauses for all inputs, mode graphs and "
    "call histories; the precondition 'sorted transitions' is taken from the property's quantifier.")

LOG_MACROS = ("trace!", "debug!", "info!", "warn!", "error!")


class Model(BaseModel):
    def switch(self, ex, path, bb, d, t):
        if t.get("exp_outer") in LOG_MACROS:
            return False
        return None


def fresh_iterator_rules(ctx):
    """C06.e (also a necessary condition of C12: a new iterator does not depend on the mode set on the Scanner)."""
    F = ctx.facts
    # ---- C06.e fresh iterators start in mode 0 ---------------------------------------------------
    aggs = aggregates_of(F, "FindMatchesImpl")
    ctx.floor("C06.e", "FindMatchesImpl constructors", len(aggs), 1)
    for fn, bb, i, s in aggs:
        ok = re.search(r"FindMatchesImpl::<..>::new$", fn.name) is not None
        if not ok:
            # `Self { ..x }`: every field moved out of one existing value in order — a move of that value, not a construction
            fl_ = s["rv"]["fields"]
            pls_ = [M.operand_place(o_) for o_ in fl_]
            if len(pls_) >= 2 and all(pl_ is not None and pl_["l"] == pls_[0]["l"] and len(pl_["pj"]) == len(pls_[0]["pj"]) and pl_["pj"] and pl_["pj"][-1]["k"] == "field" and pl_["pj"][-1]["i"] == k_
                                     and pl_["pj"][:-1] == pls_[0]["pj"][:-1] for k_, pl_ in enumerate(pls_)):
                continue
        ctx.ob("C06.e", "ctor-only-in-new:" + M.short_name(fn.name), ok, "FindMatchesImpl is constructed in %s" % fn.name, fn.loc(bb, i))
    new = F.fn(r"FindMatchesImpl::<..>::new$")
    ctx.analysed_fn(new)
    ex, paths = run_fn(new, F, Model(), inline=r"ScannerImpl::reset$|ScannerImpl as scanner::ScannerModeSwitcher>::set_mode$")
    rp = ret_paths(paths)
    ctx.floor("C06.e", "return paths of FindMatchesImpl::new", len(rp), 1)
    for p in rp:
        ret = p.end[1]
        ok = False
        detail = "returned value is not a FindMatchesImpl aggregate: %s" % S.vstr(ret)
        if ret[0] == "adt" and ret[3]:
            si = ret[3][0]
            # reset() inlined: the scanner_impl field of the returned value is the moved-in scanner
            # with current_mode overwritten by 0
            ok = (si[0] == "upd" and si[1] == ("sym", "scanner_impl") and [st[1] for st in si[2]] == ["current_mode"] and si[3] == ("int", 0))
            detail = "returned scanner_impl = %s" % S.vstr(si)
        ctx.ob("C06.e", "new-resets-the-returned-scanner", ok, detail, new.loc())
    rst = F.fn(r"ScannerImpl::reset$")
    ex, paths = run_fn(rst, F, Model(), inline=r"ScannerImpl as scanner::ScannerModeSwitcher>::set_mode$")
    for p in ret_paths(paths):
        ws = heap_writes(p, "current_mode")
        ctx.ob("C06.e", "reset-writes-0", len(ws) == 1 and ws[0][2] == ("int", 0), "reset writes current_mode = %s" % [S.vstr(w[2]) for w in ws], rst.loc())
    # only FindMatches::new calls FindMatchesImpl::new; Scanner::find_iter hands a clone of its own inner
    cs = [c for c in callers_of(F, r"FindMatchesImpl::<..>::new$") if not is_derived(c[0])]
    ctx.ob("C06.e", "single-caller-of-FindMatchesImpl::new", len(cs) == 1 and re.search(r"FindMatches::<..>::new$", cs[0][0].name) is not None,
           "callers: %s" % [M.short_name(c[0].name) for c in cs], "")
    cs = [c for c in callers_of(F, r"find_matches::FindMatches::<..>::new$")]
    ctx.ob("C06.e", "single-caller-of-FindMatches::new", len(cs) == 1 and re.search(r"Scanner::find_iter$", cs[0][0].name) is not None,
           "callers: %s" % [M.short_name(c[0].name) for c in cs], "")
    fi = F.fn(r"scanner::Scanner::find_iter$")
    ctx.analysed_fn(fi)
    ex, paths = run_fn(fi, F, Model())
    for p in ret_paths(paths):
        c = p.calls(r"FindMatches::<..>::new$")
        ok = len(c) == 1 and S.vstr(c[0][3][0]) in ("self.inner",) and c[0][3][1] == ("sym", "input") or (len(c) == 1 and S.vstr(ex.deref_val(p, c[0][3][1])) == "input" and S.vstr(c[0][3][0]) == "self.inner")
        ctx.ob("C06.e", "find_iter-clones-own-inner", bool(ok), "FindMatches::new(%s)" % (", ".join(S.vstr(a) for a in c[0][3]) if c else ""), fi.loc())
        cl = [e for e in p.events if e[0] == "call" and re.search(r"ScannerImpl as std::clone::Clone>::clone$", e[2])]
        ctx.ob("C06.e", "find_iter-passes-a-clone", len(cl) == 1, "%d clone call(s) of ScannerImpl" % len(cl), fi.loc())
        # ... and hands out the new iterator as it is: nothing is done to it afterwards (a mode, an offset or any other state of
        # the Scanner re-applied to the fresh iterator makes it depend on the scanner's history — seed C12k)
        others = [M.short_name(e[2]) for e in p.events if e[0] == "call" and (e[2].startswith(M.CRATE_ROOTS) or (e[2].startswith("<") and e[2][1:].startswith(M.CRATE_ROOTS)))
                  and not re.search(r"FindMatches::<..>::new$|FindMatches::new$|ScannerImpl as std::clone::Clone>::clone$", e[2])]
        same = len(c) == 1 and (p.end[1] == c[0][4] or S.vstr(p.end[1]) == S.vstr(c[0][4]))
        ctx.ob("C06.e", "find_iter-hands-out-the-fresh-iterator-untouched", same and not others,
               "returns %s; other calls of the crate in find_iter: %s" % (S.vstr(p.end[1])[:80], others), fi.loc())



ORDER_BREAKERS = r"Iterator>::(rev|skip|take|filter|filter_map|step_by|skip_while|take_while|chain|zip|cycle)\b|::(sort\w*|reverse|dedup\w*|retain|swap|swap_remove|rotate_\w+|insert|remove|truncate|pop)$"


def mode_order_rules(ctx):
    """C06.i: mode numbers are positions in the list the user configured: transitions, set_mode and 'mode 0' all speak
    about the i-th mode handed to the builder.  The builder appends in call order, both ScannerImpl constructors
    compile the modes in list order and store them in that order."""
    F = ctx.facts
    # builder: add_scanner_mode appends the given mode, add_scanner_modes appends the slice in order
    for pat, call_rx, arg in ((r"scanner_builder::ScannerBuilder::add_scanner_mode$", r"Vec::<.*ScannerMode>::push$", "scanner_mode"),
                              (r"scanner_builder::ScannerBuilder::add_scanner_modes$", r"Vec::<.*ScannerMode>::extend_from_slice$|Extend<.*>>::extend", "scanner_modes")):
        fn = F.fn(pat)
        ctx.analysed_fn(fn)
        bad = [M.short_name(M.call_name(t)) for bb, t in fn.calls(ORDER_BREAKERS)]
        ex, paths = run_fn(fn, F, Model(), inline=r"scanner_builder::ScannerBuilder::add_scanner_mode$")
        rp = ret_paths(paths)
        ok = bool(rp) and not bad
        det = "reordering/filtering calls: %s" % bad if bad else ""
        from .common import loop_sources
        its = [p for p in paths if any(e[0] == "iter-item" for e in p.events) or any(e[0] == "call" and re.search(r"iter::Iterator>::next$", e[2]) for e in p.events)]
        if its and arg == "scanner_modes":
            # element-wise form (a loop, fold, for_each ... over the given slice): every iteration appends its element
            srcs = sorted(set(s_ for _, s_ in loop_sources(ex, paths)))
            ok = not bad and bool(srcs) and all(re.search(r"\bscanner_modes\b", s_) and "self" not in s_ for s_ in srcs)
            det = "iterates over %s" % srcs
            n_it = 0
            for p in its:
                pu = p.calls(r"Vec::<.*ScannerMode>::push$")
                got = [e for e in p.events if e[0] == "iter-item"] or [c_ for c_, o in p.conds if "item@" in S.fstr(c_)] or [e for e in p.events if e[0] == "write" and "item@" in S.fstr(e[4])]
                if p.end[0] == "cut" or (got and p.end[0] == "return"):
                    if not got:
                        continue
                    n_it += 1
                    okp = len(pu) == 1 and "self.scanner_modes" in S.fstr(ex.deref_val(p, pu[0][3][0]) if pu[0][3][0][0] == "ref" else pu[0][3][0]) + S.fstr(pu[0][3][0]).replace("_1.", "self.") and "item@" in S.fstr(ex.deref_val(p, pu[0][3][1]) if pu[0][3][1][0] == "ref" else pu[0][3][1])
                    if not okp:
                        ok = False
                        det = "an iteration appends %s" % [[S.fstr(a)[:60] for a in x[3]] for x in pu]
            for p in rp:
                if not S.mentions(p.end[1], lambda x: x == ("sym", "self")):
                    ok = False
                    det = "returns %s" % S.fstr(p.end[1])[:80]
            ctx.ob("C06.i", "builder-appends-in-call-order:" + M.short_name(fn.name), ok and n_it >= 1, det + "; %d iteration path(s) each appending its element to self.scanner_modes" % n_it, fn.loc())
            continue
        for p in rp:
            c = p.calls(call_rx)
            if not (len(c) == 1 and "self.scanner_modes" in S.fstr(ex.deref_val(p, c[0][3][0]) if c[0][3][0][0] == "ref" else c[0][3][0]) + S.fstr(c[0][3][0]).replace("_1.", "self.") and S.mentions(ex.deref_val(p, c[0][3][1]) if c[0][3][1][0] == "ref" else c[0][3][1], lambda x: x == ("sym", arg))):
                ok = False
                det = "appends %s" % [(M.short_name(x[2]), [S.fstr(a)[:60] for a in x[3]]) for x in p.calls(r"Vec::|extend")][:3]
            r = p.end[1]
            if not S.mentions(r, lambda x: x == ("sym", "self")):
                ok = False
                det = "returns %s" % S.fstr(r)[:80]
        ctx.ob("C06.i", "builder-appends-in-call-order:" + M.short_name(fn.name), ok, det or "appends %s to self.scanner_modes and returns self" % arg, fn.loc())
    # constructors: modes compiled and stored in list order
    for pat in (r"ScannerImpl as std::convert::TryFrom<std::vec::Vec<scanner_mode::ScannerMode>>>::try_from$", r"ScannerImpl as std::convert::TryFrom<&\[scanner_mode::ScannerMode\]>>::try_from$"):
        fn = F.fn(pat)
        ctx.analysed_fn(fn)
        tag = "Vec" if "Vec" in pat else "slice"
        from .common import delegates_to
        sib = [F.fn(x) for x in (r"ScannerImpl as std::convert::TryFrom<std::vec::Vec<scanner_mode::ScannerMode>>>::try_from$", r"ScannerImpl as std::convert::TryFrom<&\[scanner_mode::ScannerMode\]>>::try_from$") if x != pat][0]
        dg = delegates_to(F, fn, sib)
        if dg is not None:
            ctx.ob("C06.i", "modes-compiled-in-list-order:%s" % tag, True, "delegates: " + dg, fn.loc())
            continue
        bad = [M.short_name(M.call_name(t)) for bb, t in fn.calls(ORDER_BREAKERS)]
        ctx.ob("C06.i", "modes-compiled-in-list-order:%s" % tag, not bad, "reordering/filtering calls: %s" % bad, fn.loc())
        ex, paths = run_fn(fn, F, Model(), max_paths=5000, desugar=r".|collect")
        n_iter = 0
        vec = None
        for p in paths:
            cm = p.calls(r"CompiledScannerMode::try_from_scanner_mode$")
            pu = p.calls(r"Vec::<.*CompiledScannerMode>::push$")
            ci = [e for e in p.events if e[0] == "collect-item"]      # map(..).collect::<Result<Vec<_>>>() analysed as the loop
            if cm and (pu or ci):
                n_iter += 1
                item = S.fstr(cm[0][3][0])
                okp = ("field", ("downcast", cm[0][4], "Ok"), "0")
                appended = [x[3][1] for x in pu] + [e[2] for e in ci]
                ok = len(cm) == 1 and len(appended) == 1 and appended[0] == okp and "item@" in item
                ctx.ob("C06.i", "each-mode-compiled-once-and-appended:%s" % tag, ok, "appends %s of try_from_scanner_mode(%s)" % ([S.fstr(a)[:60] for a in appended], item[:40]), fn.loc())
            if p.end[0] == "return" and variant_of(ex, p, p.end[1]) == "Ok":
                r = p.end[1]
                inner = r[3][0] if r[0] == "adt" and r[3] else None
                okr = inner is not None and inner[0] == "adt" and len(inner[3]) >= 2 and "with_capacity" in S.fstr(inner[3][1]) or (inner is not None and inner[0] == "adt" and (re.search(r"Vec::(new|with_capacity)", S.fstr(inner[3][1])) is not None or S.mentions(inner[3][1], lambda x: x[0] == "app" and "Iterator>::collect" in str(x[1]))))
                ctx.ob("C06.i", "compiled-modes-stored-as-built:%s" % tag, bool(okr), "ScannerImpl.scanner_modes := %s" % (S.fstr(inner[3][1])[:80] if inner is not None and inner[0] == "adt" else None), fn.loc())
        ctx.floor("C06.i", "loop iterations compiling a mode (%s)" % tag, n_iter, 1)


CONFIG_API = [
    # (function, record fields, what every return path must return: {field: value} for a record, a string for a plain value
    #  (printed terms with & * ( ) removed), writes: {field: value})
    (r"pattern::Pattern::new$", ("pattern", "token_type", "lookahead"), {"pattern": "pattern", "token_type": "token_type", "lookahead": "None"}, {}),
    (r"pattern::Pattern::with_lookahead$", ("pattern", "token_type", "lookahead"), {"pattern": "self.pattern", "token_type": "self.token_type", "lookahead": "Somelookahead"}, {}),
    (r"pattern::Pattern::set_token_type$", ("pattern", "token_type", "lookahead"), None, {"token_type": "token_type"}),
    (r"pattern::Pattern::pattern$", (), "self.pattern", {}),
    (r"pattern::Pattern::terminal_id$", (), "self.token_type", {}),
    (r"pattern::Pattern::lookahead$", (), "self.lookahead", {}),
    (r"pattern::Lookahead::new$", ("is_positive", "pattern"), {"is_positive": "is_positive", "pattern": "pattern"}, {}),
    (r"pattern::Lookahead::pattern$", (), "self.pattern", {}),
    (r"pattern::Lookahead::is_positive$", (), "self.is_positive", {}),
]


# the plain data types handed to the user: a constructor stores exactly what it is given (seed C09l: `MatchExt::new` "normalised"
# the end position on the way)
DATA_API = [
    (r"match_type::MatchExt::new$", ("token_type", "span", "start_position", "end_position"), {"token_type": "token_type", "span": "span", "start_position": "start_position", "end_position": "end_position"}, {}),
    (r"match_type::Match::new$", ("token_type", "span"), {"token_type": "token_type", "span": "span"}, {}),
    (r"span::Span::new$", ("start", "end"), {"start": "start", "end": "end"}, {}),
    (r"position::Position::new$", ("line", "column"), {"line": "line", "column": "column"}, {}),
    # ... and a getter returns its field
    (r"match_type::Match::start$", (), "self.span.start", {}),
    (r"match_type::Match::end$", (), "self.span.end", {}),
    (r"match_type::Match::span$", (), "self.span", {}),
    (r"match_type::Match::token_type$", (), "self.token_type", {}),
    (r"match_type::MatchExt::start$", (), "self.span.start", {}),
    (r"match_type::MatchExt::end$", (), "self.span.end", {}),
    (r"match_type::MatchExt::span$", (), "self.span", {}),
    (r"match_type::MatchExt::token_type$", (), "self.token_type", {}),
    (r"match_type::MatchExt::start_position$", (), "self.start_position", {}),
    (r"match_type::MatchExt::end_position$", (), "self.end_position", {}),
    (r"position::Position::line$", (), "self.line", {}),
    (r"position::Position::column$", (), "self.column", {}),
]


def _plain(t):
    s_ = re.sub(r"[&*()]", "", S.fstr(t))
    # a field taken from `..Default::default()`: the only defaulted field of the configuration records is the Option
    return "None" if re.match(r"^(\w+::)*default\.lookahead$", s_) else s_


def _record(t, names):
    """{field: printed value} of a record value, whether it was written as a struct literal, with struct-update syntax over
    `self`, or by assigning fields of a moved `self`."""
    if t[0] == "adt" and len(t[3]) == len(names):
        return {n_: _plain(v_) for n_, v_ in zip(names, t[3])}
    if t[0] == "upd" and len(t[2]) == 1:
        d_ = _record(t[1], names)
        if d_ is not None:
            d_[str(t[2][0][1])] = _plain(t[3])
        return d_
    if t == ("sym", "self") or (t[0] == "deref" and t[1] == ("sym", "self")):
        return {n_: "self." + n_ for n_ in names}
    return None


def data_api_rules(ctx, rule):
    """Match / MatchExt / Span / Position constructors are plumbing: every return path returns the record of the arguments."""
    config_api_rules(ctx, rule, table=DATA_API, tag="data-api")


def config_api_rules(ctx, rule, table=None, tag="config-api"):
    """The configuration types are plain records: a constructor stores its arguments, `with_lookahead` adds the lookahead and
    keeps the rest, `set_token_type` writes that one field, a getter returns its field.  (A setter that rebuilds the value
    with `..Default::default()` silently drops the lookahead: the scanner is then compiled from another configuration than
    the one the user wrote.)"""
    from .common import cond_variant
    F = ctx.facts
    for rx, names, want_ret, want_writes in (table or CONFIG_API):
        fn = F.fn(rx)
        ctx.analysed_fn(fn)
        ex, paths = run_fn(fn, F, Model())
        short = M.short_name(fn.name)
        rp = ret_paths(paths)
        ctx.ob(rule, "%s:%s:returns" % (tag, short), len(rp) >= 1 and len(rp) == len(paths), "%d of %d paths return" % (len(rp), len(paths)), fn.loc())
        for p in rp:
            if isinstance(want_ret, dict):
                got = _record(p.end[1], names)
                ctx.ob(rule, "%s:%s:result" % (tag, short), got == want_ret, "returns %s" % S.fstr(p.end[1])[:100], fn.loc())
            elif want_ret is not None:
                got = _plain(p.end[1])
                ok = got == want_ret
                if not ok and want_ret == "self.lookahead":
                    # as_ref() written as a match: Some(&payload) where the field is Some, None where it is None
                    est = [cond_variant(c_, o_) for c_, o_ in p.conds]
                    est = [cv_[1] for cv_ in est if cv_ is not None and _plain(cv_[0]) == "self.lookahead"]
                    ok = (got == "Someself.lookahead.Some.0" and est[-1:] == ["Some"]) or (got == "None" and est[-1:] == ["None"])
                ctx.ob(rule, "%s:%s:result" % (tag, short), ok, "returns %s" % S.fstr(p.end[1])[:100], fn.loc())
            ws = {}
            whole = []
            for e in p.events:
                if e[0] == "write" and e[2][0] != "local":
                    if e[3]:
                        ws[e[3][-1][1]] = _plain(e[4])
                    else:
                        whole.append(e[4])
            if whole:
                # the whole record is replaced: it must be the old record with exactly the wanted fields changed
                exp = {n_: want_writes.get(n_, "self." + n_) for n_ in names}
                okw = bool(names) and all(_record(w_, names) == exp for w_ in whole)
                ctx.ob(rule, "config-api:%s:writes" % short, okw, "replaces *self by %s" % [S.fstr(w_)[:100] for w_ in whole], fn.loc())
            else:
                ctx.ob(rule, "config-api:%s:writes" % short, ws == want_writes, "writes %s" % (ws or "nothing"), fn.loc())


def compiled_mode_rules(ctx, rule="C06.h"):
    """The compiled mode is the configured mode: same name, same transition table, automaton compiled from the whole,
    unmodified pattern list (also a side condition of C02: no configured pattern is lost before compilation)."""
    F = ctx.facts
    config_api_rules(ctx, rule)
    # ---- C06.h the compiled mode keeps the configured transition table and name unchanged ---------
    sm = F.fn(r"CompiledScannerMode::try_from_scanner_mode$")
    ctx.analysed_fn(sm)
    ex, paths = run_fn(sm, F, Model())
    n = 0
    for p in ret_paths(paths):
        r = p.end[1]
        if r[0] == "adt" and r[2] == "Ok" and r[3][0][0] == "adt":
            n += 1
            m = r[3][0]
            names = ["name", "dfa", "transitions"]
            tr = m[3][2] if len(m[3]) > 2 else None
            nm = m[3][0] if m[3] else None
            ctx.ob(rule, "compiled-mode-keeps-the-configured-transitions", tr == ("field", ("sym", "scanner_mode"), "transitions"),
                   "CompiledScannerMode.transitions := %s (must be the ScannerMode's transition list, unmodified)" % (S.fstr(tr)[:140] if tr else None), sm.loc())
            ctx.ob(rule, "compiled-mode-keeps-the-configured-name", nm == ("field", ("sym", "scanner_mode"), "name"), "name := %s" % (S.fstr(nm)[:80] if nm else None), sm.loc())
            c = p.calls(r"CompiledDfa::try_from_patterns$")
            ctx.ob(rule, "compiled-mode-automaton-from-own-patterns", len(c) == 1 and S.fstr(ex.deref_val(p, c[0][3][0])) == "scanner_mode.patterns", "dfa := try_from_patterns(%s)" % (S.fstr(c[0][3][0])[:60] if c else None), sm.loc())
    ctx.floor(rule, "Ok paths of try_from_scanner_mode", n, 1)
    # ScannerMode::new stores the given patterns and transitions, all of them, in the given order (ids are transparent wrappers):
    # each stored list is filled from the corresponding argument — collected or pushed in a loop — one element per given
    # element, none skipped, the transitions mapped by (t, m) -> (id(t), id(m))
    from .common import list_fill
    nw = F.fn(r"scanner_mode::ScannerMode::new$")
    ctx.analysed_fn(nw)
    ex, paths = run_fn(nw, F, Model(), desugar=r".|collect", inline=r"ids::(TerminalID|ScannerModeID)::new$")

    def strip(x):
        while x[0] in ("cast", "adt") or (x[0] == "app" and re.search(r"ids::(TerminalID|ScannerModeID)::new$|From<.*>>::from$|Into<.*>>::into$", str(x[1])) and len(x[2]) == 1):
            x = x[2] if x[0] == "cast" else (x[3][0] if x[0] == "adt" else x[2][0])
        return x

    def proj(item, i):
        if item[0] == "tuple":
            return item[1][i]
        return ("field", item, str(i))
    nret = 0
    for p in ret_paths(paths):
        r = p.end[1]
        if not (r[0] == "adt" and len(r[3]) == 3):
            ctx.ob(rule, "ScannerMode::new-keeps-the-given-transitions", False, "returns %s" % S.fstr(r)[:100], nw.loc())
            continue
        nret += 1
        # the name is stored as given (a trimmed / normalised name is another name: mode_name(), the DOT file names and the
        # equality of configurations all read it)
        nm_ = r[3][0]
        n_ = 0
        while nm_[0] == "app" and len(nm_[2]) == 1 and re.search(r"(^|::|>)(to_owned|to_string|into|from|clone)$|String as std::convert::From<&str>>::from$", str(nm_[1])) and n_ < 4:
            nm_ = nm_[2][0]        # (`name.to_owned()`, `String::from(name)`, `name.into()`: owned copies of the same text)
            n_ += 1
        ctx.ob(rule, "ScannerMode::new-stores-the-given-name", _plain(nm_) == "name", "name := %s" % S.fstr(r[3][0])[:80], nw.loc())
        for what, v, param, ty in (("patterns", r[3][1], "patterns", r"pattern::Pattern"), ("transitions", r[3][2], "mode_transitions", r"TerminalID, internal::ids::ScannerModeID")):
            lf = list_fill(ex, paths, nw, v, ty)
            if lf is None:
                ctx.ob(rule, "ScannerMode::new-keeps-the-given-" + what, False, "%s := %s: neither collected from nor pushed in a loop over the argument" % (what, S.fstr(v)[:100]), nw.loc())
                continue
            ok = lf["base"] == [param] and lf["skipped"] == 0 and not lf["other"] and len(lf["elements"]) >= 1
            ctx.ob(rule, "ScannerMode::new-keeps-the-given-" + what, ok,
                   "%s filled (%s) from %s: %d element path(s), %d iteration(s) adding nothing, other operations %s" % (what, lf["form"], lf["base"], len(lf["elements"]), lf["skipped"], lf["other"]), nw.loc())
            for item, el, q in lf["elements"]:
                el = ex.deref_val(q, el) if el[0] == "ref" else el
                if what == "patterns":
                    okel = strip(el) == item
                else:
                    okel = el[0] == "tuple" and len(el[1]) == 2 and strip(el[1][0]) == proj(item, 0) and strip(el[1][1]) == proj(item, 1)
                ctx.ob(rule, "ScannerMode::new-maps-(token type, mode)-in-that-order" if what == "transitions" else "ScannerMode::new-stores-each-pattern-unchanged", okel,
                       "element := %s for the given %s" % (S.fstr(el)[:80], S.fstr(item)[:40]), nw.loc())
    ctx.floor(rule, "return paths of ScannerMode::new", nret, 1)
    # the automaton of the mode is built from the whole pattern list, unchanged
    cp = F.fn(r"CompiledDfa::try_from_patterns$")
    ctx.analysed_fn(cp)
    ex, paths = run_fn(cp, F, Model(), max_paths=5000)
    n = 0
    for p in paths:
        for mp in p.calls(r"MultiPatternNfa::try_from_patterns$"):
            n += 1
            a0 = mp[3][0]
            v = ex.deref_val(p, a0) if a0[0] == "ref" else a0
            ctx.ob(rule, "all-configured-patterns-reach-the-nfa", S.fstr(v).lstrip("&*") == "patterns" or v == ("sym", "patterns"), "MultiPatternNfa::try_from_patterns(%s)" % S.fstr(a0)[:60], cp.loc())
    ctx.floor(rule, "MultiPatternNfa::try_from_patterns calls", n, 1)


def transition_lookup_rules(ctx):
    """C06.d: the lookup that decides whether a token type switches the mode (used by next and by peek_n)."""
    F = ctx.facts
    # ---- C06.d three-way table of the ordered search -----------------------------------------------
    # Orderings are abstracted by the set {L,E,G} of outcomes of (token_type ? entry token type) consistent with
    # the comparisons a path assumed (cmp+match, <, ==, ... are all accepted forms).
    from .kernel import OUT2SET, FLIP, binop_set
    for pat in (r"CompiledScannerMode::has_transition$",):
        ht = F.fn(pat)
        ctx.analysed_fn(ht)
        ex, paths = run_fn(ht, F, Model(), desugar=r".")
        table = {}
        for p in paths:
            got_item = any(e[0] == "call" and re.search(r"Iterator>::next$", e[2]) for e in p.events) and any("item@" in S.fstr(c) for c, o in p.conds)
            oset = {"L", "E", "G"}
            unrelated = []
            itemsym = None
            for c, o in p.conds:
                a_ = b_ = None
                cs = None
                if c[0] == "discr" and c[1][0] == "cmp":
                    a_, b_ = c[1][1], c[1][2]
                    if isinstance(o, tuple):
                        continue
                    cs = OUT2SET.get(dict((dv, n) for n, dv in c[2]).get(o))
                elif c[0] == "binop" and c[1] in ("Lt", "Le", "Gt", "Ge", "Eq", "Ne") and isinstance(o, bool):
                    a_, b_ = c[2], c[3]
                    cs = binop_set(c[1], o)
                if a_ is None or cs is None:
                    continue
                sa, sb = S.fstr(a_), S.fstr(b_)
                if re.match(r"index@bb\d+$", sa) or re.match(r"index@bb\d+$", sb):
                    continue      # the guard of a counting loop (position < length), not a comparison of the search
                ma, mb = re.match(r"(item@bb\d+)\.0$", sa), re.match(r"(item@bb\d+)\.0$", sb)
                if sa == "token_type" and mb:
                    oset &= cs
                    itemsym = mb.group(1)
                elif sb == "token_type" and ma:
                    oset &= {FLIP[x] for x in cs}
                    itemsym = ma.group(1)
                else:
                    unrelated.append("%s vs %s" % (sa, sb))
            for u in unrelated:
                ctx.ob("C06.d", "cmp-operands", False, "search compares %s (expected the token type with the entry's token type)" % u, ht.loc())
            if itemsym is None:
                if p.end[0] == "return":
                    table["exhausted"] = S.vstr(p.end[1])
                    ctx.ob("C06.d", "exhausted->None", variant_of(ex, p, p.end[1]) == "None", "list exhausted returns %s" % S.vstr(p.end[1]), ht.loc())
                continue
            for o_ in sorted(oset):
                name = {"L": "Less", "E": "Equal", "G": "Greater"}[o_]
                if p.end[0] == "return":
                    r = p.end[1]
                    rv = variant_of(ex, p, r)
                    table[name] = S.vstr(r)
                    if o_ == "L":
                        ctx.ob("C06.d", "Less->None", rv == "None", "token type below the entry returns %s (sorted list: no later entry can match)" % S.vstr(r), ht.loc())
                    elif o_ == "E":
                        ok = rv == "Some" and S.fstr(r[3][0]) == itemsym + ".1"
                        ctx.ob("C06.d", "Equal->Some(target of same entry)", bool(ok), "equal token type returns %s" % S.vstr(r), ht.loc())
                    else:
                        ctx.ob("C06.d", "Greater->continue", False, "token type above the entry returns %s instead of continuing" % S.vstr(r), ht.loc())
                elif p.end[0] == "cut":
                    table[name] = "continue"
                    ctx.ob("C06.d", name + "->continue", o_ == "G", "search continues when the token type is %s than the entry" % name, ht.loc())
                else:
                    ctx.ob("C06.d", "path-end", False, "unexpected path end %s" % (p.end,), ht.loc())
        ctx.ob("C06.d", "table-complete", set(table) >= {"exhausted", "Less", "Equal", "Greater"}, "table rows: %s" % table, ht.loc())
        ctx.sample({"rule": "C06.d", "has_transition_table": table})
    # the iterator ranges over self.transitions without adapters
    ht = F.fn(r"CompiledScannerMode::has_transition$")
    adapters = [M.call_name(t) for bb, t in ht.calls(r"iter::Iterator>::(rev|skip|take|filter|step_by|skip_while|take_while)")]
    ctx.ob("C06.d", "no-iterator-adapters", not adapters, "iterator adapters in has_transition: %s" % adapters, ht.loc())
    # ... and over the whole list: the walked collection is self.transitions itself (not a sub-slice of it)
    from .common import loop_sources
    exs, pss = run_fn(ht, F, Model(), desugar=r".")
    srcs = sorted(set(s_ for _, s_ in loop_sources(exs, pss)))
    ctx.ob("C06.d", "search-walks-the-whole-transition-list", bool(srcs) and all(re.match(r"^[&*(]*self\.transitions\)?$", s_) or re.match(r"^(Iterator>::)?(enumerate|copied|cloned)\([&*]*self\.transitions\)$", s_) for s_ in srcs), "walks %s" % srcs, ht.loc())
    # ScannerImpl::has_transition forwards to the current mode
    sh = F.fn(r"ScannerImpl::has_transition$")
    ex, paths = run_fn(sh, F, Model())
    for p in ret_paths(paths):
        c = p.calls(r"CompiledScannerMode::has_transition$")
        ok = len(c) == 1 and "scanner_modes" in S.vstr(c[0][3][0]) and "current_mode" in S.vstr(c[0][3][0]) and S.vstr(c[0][3][1]) == "token_type" and p.end[1] == c[0][4]
        ctx.ob("C06.d", "ScannerImpl::has_transition-forwards", ok, "forwards to %s" % (S.vstr(c[0][3][0]) if c else None), sh.loc())

    fresh_iterator_rules(ctx)
    mode_order_rules(ctx)



def mode_forward_rules(ctx):
    """C06.g: set_mode / current_mode / mode_name of the public wrappers hand the call to the implementation and do nothing else."""
    F = ctx.facts
    if getattr(ctx, "_mode_forward_done", False):
        return
    ctx._mode_forward_done = True
    # ---- C06.g set_mode / current_mode / mode_name forwarding chains -----------------------------
    chains = [
        (r"<find_matches::FindMatches<'_> as scanner::ScannerModeSwitcher>::set_mode$", r"FindMatchesImpl::<..>::set_mode$", "self.inner", "mode"),
        (r"FindMatchesImpl::<..>::set_mode$", r"ScannerImpl as scanner::ScannerModeSwitcher>::set_mode$", "self.scanner_impl", "mode"),
        (r"<scanner::Scanner as scanner::ScannerModeSwitcher>::set_mode$", r"ScannerImpl as scanner::ScannerModeSwitcher>::set_mode$", "self.inner", "mode"),
        (r"<find_matches::FindMatches<'_> as scanner::ScannerModeSwitcher>::current_mode$", r"FindMatchesImpl::<..>::current_mode$", "self.inner", None),
        (r"FindMatchesImpl::<..>::current_mode$", r"ScannerImpl as scanner::ScannerModeSwitcher>::current_mode$", "self.scanner_impl", None),
        (r"<scanner::Scanner as scanner::ScannerModeSwitcher>::current_mode$", r"ScannerImpl as scanner::ScannerModeSwitcher>::current_mode$", "self.inner", None),
        (r"<find_matches::FindMatches<'_> as scanner::ScannerModeSwitcher>::mode_name$", r"FindMatchesImpl::<..>::mode_name$", "self.inner", "index"),
        (r"FindMatchesImpl::<..>::mode_name$", r"ScannerImpl as scanner::ScannerModeSwitcher>::mode_name$", "self.scanner_impl", "index"),
        (r"<scanner::Scanner as scanner::ScannerModeSwitcher>::mode_name$", r"ScannerImpl as scanner::ScannerModeSwitcher>::mode_name$", "self.inner", "index"),
        # the with_positions() adaptor hands mode operations to the iterator it wraps
        (r"<with_positions::WithPositions<I> as scanner::ScannerModeSwitcher>::set_mode$", r"^<I as scanner::ScannerModeSwitcher>::set_mode$", "self.iter", "mode"),
        (r"<with_positions::WithPositions<I> as scanner::ScannerModeSwitcher>::current_mode$", r"^<I as scanner::ScannerModeSwitcher>::current_mode$", "self.iter", None),
        (r"<with_positions::WithPositions<I> as scanner::ScannerModeSwitcher>::mode_name$", r"^<I as scanner::ScannerModeSwitcher>::mode_name$", "self.iter", "index"),
    ]
    crate_names = {f_.name for f_ in F.fns.values()}
    for src, dst, recv, arg in chains:
        fn = F.fn(src)
        ctx.analysed_fn(fn)
        ex, paths = run_fn(fn, F, Model())
        rp = ret_paths(paths)
        okall = bool(rp)
        detail = ""
        for p in rp:
            c = p.calls(dst)
            ok = len(c) == 1 and S.vstr(c[0][3][0]).lstrip("&") == recv and (arg is None or (len(c[0][3]) > 1 and S.vstr(c[0][3][1]) == arg))
            if ok and arg != "mode":
                ok = p.end[1] == c[0][4]
            if ok:
                # a forwarding wrapper does nothing else: no field is written on the side and no other method of the wrapped
                # object or of the crate is called (a set_mode that also repositions the cursor, or posts the request somewhere
                # for another iterator to pick up, makes the public iterator differ from the implementation the rules analyse)
                extra_w = [field_path(w[1]) for w in heap_writes(p)]
                extra_c = [M.short_name(e_[2]) for e_ in p.events if e_[0] == "call" and e_ is not c[0]
                           and (e_[2] in crate_names or re.search(r"^<I as |LocalKey|thread::|sync::|cell::", e_[2]))]
                if extra_w or extra_c:
                    ok = False
                    okall = False
                    detail = "besides forwarding: calls %s, writes %s" % (extra_c[:4], extra_w[:3])
                    continue
            if not ok:
                okall = False
                detail = "calls %s" % [(M.short_name(x[2]), [S.vstr(a) for a in x[3]]) for x in p.calls(".")][:4]
        ctx.ob("C06.g", "forward:" + M.short_name(fn.name), okall, detail or "forwards %s to %s" % (arg or "the query", recv), fn.loc())


def mode_switch_rules(ctx):
    """C06.c (second half): next() enters the mode the shared lookup answers — the lookup peek_n consults as well."""
    F = ctx.facts
    # execute_possible_mode_switch: writes current_mode exactly when has_transition returns Some(m), := m
    es = F.fn(r"ScannerImpl::execute_possible_mode_switch$")
    ctx.analysed_fn(es)
    ex, paths = run_fn(es, F, Model(), inline=r"ScannerImpl::(has_transition|set_mode|current_mode)$|ScannerImpl as .*ScannerModeSwitcher>::(set_mode|current_mode)$")
    rp = ret_paths(paths)
    ctx.floor("C06.c", "return paths of execute_possible_mode_switch", len(rp), 2)
    for p in rp:
        ht = p.calls(r"CompiledScannerMode::has_transition$")
        if len(ht) != 1:
            ctx.ob("C06.c", "switch-one-lookup", False, "%d has_transition calls on a path" % len(ht), es.loc())
            continue
        res = ht[0][4]
        recv, tok = ht[0][3][0], ht[0][3][1]
        # receiver = scanner_modes[current_mode] of self, read before any write
        recv_s = S.vstr(recv)
        ok_recv = recv[0] == "ref" and "scanner_modes" in recv_s and "current_mode" in recv_s
        ok_tok = tok[0] == "app" and re.search(r"Match::token_type$", tok[1]) and "current_match" in S.vstr(tok)
        ctx.ob("C06.c", "lookup-in-current-mode", ok_recv, "has_transition receiver is %s" % recv_s, es.loc(ht[0][1]))
        ctx.ob("C06.c", "lookup-keyed-by-match-token-type", bool(ok_tok), "has_transition argument is %s" % S.vstr(tok), es.loc(ht[0][1]))
        ws = heap_writes(p, "current_mode")
        v = variant_of(ex, p, res)
        if v == "Some":
            payload = ("field", ("downcast", res, "Some"), "0")
            ok = len(ws) == 1 and ws[0][2] == payload
            ctx.ob("C06.c", "transition-enters-target", ok,
                   "on Some(m): writes to current_mode = %s" % [S.vstr(w[2]) for w in ws], es.loc())
            ctx.sample({"rule": "C06.c", "execute_possible_mode_switch": "Some(m) -> current_mode := %s" % (S.vstr(ws[0][2]) if ws else None)})
        elif v == "None":
            ctx.ob("C06.c", "no-transition-no-write", len(ws) == 0, "on None: %d write(s) to current_mode" % len(ws), es.loc())
        else:
            ctx.ob("C06.c", "switch-path-classified", False, "path does not branch on has_transition's result", es.loc())



def check(ctx):
    # the mode rules are stated for the implementation: the public iterator forwards next / peek_n / set_mode to it as they are
    # and keeps no state of its own (C10.a; seed C06l: a peeked-token cache in the wrapper that forgot the switch)
    from . import cursor as _cur
    _cur.analyze(ctx, {"C10.a"})
    from .common import compiled_scanner_is_frozen
    compiled_scanner_is_frozen(ctx, "C02.m")   # nothing edits a compiled scanner after the pipeline produced it (closed writer sets)
    F = ctx.facts
    ctx.trust("rustc type checker / MIR construction (nightly), the fact driver")
    ctx.trust("log macros (trace!/debug!) are effect-free")
    ctx.assume("transitions of every mode are sorted by token type (property quantifier)")

    # ---- C06.a closed writer set of ScannerImpl.current_mode --------------------------------
    allowed = {
        r"ScannerImpl::reset$": "reset to mode 0",
        r"ScannerImpl as scanner::ScannerModeSwitcher>::set_mode$": "explicit set_mode",
        r"ScannerImpl::execute_possible_mode_switch$": "switch after a consumed match",
    }
    writers = field_writers(F, "ScannerImpl", "current_mode")
    ctx.floor("C06.a", "writers of ScannerImpl.current_mode", len(writers), 1)   # a closed set: additions alarm, fewer writers do not
    for w, sites in sorted(writers.items()):
        ok = any(re.search(rx, w) for rx in allowed)
        ctx.ob("C06.a", "writer:" + M.short_name(w), ok,
               "function writes ScannerImpl.current_mode" + ("" if ok else " but is not in the closed writer set {reset, set_mode, execute_possible_mode_switch}"),
               "")
    ctx.sample({"rule": "C06.a", "writers_of_current_mode": sorted(M.short_name(w) for w in writers)})
    # constructors: aggregates of ScannerImpl set current_mode to the literal 0 (or copy it in Clone)
    aggs = aggregates_of(F, "ScannerImpl")
    ctx.floor("C06.a", "ScannerImpl constructors", len(aggs), 2)
    for fn, bb, i, s in aggs:
        rv = s["rv"]
        names = rv.get("field_names", [])
        if "current_mode" not in names:
            ctx.missing("C06.a", "field current_mode in ScannerImpl aggregate of " + fn.name)
            continue
        op = rv["fields"][names.index("current_mode")]
        if is_derived(fn) and re.search(r"clone::Clone>::clone$", fn.name):
            ctx.ob("C06.a", "ctor:" + M.short_name(fn.name), True, "derived Clone copies current_mode", fn.loc(bb, i))
            continue
        if re.search(r"ScannerImpl as std::clone::Clone>::clone$", fn.name) and op["k"] in ("copy", "move"):
            # a hand-written Clone: the mode is copied from the value that is cloned (that the clone is faithful as a whole is C12.a)
            e_ = M.Prov(fn).operand(op)
            src_ = M.expr_str(e_)
            okc = re.search(r"\bself\b.*current_mode", src_) is not None and not re.search(r"[-+]|\bcall\b", src_.replace("*", ""))
            ctx.ob("C06.a", "ctor:" + M.short_name(fn.name), okc, "hand-written Clone: current_mode = %s" % src_[:80], fn.loc(bb, i))
            continue
        ok = op["k"] == "const" and op.get("val") == 0
        if not ok and op["k"] in ("copy", "move"):
            # a local that holds the literal (`let current_mode = 0;` assembled into the struct at the end)
            e_ = M.Prov(fn).operand(op)
            ok = e_[0] == "const" and e_[2] == 0
        ctx.ob("C06.a", "ctor:" + M.short_name(fn.name), ok,
               "ScannerImpl constructed with current_mode = %s (must be the literal 0)" % M.op_str(op), fn.loc(bb, i))

    # ---- C06.b the peek path is mode-pure -------------------------------------------------------
    for pat in (r"FindMatchesImpl::<..>::peek_n$", r"ScannerImpl::peek_from$", r"ScannerImpl::has_transition$",
                r"CompiledScannerMode::has_transition$", r"FindMatchesImpl::<..>::position$"):
        fn = F.fn(pat)
        ctx.analysed_fn(fn)
        w = F.may_write(fn)
        bad = [x for x in w if x[1] == "current_mode" and x[0].endswith("ScannerImpl")]
        ctx.ob("C06.b", "mode-pure:" + M.short_name(fn.name), not bad,
               "transitive write set %s ScannerImpl.current_mode" % ("contains" if bad else "does not contain"), fn.loc())
    # the skip branch of next_match reaches no writer: everything next_match calls except
    # ScannerImpl::find_from is mode-pure
    nm = F.fn(r"FindMatchesImpl::<..>::next_match$")
    ctx.analysed_fn(nm)
    for k in sorted(F.callees(nm)):
        g = F.fns[k]
        if re.search(r"ScannerImpl::find_from$", g.name):
            continue
        w = F.may_write(g)
        bad = [x for x in w if x[1] == "current_mode" and x[0].endswith("ScannerImpl")]
        ctx.ob("C06.b", "next_match-callee-mode-pure:" + M.short_name(g.name), not bad,
               "callee of next_match other than the attempt %s current_mode" % ("writes" if bad else "does not write"), g.loc())
    # the attempt is called exactly at one site of next_match
    att = list(nm.calls(r"ScannerImpl::find_from$"))
    ctx.ob("C06.b", "next_match-single-attempt", len(att) == 1, "%d call site(s) of ScannerImpl::find_from in next_match" % len(att), nm.loc())

    # ---- C06.c switch exactly once on the consuming path, keyed by the returned match ----------
    ff = F.fn(r"ScannerImpl::find_from$")
    ctx.analysed_fn(ff)
    ex, paths = run_fn(ff, F, Model())
    rp = ret_paths(paths)
    ctx.floor("C06.c", "return paths of ScannerImpl::find_from", len(rp), 2)
    seen = set()
    for p in rp:
        peeks = p.calls(r"ScannerImpl::peek_from$")
        sw = p.calls(r"execute_possible_mode_switch$")
        ret = p.end[1]
        if len(peeks) != 1:
            ctx.ob("C06.c", "one-attempt", False, "%d calls of peek_from on a path" % len(peeks), ff.loc())
            continue
        pres = peeks[0][4]
        rv = variant_of(ex, p, ret)
        pv = variant_of(ex, p, pres)
        seen.add(pv)
        if pv == "Some":
            payload = ("field", ("downcast", pres, "Some"), "0")
            ok_sw = len(sw) == 1
            keyed = ok_sw and ex.deref_val(p, sw[0][3][1]) == payload
            ok_ret = rv == "Some" and ((ret[0] == "adt" and ret[3][0] == payload) or ret == pres)      # Some(m) rebuilt, or the attempt's result handed on as it is
            ctx.ob("C06.c", "some-path-switches-once", ok_sw, "%d mode-switch call(s) on the Some path" % len(sw), ff.loc())
            ctx.ob("C06.c", "switch-keyed-by-returned-match", keyed,
                   "the match handed to execute_possible_mode_switch %s the one returned by the attempt" % ("is" if keyed else "is NOT"), ff.loc())
            ctx.ob("C06.c", "returns-the-attempt-match", ok_ret, "returned value %s" % S.vstr(ret), ff.loc())
            ctx.sample({"rule": "C06.c", "path": "attempt=Some", "switch_arg": S.vstr(sw[0][3][1]) if sw else None, "ret": S.vstr(ret)})
        elif pv == "None":
            ctx.ob("C06.c", "none-path-no-switch", len(sw) == 0 and rv == "None",
                   "None path: %d switch call(s), returns %s" % (len(sw), S.vstr(ret)), ff.loc())
        else:
            ctx.ob("C06.c", "path-classified", False, "a path does not branch on the attempt's result", ff.loc())
    ctx.ob("C06.c", "both-outcomes-covered", seen == {"Some", "None"}, "outcomes seen: %s" % sorted(str(x) for x in seen), ff.loc())

    mode_switch_rules(ctx)
    transition_lookup_rules(ctx)

    # ---- C06.f the attempt uses the automaton of the current mode ----------------------------------
    pf = F.fn(r"ScannerImpl::peek_from$")
    ctx.analysed_fn(pf)
    ex, paths = run_fn(pf, F, Model(), max_paths=4000)
    n = 0
    for p in paths:
        for c in p.calls(r"CompiledDfa::find_from$"):
            n += 1
            r = S.vstr(c[3][0])
            ok = re.search(r"scanner_modes\.self\.current_mode\.dfa$", r) is not None or ("scanner_modes" in r and r.endswith(".dfa") and "self.current_mode" in r)
            ctx.ob("C06.f", "attempt-on-current-mode-dfa", ok, "CompiledDfa::find_from receiver: %s" % r, pf.loc(c[1]))
            ok2 = S.vstr(ex.deref_val(p, c[3][1])) == "input" and S.vstr(c[3][2]) == "char_indices"
            ctx.ob("C06.f", "attempt-gets-caller-input-and-cursor", ok2, "args: %s, %s" % (S.vstr(c[3][1]), S.vstr(c[3][2])), pf.loc(c[1]))
            if n == 1:
                ctx.sample({"rule": "C06.f", "dfa_receiver": r})
    ctx.floor("C06.f", "attempt call sites in peek_from (per path)", n, 1)
    # peek_from returns exactly what the automaton returned
    for p in ret_paths(paths):
        c = p.calls(r"CompiledDfa::find_from$")
        if len(c) != 1:
            ctx.ob("C06.f", "peek_from-one-attempt", False, "%d attempts on a path" % len(c), pf.loc())
            continue
        res = c[0][4]
        v = variant_of(ex, p, res)
        ret = p.end[1]
        if v == "Some":
            ok = (ret[0] == "adt" and ret[2] == "Some" and ret[3][0] == ("field", ("downcast", res, "Some"), "0")) or ret == res
        else:
            ok = variant_of(ex, p, ret) == "None" or ret == res
        ctx.ob("C06.f", "peek_from-returns-the-attempt", ok, "attempt %s -> returns %s" % (v, S.vstr(ret)), pf.loc())

    mode_forward_rules(ctx)
    sm = F.fn(r"ScannerImpl as scanner::ScannerModeSwitcher>::set_mode$")
    ex, paths = run_fn(sm, F, Model())
    for p in ret_paths(paths):
        ws = heap_writes(p, "current_mode")
        ctx.ob("C06.g", "set_mode-writes-argument", len(ws) == 1 and ws[0][2] == ("sym", "mode"), "writes current_mode = %s" % [S.vstr(w[2]) for w in ws], sm.loc())
    cm = F.fn(r"ScannerImpl as scanner::ScannerModeSwitcher>::current_mode$")
    ex, paths = run_fn(cm, F, Model())
    for p in ret_paths(paths):
        ctx.ob("C06.g", "current_mode-reads-field", S.vstr(p.end[1]) == "self.current_mode", "returns %s" % S.vstr(p.end[1]), cm.loc())
    mn = F.fn(r"ScannerImpl as scanner::ScannerModeSwitcher>::mode_name$")
    ex, paths = run_fn(mn, F, Model())
    for p in ret_paths(paths):
        g = [c for c in p.calls(r"::get(::<.*>)?$") if len(c[3]) == 2]
        s = S.fstr(p.end[1])
        rv = p.end[1]
        ok = len(g) == 1 and g[0][3][1] == ("sym", "index") and "scanner_modes" in S.fstr(ex.deref_val(p, g[0][3][0]) if g[0][3][0][0] == "ref" else g[0][3][0])
        # the name of the mode found, or None when the index names no mode (Option::map written out or not)
        if ok and rv[0] == "adt" and rv[2] == "None":
            ok = variant_of(ex, p, g[0][4]) == "None"
        elif ok:
            # exactly Some(name of the entry found): nothing computed from it, no other entry
            strip_ = lambda t_: re.sub(r"[&*()]", "", S.fstr(t_))
            want_ = "Some" + strip_(("field", ("field", ("downcast", g[0][4], "Some"), "0"), "name"))
            got_ = re.sub(r"(String::as_str|as_str|Deref>::deref|deref|AsRef<str>>::as_ref|as_ref)", "", strip_(rv))
            ok = got_ == want_
        elif not g:
            # bounds test + indexing instead of get(): Some(name of scanner_modes[index]) exactly when index < len
            from .common import ordering_of
            oset = ordering_of(p.conds, lambda x: x == ("sym", "index"), lambda x: x[0] == "app" and re.search(r"(^|::)len$", str(x[1])) is not None and "self.scanner_modes" in S.fstr(x))
            if rv[0] == "adt" and rv[2] == "None":
                ok = oset <= {"E", "G"}
            else:
                ok = oset == {"L"} and rv[0] == "adt" and rv[2] == "Some" and re.search(r"self\.scanner_modes(\.|\[)index\]?\.name", s) is not None
        ctx.ob("C06.g", "mode_name-looks-up-index", ok, "returns %s" % s, mn.loc())
    # Scanner::set_mode only touches its own inner (C06.e: iterators own a clone)
    ss = F.fn(r"<scanner::Scanner as scanner::ScannerModeSwitcher>::set_mode$")
    w = F.may_write(ss)
    other = sorted(x for x in w if not (x[0].endswith("scanner::Scanner") or x[0].endswith("ScannerImpl")) and not x[0].startswith("log") and not x[0].startswith("core::fmt") and not x[0].startswith("std::fmt"))
    ctx.ob("C06.g", "Scanner::set_mode-writes-own-inner-only", not [x for x in other if x[0].startswith("internal") or x[0].startswith("find_matches")],
           "other local fields written: %s" % other, ss.loc())

    compiled_mode_rules(ctx, "C06.h")
    from . import adaptors
    adaptors.analyze(ctx, ("C02.j",))        # builders, constructors, mode tables: every configured mode / transition is kept
    from .common import cache_foundation
    cache_foundation(ctx)
