//! scnr-facts: a rustc_private driver that dumps type-checked facts (MIR, types, impls,
//! closures, statics, unsafe blocks) of the crate `scnr` as one JSON file.
//!
//! Used as RUSTC_WORKSPACE_WRAPPER under `cargo +nightly check`; the output path is taken
//! from the environment variable SCNR_FACTS_OUT. Only the lib crate named `scnr` is dumped
//! (build scripts and other targets are compiled normally).
#![feature(rustc_private)]
#![allow(clippy::all)]

extern crate rustc_abi;
extern crate rustc_driver;
extern crate rustc_hir;
extern crate rustc_infer;
extern crate rustc_interface;
extern crate rustc_middle;
extern crate rustc_session;
extern crate rustc_span;
extern crate rustc_trait_selection;

mod json;
use json::J;

use rustc_hir::def::DefKind;
use rustc_hir::def_id::{DefId, LocalDefId, LOCAL_CRATE};
use rustc_middle::mir::{
    self, AggregateKind, BasicBlockData, Body, Operand, Place, ProjectionElem, Rvalue,
    StatementKind, TerminatorKind,
};
use rustc_middle::ty::{self, Ty, TyCtxt, TypingEnv};
use rustc_span::Span;

struct Cb;

impl rustc_driver::Callbacks for Cb {
    fn after_analysis<'tcx>(
        &mut self,
        _compiler: &rustc_interface::interface::Compiler,
        tcx: TyCtxt<'tcx>,
    ) -> rustc_driver::Compilation {
        let name = tcx.crate_name(LOCAL_CRATE).to_string();
        let want = std::env::var("SCNR_FACTS_CRATE").unwrap_or_else(|_| "scnr".to_string());
        if name == want {
            if let Ok(out) = std::env::var("SCNR_FACTS_OUT") {
                let j = dump(tcx);
                let mut s = String::with_capacity(1 << 24);
                j.write(&mut s);
                std::fs::write(&out, s).expect("write facts");
            }
        }
        rustc_driver::Compilation::Continue
    }
}

fn main() {
    let mut args: Vec<String> = std::env::args().collect();
    // RUSTC_WORKSPACE_WRAPPER: argv[1] is the path of the real rustc.
    if args.len() > 1 && (args[1].ends_with("rustc") || args[1].contains("/rustc")) {
        args.remove(1);
    }
    rustc_driver::run_compiler(&args, &mut Cb);
}

// ------------------------------------------------------------------------------------------

fn key(tcx: TyCtxt<'_>, did: DefId) -> String {
    format!(
        "{}{}",
        tcx.crate_name(did.krate),
        tcx.def_path(did).to_string_no_crate_verbose()
    )
}

fn span_json(tcx: TyCtxt<'_>, sp: Span, o: &mut J) {
    let sm = tcx.sess.source_map();
    // The span of the statement as written (call site of the outermost macro if expanded).
    let root = sp.source_callsite();
    let lo = sm.lookup_char_pos(root.lo());
    let hi = sm.lookup_char_pos(root.hi());
    o.put("ln", J::Int(lo.line as i128));
    o.put("col", J::Int(lo.col.0 as i128));
    o.put("eln", J::Int(hi.line as i128));
    o.put("ecol", J::Int(hi.col.0 as i128));
    if sp.from_expansion() {
        let ed = sp.ctxt().outer_expn_data();
        o.put("exp", J::s(ed.kind.descr()));
        // The outermost macro in the chain (e.g. debug_assert -> assert).
        let mut cur = sp;
        let mut outer = ed.kind.descr();
        let mut guard = 0;
        while cur.from_expansion() && guard < 32 {
            let d = cur.ctxt().outer_expn_data();
            outer = d.kind.descr();
            cur = d.call_site;
            guard += 1;
        }
        o.put("exp_outer", J::s(outer));
    }
}

fn file_of(tcx: TyCtxt<'_>, sp: Span) -> String {
    let sm = tcx.sess.source_map();
    let root = sp.source_callsite();
    let lo = sm.lookup_char_pos(root.lo());
    format!("{}", lo.file.name.prefer_local_unconditionally())
}

fn ty_json<'tcx>(tcx: TyCtxt<'tcx>, t: Ty<'tcx>, depth: usize) -> J {
    let mut o = J::obj();
    o.put("s", J::s(t.to_string()));
    if depth > 12 {
        o.put("k", J::s("deep"));
        return o;
    }
    match t.kind() {
        ty::Bool | ty::Char | ty::Int(_) | ty::Uint(_) | ty::Float(_) | ty::Str | ty::Never => {
            o.put("k", J::s("prim"));
        }
        ty::Adt(def, args) => {
            o.put("k", J::s("adt"));
            o.put("path", J::s(tcx.def_path_str(def.did())));
            o.put("key", J::s(key(tcx, def.did())));
            o.put("local", J::Bool(def.did().is_local()));
            let a: Vec<J> = args.types().map(|x| ty_json(tcx, x, depth + 1)).collect();
            o.put("args", J::Arr(a));
        }
        ty::Ref(_, inner, m) => {
            o.put("k", J::s("ref"));
            o.put("mut", J::Bool(m.is_mut()));
            o.put("ty", ty_json(tcx, *inner, depth + 1));
        }
        ty::RawPtr(inner, m) => {
            o.put("k", J::s("ptr"));
            o.put("mut", J::Bool(m.is_mut()));
            o.put("ty", ty_json(tcx, *inner, depth + 1));
        }
        ty::Slice(inner) => {
            o.put("k", J::s("slice"));
            o.put("ty", ty_json(tcx, *inner, depth + 1));
        }
        ty::Array(inner, _) => {
            o.put("k", J::s("array"));
            o.put("ty", ty_json(tcx, *inner, depth + 1));
        }
        ty::Tuple(tys) => {
            o.put("k", J::s("tuple"));
            let a: Vec<J> = tys.iter().map(|x| ty_json(tcx, x, depth + 1)).collect();
            o.put("tys", J::Arr(a));
        }
        ty::Dynamic(preds, ..) => {
            o.put("k", J::s("dyn"));
            let mut tr = Vec::new();
            if let Some(p) = preds.principal_def_id() {
                tr.push(J::s(tcx.def_path_str(p)));
            }
            for a in preds.auto_traits() {
                tr.push(J::s(tcx.def_path_str(a)));
            }
            o.put("traits", J::Arr(tr));
        }
        ty::Closure(did, args) => {
            o.put("k", J::s("closure"));
            o.put("key", J::s(key(tcx, *did)));
            let up: Vec<J> = args
                .as_closure()
                .upvar_tys()
                .iter()
                .map(|x| ty_json(tcx, x, depth + 1))
                .collect();
            o.put("upvars", J::Arr(up));
        }
        ty::FnDef(did, _) => {
            o.put("k", J::s("fndef"));
            o.put("key", J::s(key(tcx, *did)));
            o.put("path", J::s(tcx.def_path_str(*did)));
        }
        ty::FnPtr(..) => {
            o.put("k", J::s("fnptr"));
        }
        ty::Param(p) => {
            o.put("k", J::s("param"));
            o.put("n", J::s(p.name.to_string()));
        }
        ty::Alias(..) => {
            o.put("k", J::s("alias"));
        }
        _ => {
            o.put("k", J::s("other"));
        }
    }
    o
}

fn place_json<'tcx>(tcx: TyCtxt<'tcx>, body: &Body<'tcx>, p: &Place<'tcx>) -> J {
    let mut o = J::obj();
    o.put("l", J::Int(p.local.as_usize() as i128));
    let mut pj = Vec::new();
    for (base, elem) in p.iter_projections() {
        let bty = base.ty(&body.local_decls, tcx);
        let mut e = J::obj();
        match elem {
            ProjectionElem::Deref => {
                e.put("k", J::s("deref"));
            }
            ProjectionElem::Field(f, fty) => {
                e.put("k", J::s("field"));
                e.put("i", J::Int(f.as_usize() as i128));
                e.put("fty", J::s(fty.to_string()));
                match bty.ty.kind() {
                    ty::Adt(def, _) => {
                        let vi = bty.variant_index.unwrap_or(rustc_abi::FIRST_VARIANT);
                        if def.is_enum() || def.is_struct() || def.is_union() {
                            let v = def.variant(vi);
                            if let Some(fd) = v.fields.get(f) {
                                e.put("n", J::s(fd.name.to_string()));
                            }
                            e.put("adt", J::s(tcx.def_path_str(def.did())));
                            if def.is_enum() {
                                e.put("variant", J::s(v.name.to_string()));
                            }
                        }
                    }
                    ty::Closure(did, _) => {
                        e.put("closure", J::s(key(tcx, *did)));
                    }
                    _ => {}
                }
            }
            ProjectionElem::Index(l) => {
                e.put("k", J::s("index"));
                e.put("l", J::Int(l.as_usize() as i128));
            }
            ProjectionElem::ConstantIndex { offset, from_end, .. } => {
                e.put("k", J::s("cidx"));
                e.put("off", J::Int(offset as i128));
                e.put("from_end", J::Bool(from_end));
            }
            ProjectionElem::Subslice { .. } => {
                e.put("k", J::s("subslice"));
            }
            ProjectionElem::Downcast(name, vi) => {
                e.put("k", J::s("downcast"));
                e.put("i", J::Int(vi.as_usize() as i128));
                if let Some(n) = name {
                    e.put("n", J::s(n.to_string()));
                } else if let ty::Adt(def, _) = bty.ty.kind() {
                    e.put("n", J::s(def.variant(vi).name.to_string()));
                }
            }
            _ => {
                e.put("k", J::s("otherproj"));
            }
        }
        pj.push(e);
    }
    o.put("pj", J::Arr(pj));
    o.put("ty", J::s(p.ty(&body.local_decls, tcx).ty.to_string()));
    o
}

fn operand_json<'tcx>(
    tcx: TyCtxt<'tcx>,
    body: &Body<'tcx>,
    env: TypingEnv<'tcx>,
    op: &Operand<'tcx>,
) -> J {
    let mut o = J::obj();
    match op {
        Operand::Copy(p) => {
            o.put("k", J::s("copy"));
            o.put("p", place_json(tcx, body, p));
        }
        Operand::Move(p) => {
            o.put("k", J::s("move"));
            o.put("p", place_json(tcx, body, p));
        }
        Operand::Constant(c) => {
            o.put("k", J::s("const"));
            let cty = c.const_.ty();
            o.put("ty", J::s(cty.to_string()));
            o.put("s", J::s(format!("{}", c.const_)));
            if let mir::Const::Unevaluated(uv, _) = c.const_ {
                if let Some(pi) = uv.promoted {
                    o.put("promoted", J::Int(pi.as_usize() as i128));
                    o.put("promoted_of", J::s(key(tcx, uv.def)));
                } else if uv.def.is_local() && matches!(tcx.def_kind(uv.def), DefKind::Const { .. } | DefKind::AssocConst { .. }) {
                    o.put("const_def", J::s(key(tcx, uv.def)));
                }
            }
            match cty.kind() {
                ty::FnDef(did, args) => {
                    o.put("fn", J::s(key(tcx, *did)));
                    o.put("fn_path", J::s(tcx.def_path_str_with_args(*did, args)));
                    // a trait method used as a function value (`map_err(ScnrError::from)`): the impl it resolves to
                    if let Ok(Some(inst)) = ty::Instance::try_resolve(tcx, env, *did, args) {
                        let rd = inst.def_id();
                        if rd != *did {
                            o.put("fn_resolved", J::s(key(tcx, rd)));
                        }
                    }
                }
                ty::Ref(..) | ty::RawPtr(..) => {
                    if let mir::Const::Val(mir::ConstValue::Scalar(rustc_middle::mir::interpret::Scalar::Ptr(p, _)), _) = c.const_ {
                        let aid = p.provenance.alloc_id();
                        if let Some(rustc_middle::mir::interpret::GlobalAlloc::Static(sd)) = tcx.try_get_global_alloc(aid) {
                            o.put("static", J::s(key(tcx, sd)));
                            o.put("static_path", J::s(tcx.def_path_str(sd)));
                        }
                    }
                }
                ty::Bool | ty::Char | ty::Int(_) | ty::Uint(_) => {
                    if let Some(si) = c.const_.try_eval_scalar_int(tcx, env) {
                        let bits = si.to_bits(si.size());
                        o.put("val", J::Int(bits as i128));
                    }
                }
                _ => {}
            }
        }
        #[allow(unreachable_patterns)]
        _ => {
            o.put("k", J::s("otherop"));
            o.put("s", J::s(format!("{:?}", op)));
        }
    }
    o
}

fn rvalue_json<'tcx>(
    tcx: TyCtxt<'tcx>,
    body: &Body<'tcx>,
    env: TypingEnv<'tcx>,
    rv: &Rvalue<'tcx>,
) -> J {
    let mut o = J::obj();
    match rv {
        Rvalue::Use(op, ..) => {
            o.put("k", J::s("use"));
            o.put("op", operand_json(tcx, body, env, op));
        }
        Rvalue::Repeat(op, _) => {
            o.put("k", J::s("repeat"));
            o.put("op", operand_json(tcx, body, env, op));
        }
        Rvalue::Ref(_, bk, p) => {
            o.put("k", J::s("ref"));
            o.put("mut", J::Bool(matches!(bk, mir::BorrowKind::Mut { .. })));
            o.put("p", place_json(tcx, body, p));
        }
        Rvalue::RawPtr(kind, p) => {
            o.put("k", J::s("rawptr"));
            o.put("mut", J::Bool(format!("{:?}", kind).contains("Mut")));
            o.put("p", place_json(tcx, body, p));
        }
        Rvalue::Cast(kind, op, t) => {
            o.put("k", J::s("cast"));
            o.put("ck", J::s(format!("{:?}", kind)));
            o.put("op", operand_json(tcx, body, env, op));
            o.put("to", J::s(t.to_string()));
            o.put("from", J::s(op.ty(&body.local_decls, tcx).to_string()));
        }
        Rvalue::BinaryOp(bop, ab) => {
            o.put("k", J::s("binop"));
            o.put("op", J::s(format!("{:?}", bop)));
            o.put("a", operand_json(tcx, body, env, &ab.0));
            o.put("b", operand_json(tcx, body, env, &ab.1));
        }
        Rvalue::UnaryOp(uop, a) => {
            o.put("k", J::s("unop"));
            o.put("op", J::s(format!("{:?}", uop)));
            o.put("a", operand_json(tcx, body, env, a));
        }
        Rvalue::Discriminant(p) => {
            o.put("k", J::s("discr"));
            o.put("p", place_json(tcx, body, p));
            let pt = p.ty(&body.local_decls, tcx).ty;
            if let ty::Adt(def, _) = pt.kind() {
                if def.is_enum() {
                    o.put("enum", J::s(tcx.def_path_str(def.did())));
                    let mut vs = Vec::new();
                    for (vi, dv) in def.discriminants(tcx) {
                        vs.push(J::Arr(vec![
                            J::s(def.variant(vi).name.to_string()),
                            J::Int(dv.val as i128),
                        ]));
                    }
                    o.put("variants", J::Arr(vs));
                }
            }
        }
        Rvalue::Aggregate(kind, fields) => {
            o.put("k", J::s("aggregate"));
            match &**kind {
                AggregateKind::Adt(did, vi, _, _, _) => {
                    o.put("ak", J::s("adt"));
                    o.put("path", J::s(tcx.def_path_str(*did)));
                    let def = tcx.adt_def(*did);
                    let v = def.variant(*vi);
                    o.put("variant", J::s(v.name.to_string()));
                    o.put("vi", J::Int(vi.as_usize() as i128));
                    if def.is_enum() {
                        let dv = def.discriminant_for_variant(tcx, *vi);
                        o.put("discr", J::Int(dv.val as i128));
                    }
                    let names: Vec<J> =
                        v.fields.iter().map(|f| J::s(f.name.to_string())).collect();
                    o.put("field_names", J::Arr(names));
                }
                AggregateKind::Tuple => {
                    o.put("ak", J::s("tuple"));
                }
                AggregateKind::Array(_) => {
                    o.put("ak", J::s("array"));
                }
                AggregateKind::Closure(did, _) => {
                    o.put("ak", J::s("closure"));
                    o.put("closure", J::s(key(tcx, *did)));
                }
                other => {
                    o.put("ak", J::s(format!("{:?}", other)));
                }
            }
            let fs: Vec<J> = fields.iter().map(|f| operand_json(tcx, body, env, f)).collect();
            o.put("fields", J::Arr(fs));
        }
        Rvalue::CopyForDeref(p) => {
            o.put("k", J::s("use"));
            let mut op = J::obj();
            op.put("k", J::s("copy"));
            op.put("p", place_json(tcx, body, p));
            o.put("op", op);
        }
        other => {
            o.put("k", J::s("other"));
            o.put("s", J::s(format!("{:?}", other)));
        }
    }
    o
}

fn block_json<'tcx>(
    tcx: TyCtxt<'tcx>,
    body: &Body<'tcx>,
    env: TypingEnv<'tcx>,
    owner: DefId,
    bb: &BasicBlockData<'tcx>,
) -> J {
    let mut stmts = Vec::new();
    for st in &bb.statements {
        match &st.kind {
            StatementKind::Assign(b) => {
                let (p, rv) = &**b;
                let mut o = J::obj();
                o.put("k", J::s("assign"));
                o.put("p", place_json(tcx, body, p));
                o.put("rv", rvalue_json(tcx, body, env, rv));
                span_json(tcx, st.source_info.span, &mut o);
                stmts.push(o);
            }
            StatementKind::SetDiscriminant { place, variant_index } => {
                let mut o = J::obj();
                o.put("k", J::s("setdiscr"));
                o.put("p", place_json(tcx, body, place));
                o.put("i", J::Int(variant_index.as_usize() as i128));
                span_json(tcx, st.source_info.span, &mut o);
                stmts.push(o);
            }
            StatementKind::Intrinsic(i) => {
                let mut o = J::obj();
                o.put("k", J::s("intrinsic"));
                o.put("s", J::s(format!("{:?}", i)));
                span_json(tcx, st.source_info.span, &mut o);
                stmts.push(o);
            }
            _ => {}
        }
    }
    let mut t = J::obj();
    let term = bb.terminator();
    span_json(tcx, term.source_info.span, &mut t);
    match &term.kind {
        TerminatorKind::Goto { target } => {
            t.put("k", J::s("goto"));
            t.put("target", J::Int(target.as_usize() as i128));
        }
        TerminatorKind::SwitchInt { discr, targets } => {
            t.put("k", J::s("switch"));
            t.put("discr", operand_json(tcx, body, env, discr));
            t.put("discr_ty", J::s(discr.ty(&body.local_decls, tcx).to_string()));
            let mut arr = Vec::new();
            for (v, bbt) in targets.iter() {
                arr.push(J::Arr(vec![J::Int(v as i128), J::Int(bbt.as_usize() as i128)]));
            }
            t.put("targets", J::Arr(arr));
            t.put("otherwise", J::Int(targets.otherwise().as_usize() as i128));
        }
        TerminatorKind::Return => {
            t.put("k", J::s("return"));
        }
        TerminatorKind::Unreachable => {
            t.put("k", J::s("unreachable"));
        }
        TerminatorKind::UnwindResume => {
            t.put("k", J::s("resume"));
        }
        TerminatorKind::UnwindTerminate(_) => {
            t.put("k", J::s("terminate"));
        }
        TerminatorKind::Drop { place, target, unwind, .. } => {
            t.put("k", J::s("drop"));
            t.put("p", place_json(tcx, body, place));
            t.put("target", J::Int(target.as_usize() as i128));
            if let mir::UnwindAction::Cleanup(c) = unwind {
                t.put("cleanup", J::Int(c.as_usize() as i128));
            }
        }
        TerminatorKind::Call { func, args, destination, target, unwind, fn_span, .. } => {
            t.put("k", J::s("call"));
            t.put("func", operand_json(tcx, body, env, func));
            let a: Vec<J> = args.iter().map(|x| operand_json(tcx, body, env, &x.node)).collect();
            t.put("args", J::Arr(a));
            t.put("dest", place_json(tcx, body, destination));
            match target {
                Some(bbt) => t.put("target", J::Int(bbt.as_usize() as i128)),
                None => t.put("target", J::Null),
            }
            if let mir::UnwindAction::Cleanup(c) = unwind {
                t.put("cleanup", J::Int(c.as_usize() as i128));
            }
            let mut fs = J::obj();
            span_json(tcx, *fn_span, &mut fs);
            t.put("fn_span", fs);
            let fty = func.ty(&body.local_decls, tcx);
            if let ty::FnDef(did, gargs) = fty.kind() {
                t.put("callee", J::s(key(tcx, *did)));
                t.put("callee_path", J::s(tcx.def_path_str(*did)));
                t.put("callee_full", J::s(tcx.def_path_str_with_args(*did, gargs)));
                t.put("callee_local", J::Bool(did.is_local()));
                if let Some(tr) = tcx.trait_of_assoc(*did) {
                    t.put("callee_trait", J::s(tcx.def_path_str(tr)));
                    if let Some(st) = gargs.types().next() {
                        t.put("callee_self", J::s(st.to_string()));
                    }
                }
                let targs: Vec<J> = gargs.types().map(|x| J::s(x.to_string())).collect();
                t.put("callee_targs", J::Arr(targs));
                let env2 = TypingEnv::post_analysis(tcx, owner);
                match ty::Instance::try_resolve(tcx, env2, *did, gargs) {
                    Ok(Some(inst)) => {
                        let rd = inst.def_id();
                        t.put("resolved", J::s(key(tcx, rd)));
                        t.put("resolved_path", J::s(tcx.def_path_str(rd)));
                        t.put("resolved_local", J::Bool(rd.is_local()));
                        let kind = format!("{:?}", inst.def);
                        let kind = kind.split('(').next().unwrap_or("").to_string();
                        t.put("resolved_kind", J::s(kind));
                    }
                    _ => {
                        t.put("resolved", J::Null);
                    }
                }
            } else {
                t.put("callee", J::Null);
                t.put("callee_ty", J::s(fty.to_string()));
            }
        }
        TerminatorKind::Assert { cond, expected, msg, target, unwind } => {
            t.put("k", J::s("assert"));
            t.put("cond", operand_json(tcx, body, env, cond));
            t.put("expected", J::Bool(*expected));
            let m = format!("{:?}", msg);
            let m = m.split('(').next().unwrap_or("").to_string();
            t.put("msg", J::s(m));
            t.put("target", J::Int(target.as_usize() as i128));
            if let mir::UnwindAction::Cleanup(c) = unwind {
                t.put("cleanup", J::Int(c.as_usize() as i128));
            }
        }
        other => {
            t.put("k", J::s("otherterm"));
            t.put("s", J::s(format!("{:?}", other)));
        }
    }
    let mut o = J::obj();
    o.put("stmts", J::Arr(stmts));
    o.put("term", t);
    o.put("cleanup", J::Bool(bb.is_cleanup));
    o
}

fn body_json<'tcx>(tcx: TyCtxt<'tcx>, ldid: LocalDefId) -> Option<J> {
    let did = ldid.to_def_id();
    let dk = tcx.def_kind(did);
    let body: &Body<'tcx> = match dk {
        DefKind::Fn | DefKind::AssocFn | DefKind::Closure => tcx.optimized_mir(did),
        // named constants: their (compile-time) body gives the value a `CONST` operand stands for
        DefKind::Const { .. } | DefKind::AssocConst { .. } => tcx.mir_for_ctfe(did),
        _ => return None,
    };
    let env = TypingEnv::post_analysis(tcx, did);
    let mut o = J::obj();
    o.put("key", J::s(key(tcx, did)));
    o.put("name", J::s(tcx.def_path_str(did)));
    o.put("kind", J::s(format!("{:?}", dk)));
    let sp = tcx.def_span(did);
    o.put("file", J::s(file_of(tcx, body.span)));
    span_json(tcx, body.span, &mut o);
    let _ = sp;
    if matches!(dk, DefKind::Fn | DefKind::AssocFn) {
        o.put("vis", J::s(format!("{:?}", tcx.visibility(did))));
        o.put("is_pub", J::Bool(tcx.visibility(did).is_public()));
        let sig = tcx.fn_sig(did).instantiate_identity().skip_norm_wip();
        o.put("sig", J::s(format!("{:?}", sig)));
        o.put("unsafe", J::Bool(!sig.safety().is_safe()));
    }
    // Parent (for closures: the enclosing body owner; for assoc fns: the impl).
    let parent = tcx.parent(did);
    o.put("parent", J::s(key(tcx, parent)));
    if dk == DefKind::Closure {
        let root = tcx.typeck_root_def_id(did);
        o.put("root", J::s(key(tcx, root)));
    }
    if dk == DefKind::AssocFn {
        if let DefKind::Impl { of_trait } = tcx.def_kind(parent) {
            let mut im = J::obj();
            im.put("key", J::s(key(tcx, parent)));
            let st = tcx.type_of(parent).instantiate_identity().skip_norm_wip();
            im.put("self", J::s(st.to_string()));
            if of_trait {
                let tr = tcx.impl_trait_ref(parent).instantiate_identity().skip_norm_wip();
                im.put("trait", J::s(tcx.def_path_str(tr.def_id)));
                im.put("trait_full", J::s(format!("{:?}", tr)));
            }
            o.put("impl", im);
        }
    }
    o.put("argc", J::Int(body.arg_count as i128));
    let mut locals = Vec::new();
    for (_l, d) in body.local_decls.iter_enumerated() {
        let mut lo = J::obj();
        lo.put("ty", J::s(d.ty.to_string()));
        if let ty::Adt(def, _) = d.ty.kind() {
            lo.put("adt", J::s(tcx.def_path_str(def.did())));
        }
        if let ty::Closure(cd, _) = d.ty.kind() {
            lo.put("closure", J::s(key(tcx, *cd)));
        }
        locals.push(lo);
    }
    o.put("locals", J::Arr(locals));
    let mut dbg = Vec::new();
    for v in &body.var_debug_info {
        let mut d = J::obj();
        d.put("name", J::s(v.name.to_string()));
        match &v.value {
            mir::VarDebugInfoContents::Place(p) => d.put("p", place_json(tcx, body, p)),
            mir::VarDebugInfoContents::Const(c) => d.put("const", J::s(format!("{}", c.const_))),
        }
        if let Some(a) = v.argument_index {
            d.put("arg", J::Int(a as i128));
        }
        span_json(tcx, v.source_info.span, &mut d);
        dbg.push(d);
    }
    o.put("debug", J::Arr(dbg));
    let mut blocks = Vec::new();
    for (_bb, data) in body.basic_blocks.iter_enumerated() {
        blocks.push(block_json(tcx, body, env, did, data));
    }
    o.put("blocks", J::Arr(blocks));
    // promoted constants of this body (small bodies computing `&CONST`)
    let mut proms = Vec::new();
    for (_pi, pbody) in tcx.promoted_mir(did).iter_enumerated() {
        let mut po = J::obj();
        let mut pl = Vec::new();
        for (_l, d) in pbody.local_decls.iter_enumerated() {
            let mut lo = J::obj();
            lo.put("ty", J::s(d.ty.to_string()));
            pl.push(lo);
        }
        po.put("locals", J::Arr(pl));
        let mut pb = Vec::new();
        for (_bb, data) in pbody.basic_blocks.iter_enumerated() {
            pb.push(block_json(tcx, pbody, env, did, data));
        }
        po.put("blocks", J::Arr(pb));
        proms.push(po);
    }
    o.put("promoted", J::Arr(proms));
    Some(o)
}

// ------------------------------------------------------------------------------------------
// Unsafe blocks (HIR).

struct UnsafeFinder<'tcx> {
    tcx: TyCtxt<'tcx>,
    owner: DefId,
    out: Vec<J>,
}

impl<'tcx> rustc_hir::intravisit::Visitor<'tcx> for UnsafeFinder<'tcx> {
    fn visit_block(&mut self, b: &'tcx rustc_hir::Block<'tcx>) {
        if let rustc_hir::BlockCheckMode::UnsafeBlock(src) = b.rules {
            let mut o = J::obj();
            o.put("fn", J::s(key(self.tcx, self.owner)));
            o.put("file", J::s(file_of(self.tcx, b.span)));
            o.put("user", J::Bool(matches!(src, rustc_hir::UnsafeSource::UserProvided)));
            o.put("from_expansion", J::Bool(b.span.from_expansion()));
            span_json(self.tcx, b.span, &mut o);
            self.out.push(o);
        }
        rustc_hir::intravisit::walk_block(self, b);
    }
}

// ------------------------------------------------------------------------------------------

fn trait_answer<'tcx>(tcx: TyCtxt<'tcx>, owner: DefId, t: Ty<'tcx>, tr: DefId) -> bool {
    use rustc_infer::infer::TyCtxtInferExt;
    use rustc_trait_selection::infer::InferCtxtExt;
    let env = TypingEnv::post_analysis(tcx, owner);
    let (infcx, param_env) = tcx.infer_ctxt().build_with_typing_env(env);
    infcx.type_implements_trait(tr, [t], param_env).must_apply_modulo_regions()
}

fn dump<'tcx>(tcx: TyCtxt<'tcx>) -> J {
    let mut root = J::obj();
    root.put("crate", J::s(tcx.crate_name(LOCAL_CRATE).to_string()));
    root.put("nonce", J::s(std::env::var("SCNR_FACTS_NONCE").unwrap_or_default()));
    root.put(
        "rustc",
        J::s(option_env!("CFG_VERSION").unwrap_or("nightly").to_string()),
    );
    let mut feats = Vec::new();
    for (name, val) in tcx.sess.config.iter() {
        if name.as_str() == "feature" {
            if let Some(v) = val {
                feats.push(J::s(v.to_string()));
            }
        }
    }
    root.put("features", J::Arr(feats));
    root.put(
        "debug_assertions",
        J::Bool(tcx.sess.opts.debug_assertions),
    );

    // Functions and closures.
    let mut funs = Vec::new();
    for ldid in tcx.mir_keys(()).iter() {
        if let Some(j) = body_json(tcx, *ldid) {
            funs.push(j);
        }
    }
    root.put("functions", J::Arr(funs));

    // ADTs, impls, statics.
    let send = tcx.get_diagnostic_item(rustc_span::sym::Send);
    let sync = tcx.get_diagnostic_item(rustc_span::sym::Sync);
    let lang = tcx.lang_items();
    let clone_tr = lang.clone_trait();
    let copy_tr = lang.copy_trait();
    let mut adts = Vec::new();
    let mut impls = Vec::new();
    let mut statics = Vec::new();
    let mut aliases = Vec::new();
    for ldid in tcx.hir_crate_items(()).definitions() {
        let did = ldid.to_def_id();
        match tcx.def_kind(did) {
            DefKind::Struct | DefKind::Enum | DefKind::Union => {
                let def = tcx.adt_def(did);
                let mut o = J::obj();
                o.put("key", J::s(key(tcx, did)));
                o.put("path", J::s(tcx.def_path_str(did)));
                o.put("kind", J::s(format!("{:?}", tcx.def_kind(did))));
                o.put("file", J::s(file_of(tcx, tcx.def_span(did))));
                span_json(tcx, tcx.def_span(did), &mut o);
                o.put("is_pub", J::Bool(tcx.visibility(did).is_public()));
                let generics = tcx.generics_of(did);
                let n_ty_params = generics
                    .own_params
                    .iter()
                    .filter(|p| matches!(p.kind, ty::GenericParamDefKind::Type { .. }))
                    .count();
                o.put("type_params", J::Int(n_ty_params as i128));
                let mut vars = Vec::new();
                for v in def.variants() {
                    let mut vo = J::obj();
                    vo.put("name", J::s(v.name.to_string()));
                    let mut fs = Vec::new();
                    for f in v.fields.iter() {
                        let mut fo = J::obj();
                        fo.put("name", J::s(f.name.to_string()));
                        let fty = tcx.type_of(f.did).instantiate_identity().skip_norm_wip();
                        fo.put("ty", ty_json(tcx, fty, 0));
                        fo.put("is_pub", J::Bool(f.vis.is_public()));
                        fo.put("vis", J::s(format!("{:?}", f.vis)));
                        fs.push(fo);
                    }
                    vo.put("fields", J::Arr(fs));
                    vars.push(vo);
                }
                o.put("variants", J::Arr(vars));
                if n_ty_params == 0 {
                    let t = tcx.type_of(did).instantiate_identity().skip_norm_wip();
                    let env = TypingEnv::post_analysis(tcx, did);
                    let mut tr = J::obj();
                    if let Some(s) = send {
                        tr.put("Send", J::Bool(trait_answer(tcx, did, t, s)));
                    }
                    if let Some(s) = sync {
                        tr.put("Sync", J::Bool(trait_answer(tcx, did, t, s)));
                    }
                    if let Some(s) = clone_tr {
                        tr.put("Clone", J::Bool(trait_answer(tcx, did, t, s)));
                    }
                    if let Some(s) = copy_tr {
                        tr.put("Copy", J::Bool(trait_answer(tcx, did, t, s)));
                    }
                    tr.put("Freeze", J::Bool(t.is_freeze(tcx, env)));
                    o.put("traits", tr);
                }
                adts.push(o);
            }
            DefKind::Impl { of_trait } => {
                let mut o = J::obj();
                o.put("key", J::s(key(tcx, did)));
                o.put("file", J::s(file_of(tcx, tcx.def_span(did))));
                span_json(tcx, tcx.def_span(did), &mut o);
                let st = tcx.type_of(did).instantiate_identity().skip_norm_wip();
                o.put("self", ty_json(tcx, st, 0));
                o.put("of_trait", J::Bool(of_trait));
                if of_trait {
                    let tr = tcx.impl_trait_ref(did).instantiate_identity().skip_norm_wip();
                    o.put("trait", J::s(tcx.def_path_str(tr.def_id)));
                    o.put("trait_full", J::s(format!("{:?}", tr)));
                    o.put("derived", J::Bool(tcx.is_automatically_derived(did)));
                    let hdr = tcx.impl_trait_header(did);
                    o.put("unsafe", J::Bool(!hdr.safety.is_safe()));
                    o.put("negative", J::Bool(format!("{:?}", hdr.polarity).contains("Negative")));
                }
                o.put("from_expansion", J::Bool(tcx.def_span(did).from_expansion()));
                let items: Vec<J> = tcx
                    .associated_item_def_ids(did)
                    .iter()
                    .map(|d| J::s(key(tcx, *d)))
                    .collect();
                o.put("items", J::Arr(items));
                impls.push(o);
            }
            DefKind::Static { mutability, .. } => {
                let mut o = J::obj();
                o.put("key", J::s(key(tcx, did)));
                o.put("path", J::s(tcx.def_path_str(did)));
                o.put("file", J::s(file_of(tcx, tcx.def_span(did))));
                span_json(tcx, tcx.def_span(did), &mut o);
                o.put("mut", J::Bool(mutability.is_mut()));
                let t = tcx.type_of(did).instantiate_identity().skip_norm_wip();
                o.put("ty", ty_json(tcx, t, 0));
                let env = TypingEnv::post_analysis(tcx, did);
                o.put("freeze", J::Bool(t.is_freeze(tcx, env)));
                statics.push(o);
            }
            DefKind::TyAlias => {
                let mut o = J::obj();
                o.put("key", J::s(key(tcx, did)));
                o.put("path", J::s(tcx.def_path_str(did)));
                let t = tcx.type_of(did).instantiate_identity().skip_norm_wip();
                o.put("ty", ty_json(tcx, t, 0));
                aliases.push(o);
            }
            _ => {}
        }
    }
    root.put("adts", J::Arr(adts));
    root.put("impls", J::Arr(impls));
    root.put("statics", J::Arr(statics));
    root.put("aliases", J::Arr(aliases));

    // Closures: parent, kind, upvars, what they are coerced to is visible in the MIR casts.
    let mut closures = Vec::new();
    for ldid in tcx.mir_keys(()).iter() {
        let did = ldid.to_def_id();
        if tcx.def_kind(did) != DefKind::Closure {
            continue;
        }
        let t = tcx.type_of(did).instantiate_identity().skip_norm_wip();
        if let ty::Closure(_, args) = t.kind() {
            let mut o = J::obj();
            o.put("key", J::s(key(tcx, did)));
            o.put("root", J::s(key(tcx, tcx.typeck_root_def_id(did))));
            o.put("parent", J::s(key(tcx, tcx.parent(did))));
            o.put("file", J::s(file_of(tcx, tcx.def_span(did))));
            span_json(tcx, tcx.def_span(did), &mut o);
            let ca = args.as_closure();
            o.put("ckind", J::s(format!("{:?}", ca.kind())));
            let env = TypingEnv::post_analysis(tcx, did);
            let mut ups = Vec::new();
            for u in ca.upvar_tys().iter() {
                let mut uj = ty_json(tcx, u, 0);
                uj.put("freeze", J::Bool(u.is_freeze(tcx, env)));
                ups.push(uj);
            }
            o.put("upvars", J::Arr(ups));
            o.put("sig", J::s(format!("{:?}", ca.sig())));
            let sig = ca.sig().skip_binder();
            let mut ins = Vec::new();
            if let Some(t0) = sig.inputs().get(0) {
                if let ty::Tuple(ts) = t0.kind() {
                    for x in ts.iter() {
                        ins.push(J::s(x.to_string()));
                    }
                } else {
                    ins.push(J::s(t0.to_string()));
                }
            }
            o.put("inputs", J::Arr(ins));
            o.put("output", J::s(sig.output().to_string()));
            let mut tr = J::obj();
            if let Some(s) = send {
                tr.put("Send", J::Bool(trait_answer(tcx, did, t, s)));
            }
            if let Some(s) = sync {
                tr.put("Sync", J::Bool(trait_answer(tcx, did, t, s)));
            }
            o.put("traits", tr);
            closures.push(o);
        }
    }
    root.put("closures", J::Arr(closures));

    // Unsafe blocks.
    let mut unsafes = Vec::new();
    for owner in tcx.hir_body_owners() {
        let body = tcx.hir_body_owned_by(owner);
        let mut f = UnsafeFinder { tcx, owner: owner.to_def_id(), out: Vec::new() };
        rustc_hir::intravisit::Visitor::visit_body(&mut f, body);
        unsafes.extend(f.out);
    }
    root.put("unsafe_blocks", J::Arr(unsafes));

    root
}
